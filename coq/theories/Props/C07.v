(* C07 - Target hashes are deterministic across runs and parallelism (the rule-hash part).
   This file holds only the statement, the property theorem and its non-vacuity example.
   `prog` is ruleHash as regenerated from the source; a target is presented to it with its Go maps listed in SOME
   order (Go randomises map iteration) and its declared dependencies in SOME order (the order in which sources, tools
   and deps were added, and with it the order in which concurrent parses/resolutions filled the slice). *)
From Coq Require Import Permutation.
From PlzV Require Import Base.Harness Model.C08 Model.C08_Set Model.C08_Spec Gen.RuleHashProg Proof.C07.
From PlzV Require Import Model.C07_Src Proof.C07_Src.
From PlzV Require Gen.C07SourceHash.

(* For every hash function, for the rule hash (runtime = false) and the runtime hash alike: any two presentations
   of one well-formed target - every map-valued attribute (named srcs, named outs, named data, provides, entry
   points, env, per-config commands and test commands, named tools, named secrets) an arbitrary permutation of its
   entries, the dependency slice an arbitrary permutation, everything else equal - are hashed to the same value. *)
Definition C07_statement : Prop :=
  forall (D : Type) (H : str -> D) (rt : bool) (t t' : target),
    wf t -> same_target t t' -> H (ser prog rt t) = H (ser prog rt t').

Theorem C07_full : C07_statement.
Proof. exact C07_full_proof. Qed.
Print Assumptions C07_full.

(* Non-vacuity: two different presentations of a target with three maps of >= 2 entries, per-config commands without
   an entry for the configuration (so the `highest config` loop runs) and three dependencies; one stream. *)
Example C07_nonvacuous :
  let d1 := Label [] (s "p") (s "a") in let d2 := Label (s "sub") (s "") (s "b") in let d3 := Label [] (s "p/q") (s "a") in
  let mk deps nsrcs env cmds prov :=
    set_deps deps (set_named_srcs nsrcs (set_env env (set_commands (Some cmds) (set_provides prov
      (set_config (s "cover") (set_fallback_config (s "opt") empty_target)))))) in
  let t := mk [d1; d2; d3] [(s "b", [s "y"]); (s "a", [s "x"])] [(s "K", s "1"); (s "J", s "2")]
              [(s "dbg", s "cmd1"); (s "fast", s "cmd2")] [(s "py", [d1]); (s "go", [d2])] in
  let t' := mk [d3; d1; d2] [(s "a", [s "x"]); (s "b", [s "y"])] [(s "J", s "2"); (s "K", s "1")]
               [(s "fast", s "cmd2"); (s "dbg", s "cmd1")] [(s "go", [d2]); (s "py", [d1])] in
  wf t /\ same_target t t' /\ t <> t'
  /\ ser prog false t = s "//p:a//p/q:a///sub//:bxy" ++ [1]%N ++ s "cmd2" ++ [1;1;1;1;1;1;1;1]%N
                        ++ s "go///sub//:bpy//p:a" ++ [1;1]%N ++ s "J=2K=1"
  /\ ser prog false t' = ser prog false t.
Proof.
  cbv zeta. split; [vm_compute; reflexivity|]. split; [|split; [discriminate|split; vm_compute; reflexivity]].
  intros f. unfold field_same. destruct f; cbn; try reflexivity.
  - apply Permutation_sym. apply Permutation_cons_append with (l := [_; _]).
  - apply perm_swap.
  - apply perm_swap.
  - apply perm_swap.
  - apply perm_swap.
Qed.

(* ------------------------------------------------------------------------------------------------------------------
   The source hash.  `C07SourceHash.prog` is sourceHash as regenerated from the source (its two loops, and whether
   BuildDependencies / allBuildInputs sort).  A build graph is presented with, for EVERY node, the named-source and
   named-tool maps listed in some order and the dependency slice in some order (graph_same); the exported entries of a
   slice keep their relative order (exported_same): ExportedDependencies() returns them unsorted, and that order is the
   order of the arguments in the BUILD file - ordered data of the definition, not an enumeration order.  The run-time
   dependencies a node yields, recursivelyProvideFor and the paths of an input are data of the graph.

   For every hash function H, every path hasher PH and every fuel: the stream sourceHash writes for `top` is hashed to
   the same value in both presentations - and it runs out of fuel (None) in both or in neither. *)
Definition C07_src_statement : Prop :=
  forall (D : Type) (H : str -> D) (PH : str -> str) (fuel : nat) (g g' : graph) (top : label),
    graph_wf g -> graph_same g g' -> exported_same g g' ->
    option_map H (src_stream PH C07SourceHash.prog fuel g top) = option_map H (src_stream PH C07SourceHash.prog fuel g' top).

Theorem C07_src_full : C07_src_statement.
Proof. exact C07_src_full_proof. Qed.
Print Assumptions C07_src_full.

(* Non-vacuity: t (needs transitive dependencies) has two named source groups and two named tool groups listed in two
   orders and a slice of four dependencies (l is a source, a b c are build dependencies) in two orders; a and b both
   depend on d and e (two diamonds: `done` stops the second visit), in opposite stored orders; c is output-complete,
   so its EXPORTED dependency x is followed (and x's only path has the same tmp path as e's: IterSources' `done`
   drops it); d has a run-time dependency r.  Both presentations give one stream, in fuel 3 (the depth t-a-d), and
   run out of fuel at 2. *)
Example C07_src_nonvacuous :
  let L n := Label [] (s "p") n in
  let bd n := Dep (L n) [L n] true false in
  let mk ns nt dt da db dc :=
    Graph [(L (s "t"), Node [IFile (s "t.go")] ns [IFile (s "tool")] nt [] dt true false []);
           (L (s "a"), Node [] [] [] [] [] da false false []); (L (s "b"), Node [] [] [] [] [] db false false []);
           (L (s "c"), Node [] [] [] [] [] dc false true []); (L (s "d"), Node [] [] [] [] [] [] false false [L (s "r")]);
           (L (s "e"), empty_node); (L (s "x"), empty_node); (L (s "l"), empty_node); (L (s "r"), empty_node)]
          []
          [(IFile (s "t.go"), [(s "p/t.go", s "T/p/t.go")]); (IFile (s "a.txt"), [(s "p/a.txt", s "T/p/a.txt")]);
           (IFile (s "tool"), [(s "/bin/tool", s "T/tool")]); (IFile (s "t1"), [(s "/bin/t1", s "T/t1")]);
           (IFile (s "t2"), [(s "/bin/t2", s "T/t2")]); (ILabel (L (s "l")), [(s "G/l", s "T/l")]);
           (ILabel (L (s "a")), [(s "G/a", s "T/a")]); (ILabel (L (s "b")), [(s "G/b", s "T/b")]); (ILabel (L (s "c")), [(s "G/c", s "T/c")]);
           (ILabel (L (s "d")), [(s "G/d1", s "T/d1"); (s "G/d2", s "T/d2")]); (ILabel (L (s "e")), [(s "G/e", s "T/e")]);
           (ILabel (L (s "x")), [(s "G/x", s "T/e")]); (ILabel (L (s "r")), [(s "G/r", s "T/r")])] in
  let sl := Dep (L (s "l")) [L (s "l")] false false in let ex := Dep (L (s "x")) [L (s "x")] true true in
  let g := mk [(s "b", [ILabel (L (s "l"))]); (s "a", [IFile (s "a.txt")])] [(s "k2", [IFile (s "t2")]); (s "k1", [IFile (s "t1")])]
              [sl; bd (s "a"); bd (s "b"); bd (s "c")] [bd (s "d"); bd (s "e")] [bd (s "e"); bd (s "d")] [ex; bd (s "d")] in
  let g' := mk [(s "a", [IFile (s "a.txt")]); (s "b", [ILabel (L (s "l"))])] [(s "k1", [IFile (s "t1")]); (s "k2", [IFile (s "t2")])]
               [bd (s "c"); bd (s "a"); sl; bd (s "b")] [bd (s "e"); bd (s "d")] [bd (s "d"); bd (s "e")] [bd (s "d"); ex] in
  let PH p := s "<" ++ p ++ s ">" in
  graph_wf g /\ graph_same g g' /\ exported_same g g' /\ g <> g'
  /\ src_stream PH C07SourceHash.prog 3 g (L (s "t"))
     = Some (s "<p/t.go>p/t.go<p/a.txt>p/a.txt<G/l>G/l<G/a>G/a<G/d1>G/d1<G/d2>G/d2<G/r>G/r<G/e>G/e<G/b>G/b<G/c>G/c</bin/tool></bin/t1></bin/t2>")
  /\ src_stream PH C07SourceHash.prog 3 g' (L (s "t")) = src_stream PH C07SourceHash.prog 3 g (L (s "t"))
  /\ src_stream PH C07SourceHash.prog 2 g (L (s "t")) = None.
Proof.
  cbv zeta. split; [vm_compute; reflexivity|]. split; [|split].
  - split; [|split; reflexivity]. cbn [g_nodes].
    repeat (apply Forall2_cons; [split; [reflexivity|] | ]); try apply Forall2_nil; try apply node_same_refl.
    + repeat split; try reflexivity; cbn.
      * apply perm_swap.
      * apply perm_swap.
      * apply (Permutation_cons_app [_; _] [_]). cbn. apply (Permutation_cons_app [_] [_]). cbn. apply perm_swap.
    + repeat split; try reflexivity. cbn. apply perm_swap.
    + repeat split; try reflexivity. cbn. apply perm_swap.
    + repeat split; try reflexivity. cbn. apply perm_swap.
  - cbn [g_nodes]. repeat (apply Forall2_cons; [vm_compute; reflexivity|]). apply Forall2_nil.
  - split; [discriminate|]. split; [vm_compute; reflexivity|]. split; vm_compute; reflexivity.
Qed.

(* The hypothesis exported_same cannot be dropped: the model (like the code) hashes two presentations that differ only
   in the stored order of two exported dependencies differently. *)
Example C07_src_exported_order_is_observable :
  ~ (forall (D : Type) (H : str -> D) (PH : str -> str) (fuel : nat) (g g' : graph) (top : label),
       graph_wf g -> graph_same g g' ->
       option_map H (src_stream PH C07SourceHash.prog fuel g top) = option_map H (src_stream PH C07SourceHash.prog fuel g' top)).
Proof. exact exported_order_is_observable. Qed.
