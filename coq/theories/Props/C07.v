(* C07 - Target hashes are deterministic across runs and parallelism (the rule-hash part).
   This file holds only the statement, the property theorem and its non-vacuity example.
   `prog` is ruleHash as regenerated from the source; a target is presented to it with its Go maps listed in SOME
   order (Go randomises map iteration) and its declared dependencies in SOME order (the order in which sources, tools
   and deps were added, and with it the order in which concurrent parses/resolutions filled the slice). *)
From Coq Require Import Permutation.
From PlzV Require Import Base.Harness Model.C08 Model.C08_Set Model.C08_Spec Gen.RuleHashProg Proof.C07.
From PlzV Require Import Model.C07_Src Proof.C07_Src.
From PlzV Require Import Model.C07_Provide Proof.C07_Provide Model.C07_Hasher Proof.C07_Hasher.
From PlzV Require Import Model.C07_Link Proof.C07_Link.
From PlzV Require Gen.C07SourceHash Gen.C07Provide Gen.C07Hasher Gen.C03Incr.

(* For every hash function, for the rule hash (runtime = false) and the runtime hash alike: any two presentations
   of one well-formed target - every map-valued attribute (named srcs, named outs, named data, provides, entry
   points, env, per-config commands and test commands, named tools, named secrets) an arbitrary permutation of its
   entries, the dependency slice an arbitrary permutation, everything else equal - are hashed to the same value. *)
Definition C07_statement : Prop :=
  forall (D : Type) (H : str -> D) (rt : bool) (t t' : target),
    wf t -> same_target t t' -> H (ser prog rt t) = H (ser prog rt t').

Theorem C07_full : C07_statement.
Proof. exact C07_full_proof. Qed.
Print Assumptions C07_full.

(* Non-vacuity: two different presentations of a target with three maps of >= 2 entries, per-config commands without
   an entry for the configuration (so the `highest config` loop runs) and three dependencies; one stream. *)
Example C07_nonvacuous :
  let d1 := Label [] (s "p") (s "a") in let d2 := Label (s "sub") (s "") (s "b") in let d3 := Label [] (s "p/q") (s "a") in
  let mk deps nsrcs env cmds prov :=
    set_deps deps (set_named_srcs nsrcs (set_env env (set_commands (Some cmds) (set_provides prov
      (set_config (s "cover") (set_fallback_config (s "opt") empty_target)))))) in
  let t := mk [d1; d2; d3] [(s "b", [s "y"]); (s "a", [s "x"])] [(s "K", s "1"); (s "J", s "2")]
              [(s "dbg", s "cmd1"); (s "fast", s "cmd2")] [(s "py", [d1]); (s "go", [d2])] in
  let t' := mk [d3; d1; d2] [(s "a", [s "x"]); (s "b", [s "y"])] [(s "J", s "2"); (s "K", s "1")]
               [(s "fast", s "cmd2"); (s "dbg", s "cmd1")] [(s "go", [d2]); (s "py", [d1])] in
  wf t /\ same_target t t' /\ t <> t'
  /\ ser prog false t = s "//p:a//p/q:a///sub//:bxy" ++ [1]%N ++ s "cmd2" ++ [1;1;1;1;1;1;1;1]%N
                        ++ s "go///sub//:bpy//p:a" ++ [1;1]%N ++ s "J=2K=1"
  /\ ser prog false t' = ser prog false t.
Proof.
  cbv zeta. split; [vm_compute; reflexivity|]. split; [|split; [discriminate|split; vm_compute; reflexivity]].
  intros f. unfold field_same. destruct f; cbn; try reflexivity.
  - apply Permutation_sym. apply Permutation_cons_append with (l := [_; _]).
  - apply perm_swap.
  - apply perm_swap.
  - apply perm_swap.
  - apply perm_swap.
Qed.

(* ------------------------------------------------------------------------------------------------------------------
   The source hash.  `C07SourceHash.prog` is sourceHash as regenerated from the source (its two loops, and whether
   BuildDependencies / allBuildInputs sort).  A build graph is presented with, for EVERY node, the named-source and
   named-tool maps listed in some order and the dependency slice in some order (graph_same); the exported entries of a
   slice keep their relative order (exported_same): ExportedDependencies() returns them unsorted, and that order is the
   order of the arguments in the BUILD file - ordered data of the definition, not an enumeration order.  The run-time
   dependencies a node yields, recursivelyProvideFor and the paths of an input are data of the graph.

   For every hash function H, every path hasher PH and every fuel: the stream sourceHash writes for `top` is hashed to
   the same value in both presentations - and it runs out of fuel (None) in both or in neither. *)
Definition C07_src_statement : Prop :=
  forall (D : Type) (H : str -> D) (PH : str -> str) (fuel : nat) (g g' : graph) (top : label),
    graph_wf g -> graph_same g g' -> exported_same g g' ->
    option_map H (src_stream PH C07SourceHash.prog fuel g top) = option_map H (src_stream PH C07SourceHash.prog fuel g' top).

Theorem C07_src_full : C07_src_statement.
Proof. exact C07_src_full_proof. Qed.
Print Assumptions C07_src_full.

(* Non-vacuity: t (needs transitive dependencies) has two named source groups and two named tool groups listed in two
   orders and a slice of four dependencies (l is a source, a b c are build dependencies) in two orders; a and b both
   depend on d and e (two diamonds: `done` stops the second visit), in opposite stored orders; c is output-complete,
   so its EXPORTED dependency x is followed (and x's only path has the same tmp path as e's: IterSources' `done`
   drops it); d has a run-time dependency r.  Both presentations give one stream, in fuel 3 (the depth t-a-d), and
   run out of fuel at 2. *)
Example C07_src_nonvacuous :
  let L n := Label [] (s "p") n in
  let bd n := Dep (L n) [L n] true false in
  let mk ns nt dt da db dc :=
    Graph [(L (s "t"), Node [IFile (s "t.go")] ns [IFile (s "tool")] nt [] dt true false []);
           (L (s "a"), Node [] [] [] [] [] da false false []); (L (s "b"), Node [] [] [] [] [] db false false []);
           (L (s "c"), Node [] [] [] [] [] dc false true []); (L (s "d"), Node [] [] [] [] [] [] false false [L (s "r")]);
           (L (s "e"), empty_node); (L (s "x"), empty_node); (L (s "l"), empty_node); (L (s "r"), empty_node)]
          []
          [(IFile (s "t.go"), [(s "p/t.go", s "T/p/t.go")]); (IFile (s "a.txt"), [(s "p/a.txt", s "T/p/a.txt")]);
           (IFile (s "tool"), [(s "/bin/tool", s "T/tool")]); (IFile (s "t1"), [(s "/bin/t1", s "T/t1")]);
           (IFile (s "t2"), [(s "/bin/t2", s "T/t2")]); (ILabel (L (s "l")), [(s "G/l", s "T/l")]);
           (ILabel (L (s "a")), [(s "G/a", s "T/a")]); (ILabel (L (s "b")), [(s "G/b", s "T/b")]); (ILabel (L (s "c")), [(s "G/c", s "T/c")]);
           (ILabel (L (s "d")), [(s "G/d1", s "T/d1"); (s "G/d2", s "T/d2")]); (ILabel (L (s "e")), [(s "G/e", s "T/e")]);
           (ILabel (L (s "x")), [(s "G/x", s "T/e")]); (ILabel (L (s "r")), [(s "G/r", s "T/r")])] in
  let sl := Dep (L (s "l")) [L (s "l")] false false in let ex := Dep (L (s "x")) [L (s "x")] true true in
  let g := mk [(s "b", [ILabel (L (s "l"))]); (s "a", [IFile (s "a.txt")])] [(s "k2", [IFile (s "t2")]); (s "k1", [IFile (s "t1")])]
              [sl; bd (s "a"); bd (s "b"); bd (s "c")] [bd (s "d"); bd (s "e")] [bd (s "e"); bd (s "d")] [ex; bd (s "d")] in
  let g' := mk [(s "a", [IFile (s "a.txt")]); (s "b", [ILabel (L (s "l"))])] [(s "k1", [IFile (s "t1")]); (s "k2", [IFile (s "t2")])]
               [bd (s "c"); bd (s "a"); sl; bd (s "b")] [bd (s "e"); bd (s "d")] [bd (s "d"); bd (s "e")] [bd (s "d"); ex] in
  let PH p := s "<" ++ p ++ s ">" in
  graph_wf g /\ graph_same g g' /\ exported_same g g' /\ g <> g'
  /\ src_stream PH C07SourceHash.prog 3 g (L (s "t"))
     = Some (s "<p/t.go>p/t.go<p/a.txt>p/a.txt<G/l>G/l<G/a>G/a<G/d1>G/d1<G/d2>G/d2<G/r>G/r<G/e>G/e<G/b>G/b<G/c>G/c</bin/tool></bin/t1></bin/t2>")
  /\ src_stream PH C07SourceHash.prog 3 g' (L (s "t")) = src_stream PH C07SourceHash.prog 3 g (L (s "t"))
  /\ src_stream PH C07SourceHash.prog 2 g (L (s "t")) = None.
Proof.
  cbv zeta. split; [vm_compute; reflexivity|]. split; [|split].
  - split; [|split; reflexivity]. cbn [g_nodes].
    repeat (apply Forall2_cons; [split; [reflexivity|] | ]); try apply Forall2_nil; try apply node_same_refl.
    + repeat split; try reflexivity; cbn.
      * apply perm_swap.
      * apply perm_swap.
      * apply (Permutation_cons_app [_; _] [_]). cbn. apply (Permutation_cons_app [_] [_]). cbn. apply perm_swap.
    + repeat split; try reflexivity. cbn. apply perm_swap.
    + repeat split; try reflexivity. cbn. apply perm_swap.
    + repeat split; try reflexivity. cbn. apply perm_swap.
  - cbn [g_nodes]. repeat (apply Forall2_cons; [vm_compute; reflexivity|]). apply Forall2_nil.
  - split; [discriminate|]. split; [vm_compute; reflexivity|]. split; vm_compute; reflexivity.
Qed.

(* The hypothesis exported_same cannot be dropped: the model (like the code) hashes two presentations that differ only
   in the stored order of two exported dependencies differently. *)
Example C07_src_exported_order_is_observable :
  ~ (forall (D : Type) (H : str -> D) (PH : str -> str) (fuel : nat) (g g' : graph) (top : label),
       graph_wf g -> graph_same g g' ->
       option_map H (src_stream PH C07SourceHash.prog fuel g top) = option_map H (src_stream PH C07SourceHash.prog fuel g' top)).
Proof. exact exported_order_is_observable. Qed.

(* ------------------------------------------------------------------------------------------------------------------
   Require / provide.  `C07Provide.provide_range` is the loop of BuildTarget.provideFor as regenerated from the source
   (which collection it ranges over).  target.Provides is a Go map: a graph is presented with, for EVERY target, that
   map listed in some order (pgraph_same; keys distinct: pgraph_wf).  For every fuel, every top-level target, every
   dependency and every label: recursivelyProvideFor yields the same labels IN THE SAME ORDER in both presentations -
   and runs out of fuel in both or in neither.  (These labels are what IterInputs substitutes for a dependency, i.e. the
   table g_provide of the source-hash statement above.) *)
Definition C07_provide_statement : Prop :=
  forall (g g' : pgraph) (target dependency d : label) (fuel : nat),
    pgraph_wf g -> pgraph_same g g' ->
    rec_provide C07Provide.provide_range g target dependency fuel d = rec_provide C07Provide.provide_range g' target dependency fuel d.

Theorem C07_provide_full : C07_provide_statement.
Proof. exact C07_provide_full_proof. Qed.
Print Assumptions C07_provide_full.

(* Non-vacuity: lib provides three languages, listed in two orders; t requires two of them in the order lb, la; the
   label provided for lb is itself a provider (chain of length 2), q is t's tool (never replaced).  Both presentations
   yield r2, p - the order of t's Requires - with fuel 3 and run out of fuel at 2. *)
Example C07_provide_nonvacuous :
  let L n := Label [] (s "") n in
  let mk prov := [(L (s "t"), PNode [] [s "lb"; s "la"] [] [L (s "q")]);
                  (L (s "lib"), PNode prov [] [] []);
                  (L (s "r"), PNode [(s "lb", [L (s "r2")])] [] [] []);
                  (L (s "p"), empty_pnode); (L (s "q"), PNode [(s "la", [L (s "p")])] [] [] []); (L (s "r2"), empty_pnode)] in
  let g := mk [(s "la", [L (s "p")]); (s "lb", [L (s "r")]); (s "lc", [L (s "q")])] in
  let g' := mk [(s "lc", [L (s "q")]); (s "lb", [L (s "r")]); (s "la", [L (s "p")])] in
  pgraph_wf g /\ pgraph_same g g' /\ g <> g'
  /\ rec_provide C07Provide.provide_range g (L (s "t")) (L (s "t")) 3 (L (s "lib")) = Some [L (s "r2"); L (s "p")]
  /\ rec_provide C07Provide.provide_range g' (L (s "t")) (L (s "t")) 3 (L (s "lib")) = Some [L (s "r2"); L (s "p")]
  /\ rec_provide C07Provide.provide_range g (L (s "t")) (L (s "t")) 2 (L (s "lib")) = None
  /\ rec_provide C07Provide.provide_range g (L (s "t")) (L (s "t")) 3 (L (s "q")) = Some [L (s "q")].
Proof.
  cbv zeta. split; [vm_compute; reflexivity|]. split; [|split; [discriminate | repeat split; vm_compute; reflexivity]].
  repeat (apply Forall2_cons; [split; [reflexivity|] | ]); try apply Forall2_nil; try apply pnode_same_refl.
  repeat split; try reflexivity. cbn.
  apply (Permutation_cons_app [_; _] []). cbn. apply perm_swap.
Qed.

(* The theorem is about the loop that exists: a loop that ranges over the MAP is order dependent. *)
Example C07_provide_range_over_map_is_observable :
  ~ (forall (self : label) (t t' o : pnode), pnode_wfb t = true -> pnode_same t t' ->
       provide_for PRangeProvides self t o = provide_for PRangeProvides self t' o).
Proof. exact range_over_map_is_order_dependent. Qed.

(* ------------------------------------------------------------------------------------------------------------------
   The memo of the path hasher.  `C07Hasher.memo_guarded` is regenerated from PathHasher.Hash (is the store into
   hasher.memo inside `if err == nil`).  For every digest function TH of the (unchanged) tree and every history of
   Hash / CopyHash / MoveHash calls on one hasher, starting from the empty memo, in which the raw computations that
   SUCCEED return TH of their path (those that fail return an arbitrary partial digest; a path may be missing): every
   digest Hash returns with a nil error is TH of the path the entry stands for - never a partial digest.  In
   particular, after a failed call the next call on the same path returns the true digest or an error. *)
Definition C07_memo_statement : Prop :=
  forall (TH : str -> str) (h : list hop), Forall (faithful_op TH) h ->
    Forall (res_ok TH) (snd (hrun C07Hasher.memo_guarded [] h)).

Theorem C07_memo_full : C07_memo_statement.
Proof. exact C07_memo_full_proof. Qed.
Print Assumptions C07_memo_full.

(* Non-vacuity: a failed call, the successful retry, a hit, a copy, a hit on the copy (digest of the ORIGIN), a forced
   recalculation that fails and leaves the memo alone, a move out of plz-out/tmp (the source entry is dropped: the
   next call on it recomputes). *)
Example C07_memo_nonvacuous :
  let TH p := s "#" ++ p in
  let h := [HHash (s "d") false (RawErr (s "partial")); HHash (s "d") false (RawOk (TH (s "d"))); HHash (s "d") false RawMissing;
            HCopy (s "d") (s "e"); HHash (s "e") false (RawOk (TH (s "e"))); HHash (s "d") true (RawErr (s "partial2"));
            HHash (s "d") false (RawErr (s "partial3"));
            HHash (s "plz-out/tmp/x") false (RawOk (TH (s "plz-out/tmp/x"))); HMove (s "plz-out/tmp/x") (s "plz-out/gen/x");
            HHash (s "plz-out/gen/x") false RawMissing; HHash (s "plz-out/tmp/x") false RawMissing] in
  Forall (faithful_op TH) h
  /\ snd (hrun C07Hasher.memo_guarded [] h)
     = [ResErr; ResOk (s "d") (s "#d"); ResOk (s "d") (s "#d"); ResNone; ResOk (s "d") (s "#d"); ResErr; ResOk (s "d") (s "#d");
        ResOk (s "plz-out/tmp/x") (s "#plz-out/tmp/x"); ResNone; ResOk (s "plz-out/tmp/x") (s "#plz-out/tmp/x"); ResErr].
Proof. cbv zeta. split; [repeat constructor | vm_compute; reflexivity]. Qed.

(* The guard is what the theorem rests on: without it a partial digest is returned with a nil error. *)
Example C07_memo_unguarded_is_refuted :
  ~ (forall (TH : str -> str) (h : list hop), Forall (faithful_op TH) h -> Forall (res_ok TH) (snd (hrun false [] h))).
Proof. exact unguarded_memo_returns_partial_digest. Qed.

(* ------------------------------------------------------------------------------------------------------------------
   The extended attributes.  `C07Hasher.xattr_rule` is NewPathHasher's derivation of the attribute name from the
   algorithm and `C07Hasher.algos` the algorithms core.NewBuildState creates hashers for, both regenerated from the
   source.  For every digest function TH (algorithm, path) and every history of Hash calls by fresh hashers of those
   algorithms on paths under plz-out/ (any mixture of recalc / store flags), starting from files without attributes:
   every call returns the digest of ITS OWN algorithm - what one invocation leaves behind is what the next one would
   compute.  (isolated; by isolated_iff_names_distinct this holds iff the names are pairwise distinct.) *)
Definition C07_xattr_statement : Prop := isolated C07Hasher.xattr_rule C07Hasher.algos.

Theorem C07_xattr_full : C07_xattr_statement.
Proof. exact C07_xattr_full_proof. Qed.
Print Assumptions C07_xattr_full.

(* Non-vacuity: the generated names; the build of a target pinned with a blake3 hash (sha1, sha256, blake3 checkers
   store their digests on the output), then a second invocation reading with sha256 and blake3. *)
Example C07_xattr_nonvacuous :
  let TH a p := a ++ s ":" ++ p in
  let o := s "plz-out/gen/pinned.txt" in
  let h := [XHash (s "sha1") o true true (TH (s "sha1") o); XHash (s "sha256") o true true (TH (s "sha256") o);
            XHash (s "blake3") o true true (TH (s "blake3") o); XHash (s "sha256") o false true (TH (s "sha256") o);
            XHash (s "blake3") o false false (TH (s "blake3") o); XHash (s "crc32") o false false (TH (s "crc32") o)] in
  map (xattr_name C07Hasher.xattr_rule) C07Hasher.algos
    = [s "user.plz_hash"; s "user.plz_hash_sha256"; s "user.plz_hash_crc32"; s "user.plz_hash_crc64"; s "user.plz_hash_blake3"; s "user.plz_hash_xxhash"]
  /\ Forall (xfaithful C07Hasher.algos TH) h
  /\ map snd (snd (xrun C07Hasher.xattr_rule [] h))
     = [s "sha1:" ++ o; s "sha256:" ++ o; s "blake3:" ++ o; s "sha256:" ++ o; s "blake3:" ++ o; s "crc32:" ++ o]
  /\ length (fst (xrun C07Hasher.xattr_rule [] h)) = 3%nat.
Proof.
  cbv zeta. split; [vm_compute; reflexivity|]. split; [|split; vm_compute; reflexivity].
  repeat (constructor; [split; [vm_compute; tauto | reflexivity]|]). constructor.
Qed.

(* The condition is necessary as well as sufficient, for ANY rule and ANY list of distinct algorithms. *)
Example C07_xattr_isolated_iff_distinct :
  forall (r : xrule) (algos : list str), nodupb algos = true -> (isolated r algos <-> names_distinct r algos = true).
Proof. exact isolated_iff_names_distinct. Qed.

(* ------------------------------------------------------------------------------------------------------------------
   What earlier invocations leave behind.  A filegroup of a plain source file links its output to the user's file
   (one inode: content and extended attributes are shared); `lk_same_branch` is the same-file way out of
   filegroupBuilder.Build as regenerated from the source (Gen/C03Incr.v fg_same_branch), interpreted by the model.
   For every first content and every history of invocations of `plz hash --detailed` on a consumer of the filegroup
   (each a new process), edits of the source in place (same inode), replacements (new inode) and rm -rf plz-out: the
   Source hash every invocation prints is the one a FRESH COPY of the tree as it is at that moment prints. *)
Definition C07_link_statement : Prop :=
  forall (c0 : str) (evs : list lk_event),
    lk_runs lk_same_branch (lk_init c0) evs = lk_fresh_reports lk_same_branch c0 evs.

Theorem C07_link_full : C07_link_statement.
Proof. exact C07_link_full_proof. Qed.
Print Assumptions C07_link_full.

(* Non-vacuity: cold run, warm run, edit in place, run (the sequence that goes wrong without the mark), then a
   replacement with the old content of the output inode, a run (the separate inode is kept and gets the attribute),
   another replacement, a run (re-linked), rm -rf plz-out, a run. *)
Example C07_link_nonvacuous :
  let evs := [LkRun; LkRun; LkEdit (s "two"); LkRun; LkReplace (s "two"); LkRun; LkReplace (s "three"); LkRun; LkRmOut; LkRun] in
  lk_run_acts lk_same_branch LkNoEntry LkNoEntry = LkNil
  /\ lk_runs lk_same_branch (lk_init (s "one")) evs = [s "one"; s "one"; s "two"; s "two"; s "three"; s "three"]
  /\ lk_fresh_reports lk_same_branch (s "one") evs = [s "one"; s "one"; s "two"; s "two"; s "three"; s "three"]
  /\ lk_o (lk_final lk_same_branch (lk_init (s "one")) [LkRun; LkReplace (s "one"); LkRun]) = LkSep (LkI (s "one") (Some (s "one"))).
Proof. cbv zeta. repeat split; vm_compute; reflexivity. Qed.

(* The user's file never gets an attribute: along every history the source inode is left without one. *)
Theorem C07_link_source_untouched :
  forall (c0 : str) (evs : list lk_event), lk_xattr (lk_src (lk_final lk_same_branch (lk_init c0) evs)) = None.
Proof. exact C07_link_source_untouched_proof. Qed.
Print Assumptions C07_link_source_untouched.

(* The mark is what the theorem rests on: for EVERY way out that leaves no memo entry on the output, and every two
   contents, the run after `cold run, warm run, edit in place` prints the digest of the old content while a fresh
   copy prints the new one. *)
Example C07_link_mark_is_necessary :
  forall sb, lk_run_acts sb LkNoEntry LkNoEntry = LkNoEntry -> forall c0 c1, c0 <> c1 ->
    lk_runs sb (lk_init c0) [LkRun; LkRun; LkEdit c1; LkRun] = [c0; c0; c0]
    /\ lk_fresh_reports sb c0 [LkRun; LkRun; LkEdit c1; LkRun] = [c0; c0; c1].
Proof. exact link_mark_necessary. Qed.

Example C07_link_without_copyhash_is_refuted :
  ~ (forall c0 evs, lk_runs [C03Incr.FgMarkBuilt; C03Incr.FgReturn] (lk_init c0) evs
                    = lk_fresh_reports [C03Incr.FgMarkBuilt; C03Incr.FgReturn] c0 evs).
Proof. exact link_without_copyhash_refuted. Qed.
