(* C03 - No-op and cut-off: actions re-run only when their inputs changed.  Proved on the engine model
   (Model/Engine.v, cache off) for all well-formed repositories, stores and edits. *)
(* Proof.Engine_Gen: the record layout / needsBuilding order / cache-key parts regenerated from the source *)
From PlzV Require Import Proof.Engine_Gen.
From PlzV Require Import Base.Harness Model.Engine Proof.Engine Proof.C03.

Definition C03_statement : Prop :=
  (* (a) no-op: after a successful `plz build req`, running it again on the unchanged tree executes
     nothing, fails nothing and leaves plz-out exactly as it was - from ANY initial plz-out *)
  (forall r req st, wf_repo (restrict r req) = true ->
     run_ok (plz_build false r req st) = true ->
     plz_build false r req (rn_st (plz_build false r req st)) = mkRun (rn_st (plz_build false r req st)) [] [])
  (* (b) a command runs only when needsBuilding said so, and that happens only when the metadata file is
     missing, an output or its record is missing or inconsistent, the recorded rule key differs from the
     current definition, a source is missing, or the recorded source key differs from the current one *)
  /\ (forall r rn t, rn_log (build_one false r rn t) = t_label t :: rn_log rn ->
        s_meta (rn_st rn) (t_label t) = false
        \/ common_rec (rn_st rn) (out_rels t) = None
        \/ exists rk, common_rec (rn_st rn) (out_rels t) = Some rk
             /\ (fst rk <> t_defkey t \/ source_key r (rn_st rn) t = None
                 \/ exists k, source_key r (rn_st rn) t = Some k /\ k <> snd rk))
  (* (c) cut-off across an edit: r1 built successfully, tree edited to r2 (anything may change: files,
     other targets, the order), r2 built.  A rule that is in both with the same definition and whose source
     key at its turn in the second build equals its source key after the first build is NOT executed *)
  /\ (forall r1 r2 st0 t pre post,
        wf_repo r1 = true -> wf_repo r2 = true -> run_ok (build_all false r1 st0) = true ->
        In t (r_targets r1) -> r_targets r2 = pre ++ t :: post -> is_filegroup t = false ->
        let st1 := rn_st (build_all false r1 st0) in
        let before := fold_left (build_one false r2) pre (mkRun st1 [] []) in
        source_key r2 (rn_st before) t = source_key r1 st1 t ->
        ~ In (t_label t) (rn_log (build_all false r2 st1)))
  (* (d) the source key only sees path-hash streams: a dependency rebuilt to outputs with the same streams
     (in particular byte-identical outputs) leaves the key, hence by (c) the dependent, alone *)
  /\ (forall r1 r2 st1 st2 t, iter_sources r2 t = iter_sources r1 t ->
        (forall p, In p (iter_sources r1 t) -> option_map stream (read r2 st2 p) = option_map stream (read r1 st1 p)) ->
        source_key r2 st2 t = source_key r1 st1 t).

Theorem C03_full : C03_statement.
Proof.
  split; [|split; [|split]].
  - intros r req st Hwf Hok. unfold plz_build in *. apply noop_build_all; assumption.
  - intros r rn t H. apply needs_build_reasons. apply executed_needs_build. exact H.
  - exact cutoff_two_builds.
  - exact source_key_streams.
Qed.
Print Assumptions C03_full.

(* Non-vacuity: b = cat(a.out, b.txt), a = cat(a.txt).  After a build, editing a.txt to the same bytes under
   another definition of a (a comment-like change of its rule key) re-runs a, whose output is byte-identical:
   b is cut off.  The second build of the unchanged tree runs nothing. *)
Definition nv_a (key : str) : target := mkT (s "//p:a") (s "p") (Genrule Concat) [SFile (s "a.txt")] [s "a.out"] key.
Definition nv_b : target := mkT (s "//p:b") (s "p") (Genrule Concat) [SLabel (s "//p:a"); SFile (s "b.txt")] [s "b.out"] (s "kb").
Definition nv_r1 : repo := mkR [(s "p/a.txt", s "1"); (s "p/b.txt", s "2")] [nv_a (s "ka"); nv_b].
Definition nv_r2 : repo := mkR [(s "p/a.txt", s "1"); (s "p/b.txt", s "2")] [nv_a (s "ka2"); nv_b].
Example C03_nonvacuous :
  wf_repo nv_r1 = true /\ wf_repo nv_r2 = true
  /\ rn_log (build_all false nv_r1 empty_store) = [s "//p:b"; s "//p:a"]
  /\ run_ok (build_all false nv_r1 empty_store) = true
  /\ rn_log (build_all false nv_r1 (rn_st (build_all false nv_r1 empty_store))) = []
  /\ rn_log (build_all false nv_r2 (rn_st (build_all false nv_r1 empty_store))) = [s "//p:a"].
Proof. vm_compute. repeat split. Qed.
