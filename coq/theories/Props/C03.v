(* C03 - No-op and cut-off: actions re-run only when their inputs changed.  Proved on the engine model
   (Model/Engine.v, cache off) for all well-formed repositories, stores and edits. *)
(* Proof.Engine_Gen: the record layout / needsBuilding order / cache-key parts regenerated from the source *)
From PlzV Require Import Proof.Engine_Gen.
From PlzV Require Import Base.Harness Model.Engine Proof.Engine Proof.C03.

Definition C03_statement : Prop :=
  (* (a) no-op: after a successful `plz build req`, running it again on the unchanged tree executes
     nothing, fails nothing and leaves plz-out exactly as it was - from ANY initial plz-out.  With targets that
     have output_dirs two executable side conditions are needed (both are trivially true without such targets):
     no such target was rebuilt with the outputs of an old metadata file still attached (plz_stale, the finding
     of C01), and the metadata files of the initial plz-out name only files their target can discover (dyn_ok) *)
  (forall r req st, wf_repo (restrict r req) = true ->
     run_ok (plz_build false r req st) = true ->
     plz_stale false r req st = false -> dyn_ok (restrict r req) st = true ->
     plz_build false r req (rn_st (plz_build false r req st)) = mkRun (rn_st (plz_build false r req st)) [] [])
  (* (b) a command runs only when needsBuilding said so - before the build or, for a target with output_dirs,
     after the outputs named by its metadata were added (stale_flow) - and that happens only when the metadata
     file is missing, an output or its record is missing or inconsistent, the recorded rule key (pre-build; for
     the second check the post-build one, taken over the outputs) differs from the current definition, a source
     is missing, or the recorded source key differs from the current one *)
  /\ (forall r rn t, rn_log (build_one false r rn t) = t_label t :: rn_log rn ->
        (needs_build r (rn_st rn) t = true
         /\ (s_meta (rn_st rn) (t_label t) = false
             \/ common_rec (rn_st rn) (out_rels t) = None
             \/ exists rk, common_rec (rn_st rn) (out_rels t) = Some rk
                  /\ (rk_def rk <> t_defkey t \/ source_key r (rn_st rn) t = None
                      \/ exists k, source_key r (rn_st rn) t = Some k /\ k <> snd rk)))
        \/ (could_modify t = true /\ needs_build r (rn_st rn) t = false
            /\ (common_rec (rn_st rn) (map (out_rel t) (meta_outs (rn_st rn) t)) = None
                \/ exists rk, common_rec (rn_st rn) (map (out_rel t) (meta_outs (rn_st rn) t)) = Some rk
                     /\ (rk_def rk <> t_defkey t \/ rk_outs rk <> meta_outs (rn_st rn) t \/ source_key r (rn_st rn) t = None
                         \/ exists k, source_key r (rn_st rn) t = Some k /\ k <> snd rk))))
  (* (c) cut-off across an edit: r1 built successfully, tree edited to r2 (anything may change: files,
     other targets, the order), r2 built.  A rule without output_dirs that is in both with the same definition and
     whose source key at its turn in the second build equals its source key after the first build is NOT executed
     (side conditions on output_dirs targets of the two trees as in (a)) *)
  /\ (forall r1 r2 st0 t pre post,
        wf_repo r1 = true -> wf_repo r2 = true -> run_ok (build_all false r1 st0) = true ->
        stale_in false r1 (r_targets r1) (mkRun st0 [] []) = false -> dyn_ok r1 st0 = true ->
        In t (r_targets r1) -> r_targets r2 = pre ++ t :: post -> is_filegroup t = false -> could_modify t = false ->
        let st1 := rn_st (build_all false r1 st0) in
        let before := fold_left (build_one false r2) pre (mkRun st1 [] []) in
        stale_in false r2 pre (mkRun st1 [] []) = false ->
        source_key r2 (rn_st before) t = source_key r1 st1 t ->
        ~ In (t_label t) (rn_log (build_all false r2 st1)))
  (* (d) the source key only sees path-hash streams: a dependency rebuilt to outputs with the same streams
     (in particular byte-identical outputs) leaves the key, hence by (c) the dependent, alone.  Of the TOOLS of a
     target (tools = [...]) the key sees the streams of their outputs and nothing else - not the tool's own inputs,
     not even the paths of its outputs: a tool rebuilt to byte-identical outputs does not trigger its users *)
  /\ (forall r1 r2 st1 st2 t, iter_sources r2 t = iter_sources r1 t ->
        (forall p, In p (iter_sources r1 t) -> option_map stream (read r2 st2 p) = option_map stream (read r1 st1 p)) ->
        map (fun p => option_map stream (read r2 st2 p)) (tool_paths r2 t)
        = map (fun p => option_map stream (read r1 st1 p)) (tool_paths r1 t) ->
        source_key r2 st2 t = source_key r1 st1 t).

Theorem C03_full : C03_statement.
Proof.
  split; [|split; [|split]].
  - intros r req st Hwf Hok Hq Hd. unfold plz_build, plz_stale in *. apply noop_build_all; assumption.
  - intros r rn t H. destruct (executed_needs_build r rn t H) as [Hn|Hs].
    + left. split; [exact Hn|]. apply needs_build_reasons. exact Hn.
    + right. apply stale_flow_reasons. exact Hs.
  - exact cutoff_two_builds.
  - exact source_key_streams.
Qed.
Print Assumptions C03_full.

(* Non-vacuity: b = cat(a.out, b.txt), a = cat(a.txt).  After a build, editing a.txt to the same bytes under
   another definition of a (a comment-like change of its rule key) re-runs a, whose output is byte-identical:
   b is cut off.  The second build of the unchanged tree runs nothing. *)
Definition nv_a (key : str) : target := mkT (s "//p:a") (s "p") (Genrule Concat) [SFile (s "a.txt")] [s "a.out"] key.
Definition nv_b : target := mkT (s "//p:b") (s "p") (Genrule Concat) [SLabel (s "//p:a"); SFile (s "b.txt")] [s "b.out"] (s "kb").
Definition nv_r1 : repo := mkR [(s "p/a.txt", s "1"); (s "p/b.txt", s "2")] [nv_a (s "ka"); nv_b].
Definition nv_r2 : repo := mkR [(s "p/a.txt", s "1"); (s "p/b.txt", s "2")] [nv_a (s "ka2"); nv_b].
Example C03_nonvacuous :
  wf_repo nv_r1 = true /\ wf_repo nv_r2 = true
  /\ rn_log (build_all false nv_r1 empty_store) = [s "//p:b"; s "//p:a"]
  /\ run_ok (build_all false nv_r1 empty_store) = true
  /\ rn_log (build_all false nv_r1 (rn_st (build_all false nv_r1 empty_store))) = []
  /\ rn_log (build_all false nv_r2 (rn_st (build_all false nv_r1 empty_store))) = [s "//p:a"].
Proof. vm_compute. repeat split. Qed.

(* Non-vacuity with output_dirs: o copies a.txt and b.txt into its output directory _o (declared out o.marker).
   The repository is well formed, the build from an empty plz-out discovers a.txt and b.txt, no target goes
   through stale_flow, the metadata condition holds, and the second build does nothing. *)
Definition nv_o (srcs : list str) (out key : str) : target := mkT (s "//p:o") (s "p") (Genrule OutDir) (map SFile srcs) [out] key.
Definition nv_ro : repo := mkR [(s "p/a.txt", s "1"); (s "p/b.txt", s "2")] [nv_o [s "a.txt"; s "b.txt"] (s "o.marker") (s "ko")].
Example C03_nonvacuous_output_dirs :
  wf_repo nv_ro = true
  /\ run_ok (build_all false nv_ro empty_store) = true
  /\ stale_in false nv_ro (r_targets nv_ro) (mkRun empty_store [] []) = false
  /\ dyn_ok nv_ro empty_store = true
  /\ s_dyn (rn_st (build_all false nv_ro empty_store)) (s "//p:o") = [s "a.txt"; s "b.txt"]
  /\ rn_log (build_all false nv_ro (rn_st (build_all false nv_ro empty_store))) = [].
Proof. vm_compute. repeat split. Qed.

(* The side condition plz_stale is needed: the declared out renamed (m1 -> m2, one more source), built, and
   renamed back.  The third build passes the pre-build check on the stale m1, attaches the outputs of the
   metadata written by the second build, fails the post-build check and the rebuild fails (b.txt is demanded);
   the fourth build of the same tree succeeds (finding output-dirs-target-fails-to-rebuild-after-declared-out-
   renamed-back of C01, reproduced on the real plz by the C01 harness). *)
Definition st_A : repo := mkR [(s "p/a.txt", s "1"); (s "p/b.txt", s "2")] [nv_o [s "a.txt"] (s "m1") (s "kA")].
Definition st_B : repo := mkR [(s "p/a.txt", s "1"); (s "p/b.txt", s "2")] [nv_o [s "a.txt"; s "b.txt"] (s "m2") (s "kB")].
Definition st_2 : store := rn_st (build_all false st_B (rn_st (build_all false st_A empty_store))).
Example C03_stale_flow_witness :
  wf_repo st_A = true /\ wf_repo st_B = true
  /\ stale_in false st_A (r_targets st_A) (mkRun st_2 [] []) = true
  /\ run_ok (build_all false st_A st_2) = false
  /\ run_ok (build_all false st_A (rn_st (build_all false st_A st_2))) = true
  /\ run_ok (build_all false st_A empty_store) = true.
Proof. vm_compute. repeat split. Qed.

(* Non-vacuity with tools: u = cat $TOOLS $SRCS with tools = [g], g = a constant that ignores its source g.txt.  Editing
   g.txt re-runs g, whose output is byte-identical: u is cut off.  Changing g's command (another constant) re-runs
   both.  The second build of an unchanged tree runs nothing. *)
Definition nv_g (c key : str) : target := mkT (s "//p:g") (s "p") (Genrule (Const c)) [SFile (s "g.txt")] [s "g.out"] key.
Definition nv_u : target := mkT (s "//p:u") (s "p") (Genrule UseTool) [SFile (s "u.txt"); STool (s "//p:g")] [s "u.out"] (s "ku").
Definition nv_t1 : repo := mkR [(s "p/g.txt", s "1"); (s "p/u.txt", s "2")] [nv_g (s "T") (s "kg"); nv_u].
Definition nv_t2 : repo := mkR [(s "p/g.txt", s "changed"); (s "p/u.txt", s "2")] [nv_g (s "T") (s "kg"); nv_u].
Definition nv_t3 : repo := mkR [(s "p/g.txt", s "changed"); (s "p/u.txt", s "2")] [nv_g (s "T2") (s "kg2"); nv_u].
Example C03_nonvacuous_tools :
  wf_repo nv_t1 = true /\ wf_repo nv_t2 = true /\ wf_repo nv_t3 = true
  /\ rn_log (build_all false nv_t1 empty_store) = [s "//p:u"; s "//p:g"]
  /\ outs_of (rn_st (build_all false nv_t1 empty_store)) nv_u = [(s "u.out", Some (File false (s "T" ++ nl ++ s "2")))]
  /\ rn_log (build_all false nv_t1 (rn_st (build_all false nv_t1 empty_store))) = []
  /\ rn_log (build_all false nv_t2 (rn_st (build_all false nv_t1 empty_store))) = [s "//p:g"]
  /\ rn_log (build_all false nv_t3 (rn_st (build_all false nv_t1 empty_store))) = [s "//p:u"; s "//p:g"].
Proof. vm_compute. repeat split. Qed.

(* Cut-off through a tool, (c) and (d) combined: r1 built, the tree edited to r2 (e.g. a source of the tool g), r2
   built.  If, when the turn of the user t comes, its own sources have the streams they had and the outputs of its
   tools have the streams they had (the tool was rebuilt to byte-identical outputs - or to other paths with the same
   bytes), the command of t does not run. *)
Theorem C03_tool_cutoff :
  forall r1 r2 st0 t pre post,
    wf_repo r1 = true -> wf_repo r2 = true -> run_ok (build_all false r1 st0) = true ->
    stale_in false r1 (r_targets r1) (mkRun st0 [] []) = false -> dyn_ok r1 st0 = true ->
    In t (r_targets r1) -> r_targets r2 = pre ++ t :: post -> is_filegroup t = false -> could_modify t = false ->
    let st1 := rn_st (build_all false r1 st0) in
    let before := fold_left (build_one false r2) pre (mkRun st1 [] []) in
    stale_in false r2 pre (mkRun st1 [] []) = false ->
    iter_sources r2 t = iter_sources r1 t ->
    (forall p, In p (iter_sources r1 t) -> option_map stream (read r2 (rn_st before) p) = option_map stream (read r1 st1 p)) ->
    map (fun p => option_map stream (read r2 (rn_st before) p)) (tool_paths r2 t)
    = map (fun p => option_map stream (read r1 st1 p)) (tool_paths r1 t) ->
    ~ In (t_label t) (rn_log (build_all false r2 st1)).
Proof.
  intros r1 r2 st0 t pre post H1 H2 H3 H4 H5 H6 H7 H8 H9 st1 before H10 Hi Hs Ht.
  apply (cutoff_two_builds r1 r2 st0 t pre post); try assumption.
  apply source_key_streams; assumption.
Qed.
Print Assumptions C03_tool_cutoff.

(* Filegroups, sources that are files or whole DIRECTORIES: where the source exists, the build of the filegroup leaves
   EXACTLY the source tree (the old output is removed, never merged with the new one) or keeps the untouched old output
   whose path hash equals that of the source - for every repository, store and filegroup with distinct sources. *)
Theorem C03_filegroup_replaces :
  forall r t rn f n, NoDup (outputs t) -> In f (outputs t) -> fg_src r (join (t_pkg t) f) = Some n ->
    let rel := join (t_pkg t) f in
    let rn' := build_filegroup r t rn in
    s_outs (rn_st rn') rel = Some (mkE n None)
    \/ (s_outs (rn_st rn') rel = s_outs (rn_st rn) rel
        /\ exists e, s_outs (rn_st rn) rel = Some e /\ stream (e_node e) = stream n).
Proof. intros r t rn f n. rewrite build_filegroup_steps. apply filegroup_output_exact_or_kept. Qed.
Print Assumptions C03_filegroup_replaces.

(* Non-vacuity with a filegroup of a directory: f links the source directory p/dd (x.txt, y.txt, sub/z.txt), l lists it.
   y.txt is deleted and x.txt replaced by w.txt with other content: the filegroup output is exactly the new tree (no
   y.txt, no x.txt left behind), l runs again, a further build runs nothing. *)
Definition nv_fd : target := mkT (s "//p:f") (s "p") Filegroup [SFile (s "dd")] [] (s "kf").
Definition nv_ld : target := mkT (s "//p:l") (s "p") (Genrule ListNames) [SLabel (s "//p:f")] [s "l.names"] (s "kl").
Definition nv_d1 : repo := mkR [(s "p/dd/x.txt", s "X"); (s "p/dd/y.txt", s "Y"); (s "p/dd/sub/z.txt", s "Z")] [nv_fd; nv_ld].
Definition nv_d2 : repo := mkR [(s "p/dd/w.txt", s "W"); (s "p/dd/sub/z.txt", s "Z")] [nv_fd; nv_ld].
Example C03_nonvacuous_filegroup_dir :
  wf_repo nv_d1 = true /\ wf_repo nv_d2 = true
  /\ outs_of (rn_st (build_all false nv_d1 empty_store)) nv_fd
     = [(s "dd", Some (Dir [(s "sub", Dir [(s "z.txt", File false (s "Z"))]); (s "x.txt", File false (s "X")); (s "y.txt", File false (s "Y"))]))]
  /\ outs_of (rn_st (build_all false nv_d2 (rn_st (build_all false nv_d1 empty_store)))) nv_fd
     = [(s "dd", Some (Dir [(s "sub", Dir [(s "z.txt", File false (s "Z"))]); (s "w.txt", File false (s "W"))]))]
  /\ rn_log (build_all false nv_d2 (rn_st (build_all false nv_d1 empty_store))) = [s "//p:l"]
  /\ rn_log (build_all false nv_d2 (rn_st (build_all false nv_d2 (rn_st (build_all false nv_d1 empty_store))))) = [].
Proof. vm_compute. repeat split. Qed.

(* ------------------------------------------------------------------------------------------ *)
(* Follow-up of the seeded changes C03/r2-m1..m3 (Model/C03Ext.v, Proof/C03Ext.v): three statements about pieces of the
   source regenerated by gotrans (Gen/C03Incr.v).  Each is proved for ALL histories / schedules / iteration orders. *)
From Coq Require Import Permutation.
From PlzV Require Gen.C03Incr Model.C03Ext Proof.C03Ext.

(* A filegroup of a plain source file (its output is a hard link to the user's file), a consumer of the filegroup, any
   history of edits in place (same inode), replacements (new inode), rm -rf plz-out and builds in fresh processes: at every
   build the consumer's source hash is taken over the CURRENT content, and its command runs exactly when that content is
   not the one of the previous build (or plz-out was deleted since) - no run on an unchanged tree, a run after every change.
   same_copy is read off filegroupBuilder.Build: the "same file, nothing to do" way out tells the hasher not to trust the
   xattr of the shared inode. *)
Theorem C03_link_exact :
  forall c0 evs, C03Ext.lrun C03Ext.same_copy (C03Ext.linit c0) evs = C03Ext.spec_runs c0 None evs.
Proof. exact C03Ext.link_runs_exact. Qed.
Print Assumptions C03_link_exact.

(* non-vacuity / the mark is needed: build, build again in a new process, edit in place, build - without the mark the last
   build does not run the consumer (the demo of seeded/C03/r2-m1) *)
Example C03_link_nonvacuous :
  let evs := [C03Ext.Build; C03Ext.Build; C03Ext.EditInPlace (s "two"); C03Ext.Build; C03Ext.Replace (s "three"); C03Ext.Build; C03Ext.Build] in
  map snd (C03Ext.lrun C03Ext.same_copy (C03Ext.linit (s "one")) evs) = [true; false; true; true; false]
  /\ map snd (C03Ext.lrun false (C03Ext.linit (s "one")) evs) = [true; false; false; true; false].
Proof. vm_compute. split; reflexivity. Qed.

(* Any number of concurrent `plz build` of the same target, each running the program read off buildTarget (lock,
   needsBuilding, build, deferred unlock), under EVERY schedule: the command runs at most once, not at all when the target
   was up to date, and exactly once by the time any process is done with an out-of-date target. *)
Theorem C03_concurrent_once :
  forall b0 sched,
    let st := C03Ext.crun (C03Ext.cinit C03Incr.build_target_program b0) sched in
    C03Ext.c_count st <= 1
    /\ (b0 = true -> C03Ext.c_count st = 0)
    /\ (forall i, C03Ext.p_rest (C03Ext.c_procs st i) = [] ->
          C03Ext.c_built st = true /\ C03Ext.c_count st = if b0 then 0 else 1).
Proof. exact C03Ext.conc_runs_once. Qed.
Print Assumptions C03_concurrent_once.

(* non-vacuity: three processes under the fair schedule all finish, the command ran once; with needsBuilding asked
   before the lock (and not again) two processes run it twice (the demo of seeded/C03/r2-m2) *)
Example C03_concurrent_nonvacuous :
  (forall i, i < 3 -> C03Ext.p_rest (C03Ext.c_procs (C03Ext.crun (C03Ext.cinit C03Incr.build_target_program false) (C03Ext.round_robin 3)) i) = [])
  /\ C03Ext.c_count (C03Ext.crun (C03Ext.cinit C03Incr.build_target_program false) (C03Ext.round_robin 3)) = 1
  /\ C03Ext.c_count (C03Ext.crun (C03Ext.cinit [C03Incr.PCheck; C03Incr.PLock; C03Incr.PBuild; C03Incr.PUnlock] false) [0; 1; 0; 0; 0; 1; 1; 1]) = 2.
Proof. split; [exact C03Ext.round_robin_finishes_3|split; reflexivity]. Qed.

(* The named outputs of a target (outs = {name: [...]}) enter the rule hash in the order the loop of ruleHash visits
   them; whatever order the Go map is iterated in (m' any permutation of the map m), the same bytes are written: the rule
   hash is a function of the definition, and a no-op build in another process computes the recorded one. *)
Theorem C03_named_outs_order :
  forall m m', NoDup (map fst m) -> Permutation m m' ->
    C03Ext.named_stream C03Incr.named_outs_iteration m' = C03Ext.named_stream C03Incr.named_outs_iteration m.
Proof. exact C03Ext.named_order_independent. Qed.
Print Assumptions C03_named_outs_order.

(* non-vacuity: two groups, the two orders; ranging over the map itself would write other bytes (seeded/C03/r2-m3) *)
Example C03_named_outs_nonvacuous :
  let m := [(s "hdrs", [s "m.h"]); (s "srcs", [s "m.c"])] in
  NoDup (map fst m) /\ Permutation m (rev m)
  /\ C03Ext.named_stream C03Incr.ItMapRange (rev m) <> C03Ext.named_stream C03Incr.ItMapRange m
  /\ C03Ext.named_stream C03Incr.ItSortedNames (rev m) = C03Ext.named_stream C03Incr.ItSortedNames m.
Proof. exact C03Ext.named_map_range_depends_on_order. Qed.
