(* C12 - Directory cache: faithful, atomic store and retrieve.
   This file holds only the statement, the property theorems and their non-vacuity examples.

   "For any set of output files, directories and relative symlinks, retrieving a key after storing
    it restores byte-identical trees, and retrieving a key that was never stored is a miss.  If the
    process dies at any point during a store, a later retrieve of that key either misses or
    restores the complete tree, never a partial one."

   Quantified over: compressed / uncompressed cache (c); the readdir order os.RemoveAll meets
   (order); EVERY prior state of the target's cache directory (st: no entry, an older entry of the
   same key, left-overs of earlier crashed stores, anything); every non-empty duplicate-free list
   of outputs that exist (outs) of every well-formed output tree (src: files with content and
   exec bit, directories, symlinks with arbitrary targets); every crash point n of the store's
   step list; every pair i <= j of observation points of a concurrent retrieve.
   "The complete tree" is the tree being stored or the one Retrieve returned before the store
   began (an overwriting store may die before it has changed anything). *)
From PlzV Require Import Base.Harness Model.C12 Proof.C12 Proof.C12_Fault Proof.C12_Dirty Proof.C12_Gen Gen.C12Store.

Definition C12_statement : Prop :=
  forall c order st outs src, inputs_ok c st outs src ->
    let steps := store_steps c order st outs src in
    let new := Hit (pack src outs) in
    (* store, then retrieve: the byte-identical trees of the outputs *)
    retrieve c (run steps st) outs = new
    (* a key without an entry is a miss *)
    /\ (key_absent st = true -> retrieve c st outs = Miss)
    (* the process dies after any n steps of the store *)
    /\ (forall n, let r := retrieve c (run (firstn n steps) st) outs in
          r = Miss \/ r = new \/ r = retrieve c st outs)
    (* a retrieve that runs while the store runs: existence check after i steps, reads after j *)
    /\ (forall i j, i <= j ->
          let r := retrieve2 c (run (firstn i steps) st) (run (firstn j steps) st) outs in
          r = Miss \/ r = new \/ r = retrieve c st outs).

(* The unchanged code violates the crash clause: a store over an existing entry whose output is a
   directory, killed inside Store's RemoveAll, leaves a partly deleted directory that Retrieve
   restores as a hit (reproduced on the real code by the harness, class
   crash-overwrite-dir-partial-hit; Proof.C12.w_race_compressed / w_race_plain are the model
   witnesses of the two schedule-dependent classes). *)
Theorem C12_refuted : ~ C12_statement.
Proof. exact full_refuted_plain. Qed.
Print Assumptions C12_refuted.

(* What holds, for ALL inputs: round trip and miss unconditionally; crash atomicity whenever the
   executable classifier `crash_defect` reports no known defect class (the key has no entry, or -
   uncompressed - every output of the old entry is a single file, symlink or empty directory, or -
   compressed - the old entry is the single tarball); atomicity against a concurrent retrieve
   whenever `race_defect` reports none (the key has no entry). *)
Theorem C12_partial :
  forall c order st outs src, inputs_ok c st outs src ->
    let steps := store_steps c order st outs src in
    let new := Hit (pack src outs) in
    retrieve c (run steps st) outs = new
    /\ (key_absent st = true -> retrieve c st outs = Miss)
    /\ (crash_defect c st outs = None -> forall n, let r := retrieve c (run (firstn n steps) st) outs in
          r = Miss \/ r = new \/ r = retrieve c st outs)
    /\ (race_defect c st = None -> forall i j, i <= j ->
          let r := retrieve2 c (run (firstn i steps) st) (run (firstn j steps) st) outs in
          r = Miss \/ r = new \/ r = retrieve c st outs).
Proof. exact partial_holds. Qed.
Print Assumptions C12_partial.

(* The step list the theorems speak about follows the statement order of dirCache.Store as gotrans
   reads it from the current source (remove the final entry, build into the temporary entry, rename
   temporary -> final; temporary name = final name + tmp_suffix), and the model's hit on a vanished
   tarball is the source's treatment of a not-exist error. *)
Theorem C12_source_shape :
  (forall c order st outs src, store_steps c order st outs src = interp c order outs src store_phases st)
  /\ (forall st1 st2 o outs, lookup [kK] st1 <> None -> lookup [kK] st2 = None ->
        retrieve2 true st1 st2 (o :: outs)
        = if (compressed_found_with_error && notexist_error_keeps_found)%bool then Hit [] else Miss).
Proof. exact (conj store_follows_source compressed_notexist_follows_source). Qed.
Print Assumptions C12_source_shape.

(* Non-vacuity of C12_refuted: the witness satisfies the hypotheses, its prior state is what the
   model's Store itself produced, and the crash state is a genuine partial tree. *)
Example C12_refuted_nonvacuous :
  inputs_ok false (w_prior false) w_outs w_src
  /\ retrieve false (w_prior false) w_outs = Hit w_src
  /\ crash_defect false (w_prior false) w_outs = Some (s "crash-overwrite-dir-partial-hit")
  /\ retrieve false (run (firstn 1 (store_steps false [] (w_prior false) w_outs w_src)) (w_prior false)) w_outs
     = Hit [([s "d"], D); ([s "d"; s "a"], F (s "1") false)].
Proof. split; [exact (w_inputs_ok false)|]. vm_compute. repeat split. Qed.

(* Non-vacuity of C12_partial: a tree with a file, an executable, a symlink, a nested and an empty
   directory; (1) stored into a cache that holds left-overs of a crashed store, no defect class;
   (2) stored over an old entry of single-object outputs, no crash defect class, and a crash
   point inside the removal of the old entry is a miss. *)
Example C12_partial_nonvacuous :
  let src := [([s "bin"], F (s "#!") true); ([s "d"], D); ([s "d"; s "e"], D); ([s "d"; s "e"; s "f"], F (s "x") false);
              ([s "d"; s "l"], L (s "e/f")); ([s "m"], F (s "meta") false); ([s "z"], D)] in
  let outs := [s "m"; s "d"; s "bin"; s "z"] in
  let left := [([kT], E D); ([kT; s "d"], E D); ([kT; s "d"; s "old"], E (F (s "o") false)); ([s "other"], E D)] in
  let old := [([kK], E D); ([kK; s "m"], E (F (s "m0") false)); ([kK; s "d"], E D); ([kK; s "bin"], E (L (s "m"))); ([kK; s "z"], E D)] in
  (forall c, inputs_ok c left outs src /\ crash_defect c left outs = None /\ race_defect c left = None)
  /\ inputs_ok false old outs src /\ crash_defect false old outs = None
  /\ retrieve false old outs <> Miss
  /\ retrieve false (run (firstn 2 (store_steps false [] old outs src)) old) outs = Miss
  /\ retrieve false (run (store_steps false [] left outs src) left) outs = Hit (pack src outs)
  /\ retrieve true (run (store_steps true [] left outs src) left) outs = Hit (pack src outs)
  /\ length (pack src outs) = 7.
Proof.
  cbn zeta. split; [intros c; split; [|split]|split; [|split; [|split; [|split; [|split; [|split]]]]]].
  - unfold inputs_ok. repeat split; try (vm_compute; reflexivity); try discriminate.
    repeat constructor; cbn; intuition discriminate.
  - destruct c; vm_compute; reflexivity.
  - destruct c; vm_compute; reflexivity.
  - unfold inputs_ok. repeat split; try (vm_compute; reflexivity); try discriminate.
    repeat constructor; cbn; intuition discriminate.
  - vm_compute; reflexivity.
  - vm_compute; discriminate.
  - vm_compute; reflexivity.
  - vm_compute; reflexivity.
  - vm_compute; reflexivity.
  - vm_compute; reflexivity.
Qed.

(* ------------------------------------------------------------------------------------------ *)
(* Read faults: the store does not die, one of its reads RETURNS AN ERROR part-way through the walk
   of output o, after k of its entries (an entry that cannot be archived / copied: a unix socket, a
   vanished or unreadable file, ENOSPC ...).  The property's atomicity clause read for this kind of
   incomplete store: a later retrieve of the key misses or restores the complete tree. *)
Definition C12_fault_statement : Prop :=
  forall c order st outs src o k, inputs_ok c st outs src -> In o outs ->
    let r := retrieve c (run (store_steps_f c order st outs src (Some (o, k))) st) outs in
    r = Miss \/ r = Hit (pack src outs).

(* The unchanged code violates it for the uncompressed cache: storeFile only logs the error of
   RecursiveLink and Store renames the temporary entry into place all the same, so a directory output
   is published without the entries the walk had not reached (reproduced on the real dirCache by the
   harness with the cache on another file system and a socket in the output directory, class
   plain-store-walk-error-partial-hit). *)
Theorem C12_fault_refuted : ~ C12_fault_statement.
Proof. exact fault_refuted. Qed.
Print Assumptions C12_fault_refuted.

(* What holds, for ALL trees, output lists, prior cache states and fault positions: the clause,
   whenever `fault_defect` reports no defect class - i.e. ALWAYS for the compressed cache, and for the
   uncompressed one when the walk failed at the root of the output (nothing of it stored: miss) or
   behind its last storable entry (everything stored: the complete tree). *)
Theorem C12_fault_partial :
  forall c order st outs src o k, inputs_ok c st outs src -> In o outs ->
    fault_defect c src (Some (o, k)) = None ->
    let r := retrieve c (run (store_steps_f c order st outs src (Some (o, k))) st) outs in
    r = Miss \/ r = Hit (pack src outs).
Proof. exact fault_partial_holds. Qed.
Print Assumptions C12_fault_partial.

(* The compressed cache at full strength - no hypothesis on the tree, the outputs (they may be
   missing), the prior state or the retrieved list: if the archive loop ended in an error then
   (1) the completed Store leaves a miss, (2) if the process ALSO dies after any n steps of that
   store, a retrieve misses or returns exactly what it returned before the store (under the crash
   classifier), and (3) this rests on the removal of the temporary tarball in the error branch:
   the same store without it publishes the truncated archive (what seeded mutation m3 does). *)
Theorem C12_fault_compressed :
  forall order st outs src f outs', snd (pack_f src f outs) = true ->
    retrieve true (run (store_steps_f true order st outs src f) st) outs' = Miss
    /\ (crash_defect true st outs' = None -> forall n,
          let r := retrieve true (run (firstn n (store_steps_f true order st outs src f)) st) outs' in
          r = Miss \/ r = retrieve true st outs')
    /\ (forall o, retrieve true (run (store_comp_g false order st outs src f) st) (o :: outs')
                  = Hit (unpack (fst (pack_f src f outs)))).
Proof. exact fault_compressed_holds. Qed.
Print Assumptions C12_fault_compressed.

(* The uncompressed cache, exactly: a faulted store is, step for step, the complete store of the
   source tree truncated at the fault (so Retrieve afterwards hits with precisely that prefix), for
   every walk-ordered tree; and with no fault the faulted step lists are the ones C12_partial is
   about. *)
Theorem C12_fault_plain_exact :
  (forall order st outs src o k, wfb (pack src outs) = true -> In o outs ->
      store_steps_f false order st outs src (Some (o, k)) = store_steps false order st outs (cut o k src))
  /\ (forall c order st outs src, all_present src outs = true ->
      store_steps_f c order st outs src None = store_steps c order st outs src).
Proof. exact fault_plain_exact_holds. Qed.
Print Assumptions C12_fault_plain_exact.

(* The error branches the fault model follows are the ones gotrans reads from the source. *)
Theorem C12_fault_source_shape :
  (forall order st outs src f,
      store_steps_f true order st outs src f = store_comp_g (removes_tmp compressed_error_branch) order st outs src f)
  /\ returns plain_link_error_branch = false /\ removes_tmp plain_link_error_branch = false.
Proof. exact (conj comp_fault_follows_source plain_fault_follows_source). Qed.
Print Assumptions C12_fault_source_shape.

(* Non-vacuity: a tree with a nested directory and a symlink, stored over a prior entry; the fault
   sits in the middle of d's walk.  Compressed: the archive loop does end in an error, the prefix it
   had written is non-empty, the result is a miss, and without the removal it would be a hit with
   that prefix.  Uncompressed: the classifier reports the defect class and the result is the partial
   hit; a fault at the root is a miss, one behind the last entry the complete tree. *)
Example C12_fault_nonvacuous :
  let src := [([s "d"], D); ([s "d"; s "a"], F (s "1") false); ([s "d"; s "e"], D); ([s "d"; s "e"; s "c"], F (s "3") true);
              ([s "d"; s "l"], L (s "a")); ([s "m"], F (s "meta") false)] in
  let outs := [s "m"; s "d"] in
  let old := [([kK], E D); ([kK; s "m"], E (F (s "m0") false)); ([kK; s "d"], E D)] in
  let oldc := [([kK], Tar [([s "m"], F (s "m0") false)])] in
  (forall c, inputs_ok c (if c then oldc else old) outs src)
  /\ pack_f src (Some (s "d", 3)) outs = ([([s "m"], F (s "meta") false); ([s "d"], D); ([s "d"; s "a"], F (s "1") false); ([s "d"; s "e"], D)], true)
  /\ retrieve true oldc outs <> Miss
  /\ retrieve true (run (store_steps_f true [] oldc outs src (Some (s "d", 3))) oldc) outs = Miss
  /\ retrieve true (run (store_comp_g false [] oldc outs src (Some (s "d", 3))) oldc) outs
     = Hit [([s "m"], F (s "meta") false); ([s "d"], D); ([s "d"; s "a"], F (s "1") false); ([s "d"; s "e"], D)]
  /\ fault_defect true src (Some (s "d", 3)) = None
  /\ fault_defect false src (Some (s "d", 3)) = Some (s "plain-store-walk-error-partial-hit")
  /\ retrieve false (run (store_steps_f false [] old outs src (Some (s "d", 3))) old) outs
     = Hit [([s "m"], F (s "meta") false); ([s "d"], D); ([s "d"; s "a"], F (s "1") false); ([s "d"; s "e"], D)]
  /\ fault_defect false src (Some (s "d", 0)) = None
  /\ retrieve false (run (store_steps_f false [] old outs src (Some (s "d", 0))) old) outs = Miss
  /\ fault_defect false src (Some (s "d", 5)) = None
  /\ retrieve false (run (store_steps_f false [] old outs src (Some (s "d", 5))) old) outs = Hit (pack src outs).
Proof.
  cbn zeta. split; [intros c|].
  - unfold inputs_ok. repeat split; try (vm_compute; reflexivity); try discriminate.
    + repeat constructor; cbn; intuition discriminate.
    + destruct c; [discriminate|reflexivity].
  - repeat split; try (vm_compute; reflexivity). vm_compute. discriminate.
Qed.

(* ------------------------------------------------------------------------------------------ *)
(* Retrieve into an out directory that is NOT clean; outputs declared inside sub-directories.
   "Retrieving a key after storing it restores byte-identical trees" - whatever an earlier build left
   in the out directory.  Outputs are paths below the out directory ([sub; tree] = "sub/tree"),
   pairwise incomparable (indepb); T holds, below each output, its stored tree with the root first and
   in walk order (trees_okb); the cache entry of the key holds exactly those trees (entry_holds: the
   tarball of their walks / one sub-tree per output); out0 is ANY state of the out directory.  The
   retrieve is the model's retrieve_into run with the ensureRetrieveReady and the open flags gotrans
   reads from the current source (gen_opsN / gen_opsT / compressed_write_truncates).  Then: a hit;
   below every output exactly the stored tree; what is neither below nor above an output untouched. *)
Theorem C12_dirty_retrieve :
  forall c st outs T out0,
    outs <> [] -> indepb outs = true -> trees_okb T outs = true -> entry_holds c st outs T ->
    exists r, retrieve_into c compressed_write_truncates gen_opsN gen_opsT st outs out0 = Some r
      /\ (forall p, In p outs -> sub p r = sub p T)
      /\ (forall q, Forall (fun p => incomp p q) outs -> sub q r = sub q out0).
Proof. exact dirty_holds_gen. Qed.
Print Assumptions C12_dirty_retrieve.

(* The same end to end for the outputs the step-list model of Store covers (single path components):
   Store into ANY prior cache state, then Retrieve into ANY out directory. *)
Theorem C12_dirty_roundtrip :
  forall c order st outs src out0, inputs_ok c st outs src -> trees_okb src (tops outs) = true ->
    exists r, retrieve_into c compressed_write_truncates gen_opsN gen_opsT
                (run (store_steps c order st outs src) st) (tops outs) out0 = Some r
      /\ (forall o, In o outs -> sub [o] r = sub [o] src)
      /\ (forall q, Forall (fun o => incomp [o] q) outs -> sub q r = sub q out0).
Proof. exact dirty_roundtrip_gen. Qed.
Print Assumptions C12_dirty_roundtrip.

(* The retrieve side of the model is the source's: ensureRetrieveReady (MkdirAll of the parent for a
   path with a '/', and always the RemoveAll of the destination), the open flags of the compressed
   write, and what the uncompressed loop reports for an entry that lacks an output. *)
Theorem C12_retrieve_source_shape :
  (gen_opsN = src_opsN /\ gen_opsT = src_opsT /\ compressed_write_truncates = src_trunc)
  /\ (forall st o r out, lookup [kK; o] st = None ->
        retr_plain st (o :: r) out
        = if (plain_found_with_error && notexist_error_keeps_found)%bool then Hit (drop_sub [o] out) else Miss)
  /\ (forall st p r out, lookup (kK :: p) st = None ->
        retr_into_plain gen_opsN gen_opsT st (p :: r) out
        = if (plain_found_with_error && notexist_error_keeps_found)%bool
          then Some (ready (pick p gen_opsN gen_opsT) p out) else None).
Proof. exact (conj ready_follows_source (conj plain_notexist_follows_source plain_into_notexist_follows_source)). Qed.
Print Assumptions C12_retrieve_source_shape.

(* Non-vacuity, and why the removal matters: two nested outputs (a file and a directory) retrieved
   over a stale directory that holds a longer, executable file and an extra entry.  The hypotheses of
   C12_dirty_retrieve hold and the result is exactly the stored trees; with ensureRetrieveReady
   returning before the removal for nested paths (seeded mutation r2-m2) the compressed retrieve keeps
   the stale tail and mode ("v1" over "longer v2" = "v1nger v2", executable) and both keep sub/t/stale. *)
Example C12_dirty_nonvacuous :
  (forall c, entry_holds c (w_entry c) w_douts w_T /\ trees_okb w_T w_douts = true /\ indepb w_douts = true
     /\ retrieve_into c false src_opsN src_opsT (w_entry c) w_douts w_stale
        = Some [([s "sub"], D); ([s "sub"; s "n"], F (s "v1") false); ([s "sub"; s "t"], D); ([s "sub"; s "t"; s "a"], F (s "A") false)])
  /\ retrieve_into true false [OMkdirParent] src_opsT (w_entry true) w_douts w_stale
     = Some [([s "sub"], D); ([s "sub"; s "t"], D); ([s "sub"; s "t"; s "stale"], F (s "S") false);
             ([s "sub"; s "n"], F (s "v1nger v2") true); ([s "sub"; s "t"; s "a"], F (s "A") false)]
  /\ retrieve_into false false [OMkdirParent] src_opsT (w_entry false) w_douts w_stale
     = Some [([s "sub"], D); ([s "sub"; s "t"], D); ([s "sub"; s "t"; s "stale"], F (s "S") false);
             ([s "sub"; s "n"], F (s "v1") false); ([s "sub"; s "t"; s "a"], F (s "A") false)].
Proof. exact (conj w_with_rm (conj w_no_rm_compressed w_no_rm_plain)). Qed.
