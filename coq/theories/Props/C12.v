(* C12 - Directory cache: faithful, atomic store and retrieve.
   This file holds only the statement, the property theorems and their non-vacuity examples.

   "For any set of output files, directories and relative symlinks, retrieving a key after storing
    it restores byte-identical trees, and retrieving a key that was never stored is a miss.  If the
    process dies at any point during a store, a later retrieve of that key either misses or
    restores the complete tree, never a partial one."

   Quantified over: compressed / uncompressed cache (c); the readdir order os.RemoveAll meets
   (order); EVERY prior state of the target's cache directory (st: no entry, an older entry of the
   same key, left-overs of earlier crashed stores, anything); every non-empty duplicate-free list
   of outputs that exist (outs) of every well-formed output tree (src: files with content and
   exec bit, directories, symlinks with arbitrary targets); every crash point n of the store's
   step list; every pair i <= j of observation points of a concurrent retrieve.
   "The complete tree" is the tree being stored or the one Retrieve returned before the store
   began (an overwriting store may die before it has changed anything). *)
From PlzV Require Import Base.Harness Model.C12 Proof.C12 Proof.C12_Gen Gen.C12Store.

Definition C12_statement : Prop :=
  forall c order st outs src, inputs_ok c st outs src ->
    let steps := store_steps c order st outs src in
    let new := Hit (pack src outs) in
    (* store, then retrieve: the byte-identical trees of the outputs *)
    retrieve c (run steps st) outs = new
    (* a key without an entry is a miss *)
    /\ (key_absent st = true -> retrieve c st outs = Miss)
    (* the process dies after any n steps of the store *)
    /\ (forall n, let r := retrieve c (run (firstn n steps) st) outs in
          r = Miss \/ r = new \/ r = retrieve c st outs)
    (* a retrieve that runs while the store runs: existence check after i steps, reads after j *)
    /\ (forall i j, i <= j ->
          let r := retrieve2 c (run (firstn i steps) st) (run (firstn j steps) st) outs in
          r = Miss \/ r = new \/ r = retrieve c st outs).

(* The unchanged code violates the crash clause: a store over an existing entry whose output is a
   directory, killed inside Store's RemoveAll, leaves a partly deleted directory that Retrieve
   restores as a hit (reproduced on the real code by the harness, class
   crash-overwrite-dir-partial-hit; Proof.C12.w_race_compressed / w_race_plain are the model
   witnesses of the two schedule-dependent classes). *)
Theorem C12_refuted : ~ C12_statement.
Proof. exact full_refuted_plain. Qed.
Print Assumptions C12_refuted.

(* What holds, for ALL inputs: round trip and miss unconditionally; crash atomicity whenever the
   executable classifier `crash_defect` reports no known defect class (the key has no entry, or -
   uncompressed - every output of the old entry is a single file, symlink or empty directory, or -
   compressed - the old entry is the single tarball); atomicity against a concurrent retrieve
   whenever `race_defect` reports none (the key has no entry). *)
Theorem C12_partial :
  forall c order st outs src, inputs_ok c st outs src ->
    let steps := store_steps c order st outs src in
    let new := Hit (pack src outs) in
    retrieve c (run steps st) outs = new
    /\ (key_absent st = true -> retrieve c st outs = Miss)
    /\ (crash_defect c st outs = None -> forall n, let r := retrieve c (run (firstn n steps) st) outs in
          r = Miss \/ r = new \/ r = retrieve c st outs)
    /\ (race_defect c st = None -> forall i j, i <= j ->
          let r := retrieve2 c (run (firstn i steps) st) (run (firstn j steps) st) outs in
          r = Miss \/ r = new \/ r = retrieve c st outs).
Proof. exact partial_holds. Qed.
Print Assumptions C12_partial.

(* The step list the theorems speak about follows the statement order of dirCache.Store as gotrans
   reads it from the current source (remove the final entry, build into the temporary entry, rename
   temporary -> final; temporary name = final name + tmp_suffix), and the model's hit on a vanished
   tarball is the source's treatment of a not-exist error. *)
Theorem C12_source_shape :
  (forall c order st outs src, store_steps c order st outs src = interp c order outs src store_phases st)
  /\ (forall st1 st2 o outs, lookup [kK] st1 <> None -> lookup [kK] st2 = None ->
        retrieve2 true st1 st2 (o :: outs)
        = if (compressed_found_with_error && notexist_error_keeps_found)%bool then Hit [] else Miss).
Proof. exact (conj store_follows_source compressed_notexist_follows_source). Qed.
Print Assumptions C12_source_shape.

(* Non-vacuity of C12_refuted: the witness satisfies the hypotheses, its prior state is what the
   model's Store itself produced, and the crash state is a genuine partial tree. *)
Example C12_refuted_nonvacuous :
  inputs_ok false (w_prior false) w_outs w_src
  /\ retrieve false (w_prior false) w_outs = Hit w_src
  /\ crash_defect false (w_prior false) w_outs = Some (s "crash-overwrite-dir-partial-hit")
  /\ retrieve false (run (firstn 1 (store_steps false [] (w_prior false) w_outs w_src)) (w_prior false)) w_outs
     = Hit [([s "d"], D); ([s "d"; s "a"], F (s "1") false)].
Proof. split; [exact (w_inputs_ok false)|]. vm_compute. repeat split. Qed.

(* Non-vacuity of C12_partial: a tree with a file, an executable, a symlink, a nested and an empty
   directory; (1) stored into a cache that holds left-overs of a crashed store, no defect class;
   (2) stored over an old entry of single-object outputs, no crash defect class, and a crash
   point inside the removal of the old entry is a miss. *)
Example C12_partial_nonvacuous :
  let src := [([s "bin"], F (s "#!") true); ([s "d"], D); ([s "d"; s "e"], D); ([s "d"; s "e"; s "f"], F (s "x") false);
              ([s "d"; s "l"], L (s "e/f")); ([s "m"], F (s "meta") false); ([s "z"], D)] in
  let outs := [s "m"; s "d"; s "bin"; s "z"] in
  let left := [([kT], E D); ([kT; s "d"], E D); ([kT; s "d"; s "old"], E (F (s "o") false)); ([s "other"], E D)] in
  let old := [([kK], E D); ([kK; s "m"], E (F (s "m0") false)); ([kK; s "d"], E D); ([kK; s "bin"], E (L (s "m"))); ([kK; s "z"], E D)] in
  (forall c, inputs_ok c left outs src /\ crash_defect c left outs = None /\ race_defect c left = None)
  /\ inputs_ok false old outs src /\ crash_defect false old outs = None
  /\ retrieve false old outs <> Miss
  /\ retrieve false (run (firstn 2 (store_steps false [] old outs src)) old) outs = Miss
  /\ retrieve false (run (store_steps false [] left outs src) left) outs = Hit (pack src outs)
  /\ retrieve true (run (store_steps true [] left outs src) left) outs = Hit (pack src outs)
  /\ length (pack src outs) = 7.
Proof.
  cbn zeta. split; [intros c; split; [|split]|split; [|split; [|split; [|split; [|split; [|split]]]]]].
  - unfold inputs_ok. repeat split; try (vm_compute; reflexivity); try discriminate.
    repeat constructor; cbn; intuition discriminate.
  - destruct c; vm_compute; reflexivity.
  - destruct c; vm_compute; reflexivity.
  - unfold inputs_ok. repeat split; try (vm_compute; reflexivity); try discriminate.
    repeat constructor; cbn; intuition discriminate.
  - vm_compute; reflexivity.
  - vm_compute; discriminate.
  - vm_compute; reflexivity.
  - vm_compute; reflexivity.
  - vm_compute; reflexivity.
  - vm_compute; reflexivity.
Qed.
