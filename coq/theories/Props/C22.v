(* C22 - `//dir/...` expands to exactly the packages under the directory.
   This file holds only the statement, the property theorem and its non-vacuity examples.
   Model: Model/C22.v (plz.FindAllBuildFiles + the godirwalk traversal + findOriginalTask's conversion of BUILD
   file names to package labels + query.isExcluded).  Specification: Proof/C22_Spec.v (by path components). *)
From PlzV Require Import Base.Harness Model.C22 Proof.C22_Spec Proof.C22 Proof.C22_Multi.

Definition C22_statement : Prop :=
 (
  (* for every configuration (BUILD file names, blacklist, experimental dirs; "." not blacklisted), every
     directory `root` given by its components ([] = the repository root) and every tree found there *)
  forall cfg root kids, cfg_ok cfg -> valid_path root -> wf (Dir kids) = true ->
    (* FindAllBuildFiles terminates normally and sends exactly the BUILD files of the non-excluded packages *)
    (exists out, find cfg (path_str root) [] (Dir kids) = Some out
                 /\ forall f, In f out <-> sent_spec cfg root (Dir kids) f)
    (* and the labels findOriginalTask adds for //root/... name exactly the directories under root (root
       included) that contain a BUILD file and are not separated from root by plz-out, a hidden directory, an
       experimental directory or a blacklisted directory - blacklist entries being matched against the last
       component, or as a list of WHOLE leading path components (excluded_dir / comps_prefix) *)
    /\ (exists pkgs, expand cfg (path_str root) (Dir kids) = Some pkgs
                     /\ forall d, In d pkgs <-> exists chain, d = pkg_name (root ++ chain)
                                                              /\ is_package cfg root (Dir kids) chain)
    (* `//...` (empty directory) is the repository root *)
    /\ expand cfg [] (Dir kids) = expand cfg (path_str []) (Dir kids)
    (* shell completion's isExcluded never hides a directory that the expansion lists *)
    /\ (is_excluded cfg (path_str root) = true -> excluded_dir cfg root = true)
    (* and the search that completion of `//dir/` runs on it (containsPackage: breadth-first, work queue, skipping
       isExcluded directories) terminates and says yes exactly when an entry named like a BUILD file is reachable
       through directories that are not isExcluded - so that it never hides a directory whose `...` expansion
       lists at least one package *)
    /\ (exists b, contains_package cfg (path_str root) (Dir kids) = Some b
                  /\ (b = true <-> cp_reach cfg root (Dir kids)))
    /\ ((exists chain, is_package cfg root (Dir kids) chain) ->
        contains_package cfg (path_str root) (Dir kids) = Some true)
 ) /\
  (* SEVERAL labels on one command line (findOriginalTaskSet): for every list of labels - `//root/...` labels with
     the trees found at their roots, in any number and order, nested or merely sharing name prefixes, mixed with
     other labels - the labels added are exactly the union of what each label stands for: nothing is lost because
     of an earlier label, nothing is added *)
  (forall cfg sts, cfg_ok cfg -> Forall starget_ok sts ->
     exists out, original_task_set cfg (map to_target sts) = Some out
                 /\ forall l, In l out <-> exists st, In st sts /\ lists cfg st l).

Theorem C22_full : C22_statement.
Proof.
  exact (conj (fun cfg root kids Hc Hv Hwf =>
           conj (find_exact cfg root kids Hc Hv Hwf)
          (conj (expand_exact cfg root kids Hc Hv Hwf)
          (conj (expand_empty_root cfg (Dir kids))
          (conj (is_excluded_sound cfg root Hc Hv)
          (conj (contains_package_exact cfg root kids Hv Hwf)
                (completion_covers_expansion cfg root kids Hc Hv Hwf))))))
          task_set_exact).
Qed.
Print Assumptions C22_full.

(* Non-vacuity 1: the repository of corpus/C22 (witness of the defect fixed by e0a6f77).  Blacklisting `out` and
   `third_party/x` hides out/a and third_party/x/y, not output/q, third_party/xy or third_partyish/z. *)
Definition ex_pkg (kids : list (str * node)) : node := Dir ((s "BUILD", File FReg) :: kids).
Definition ex_cfg := Config [s "BUILD"; s "BUILD.plz"] [s "out"; s "third_party/x"] [s "experimental"].
Definition ex_tree : list (str * node) :=
  [ (s "third_partyish", Dir [(s "z", ex_pkg [])]);
    (s "third_party", Dir [(s "x", Dir [(s "y", ex_pkg [])]); (s "xy", ex_pkg [])]);
    (s "plz-out", Dir [(s "gen", ex_pkg [])]);
    (s "output", Dir [(s "q", ex_pkg [])]);
    (s "out", Dir [(s "a", ex_pkg [])]);
    (s ".hidden", ex_pkg []);
    (s "experimental", ex_pkg []);
    (s "experimentally", ex_pkg []) ].

Example C22_nonvacuous :
  cfg_ok ex_cfg /\ valid_path [] /\ wf (Dir ex_tree) = true
  /\ expand ex_cfg (path_str []) (Dir ex_tree)
     = Some [s "experimentally"; s "output/q"; s "third_party/xy"; s "third_partyish/z"]
  /\ valid_path [s "third_party"]
  /\ expand ex_cfg (path_str [s "third_party"]) (Dir [(s "x", Dir [(s "y", ex_pkg [])]); (s "xy", ex_pkg [])])
     = Some [s "third_party/xy"].
Proof.
  split; [intros H; cbn in H; intuition discriminate|].
  split; [constructor|]. split; [reflexivity|]. split; [reflexivity|].
  split; [repeat constructor|reflexivity].
Qed.

(* Non-vacuity 2: the witness of the defect fixed by 3d74a58 - a plain FILE named like a blacklisted directory
   (or plz-out) no longer hides the packages that sort after it. *)
Example C22_nonvacuous_file_named_like_excluded_dir :
  let cfg := Config [s "BUILD"; s "BUILD.plz"] [s "third_party"] [] in
  let t := Dir [(s "pkg", Dir [(s "zeta", ex_pkg []); (s "third_party", File FReg); (s "plz-out", File FReg);
                               (s "alpha", ex_pkg []); (s "BUILD", File FReg)])] in
  cfg_ok cfg /\ wf t = true /\ expand cfg (path_str []) t = Some [s "pkg"; s "pkg/alpha"; s "pkg/zeta"].
Proof.
  split; [intros H; cbn in H; intuition discriminate|]. split; reflexivity.
Qed.

(* Non-vacuity 3: two `...` labels whose directories share a name prefix (out / output), in both orders, and nested
   labels: every label is expanded, whatever came before it. *)
Definition ex_out := [(s "a", ex_pkg [])].
Definition ex_output := [(s "BUILD", File FReg); (s "lib", ex_pkg [])].
Example C22_nonvacuous_several_labels :
  let cfg := Config [s "BUILD"] [] [] in
  let a := s "all" in
  Forall starget_ok [SDots [s "out"] ex_out; SDots [s "output"] ex_output; SDots [s "output"; s "lib"] []; SLabel (s "x") (s "y")]
  /\ original_task_set cfg (map to_target [SDots [s "out"] ex_out; SDots [s "output"] ex_output])
     = Some [(s "out/a", a); (s "output", a); (s "output/lib", a)]
  /\ original_task_set cfg (map to_target [SDots [s "output"] ex_output; SDots [s "out"] ex_out])
     = Some [(s "output", a); (s "output/lib", a); (s "out/a", a)]
  /\ original_task_set cfg (map to_target [SDots [s "output"] ex_output; SLabel (s "x") (s "y"); SDots [s "output"; s "lib"] [(s "BUILD", File FReg)]])
     = Some [(s "output", a); (s "output/lib", a); (s "x", s "y"); (s "output/lib", a)].
Proof.
  cbv zeta. split; [|repeat split; reflexivity].
  repeat constructor.
Qed.

(* Non-vacuity 4: completion of `//src/`: src/app has no BUILD file of its own, holds a blacklisted directory that
   sorts (and is dequeued) before the sub-directory with the package; the search goes on.  The blacklisted directory
   itself, and a directory holding nothing else, are not offered. *)
Example C22_nonvacuous_completion :
  let cfg := Config [s "BUILD"] [s "node_modules"] [] in
  let nm := (s "node_modules", Dir [(s "dep", ex_pkg [])]) in
  let app := [nm; (s "ui", ex_pkg [])] in
  cfg_ok cfg /\ valid_path [s "src"; s "app"] /\ wf (Dir app) = true
  /\ contains_package cfg (path_str [s "src"; s "app"]) (Dir app) = Some true
  /\ expand cfg (path_str [s "src"; s "app"]) (Dir app) = Some [s "src/app/ui"]
  /\ contains_package cfg (s "src/app/node_modules") (snd nm) = Some false
  /\ contains_package cfg (s "src/only") (Dir [nm; (s "README", File FReg)]) = Some false.
Proof.
  cbv zeta. split; [intros H; cbn in H; intuition discriminate|].
  split; [repeat constructor|]. repeat split; reflexivity.
Qed.
