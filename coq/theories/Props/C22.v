(* C22 - `//dir/...` expands to exactly the packages under the directory.
   This file holds only the statement, the property theorem and its non-vacuity examples.
   Model: Model/C22.v (plz.FindAllBuildFiles + the godirwalk traversal + findOriginalTask's conversion of BUILD
   file names to package labels + query.isExcluded).  Specification: Proof/C22_Spec.v (by path components). *)
From PlzV Require Import Base.Harness Model.C22 Proof.C22_Spec Proof.C22.

Definition C22_statement : Prop :=
  (* for every configuration (BUILD file names, blacklist, experimental dirs; "." not blacklisted), every
     directory `root` given by its components ([] = the repository root) and every tree found there *)
  forall cfg root kids, cfg_ok cfg -> valid_path root -> wf (Dir kids) = true ->
    (* FindAllBuildFiles terminates normally and sends exactly the BUILD files of the non-excluded packages *)
    (exists out, find cfg (path_str root) [] (Dir kids) = Some out
                 /\ forall f, In f out <-> sent_spec cfg root (Dir kids) f)
    (* and the labels findOriginalTask adds for //root/... name exactly the directories under root (root
       included) that contain a BUILD file and are not separated from root by plz-out, a hidden directory, an
       experimental directory or a blacklisted directory - blacklist entries being matched against the last
       component, or as a list of WHOLE leading path components (excluded_dir / comps_prefix) *)
    /\ (exists pkgs, expand cfg (path_str root) (Dir kids) = Some pkgs
                     /\ forall d, In d pkgs <-> exists chain, d = pkg_name (root ++ chain)
                                                              /\ is_package cfg root (Dir kids) chain)
    (* `//...` (empty directory) is the repository root *)
    /\ expand cfg [] (Dir kids) = expand cfg (path_str []) (Dir kids)
    (* shell completion's isExcluded never hides a directory that the expansion lists *)
    /\ (is_excluded cfg (path_str root) = true -> excluded_dir cfg root = true).

Theorem C22_full : C22_statement.
Proof.
  exact (fun cfg root kids Hc Hv Hwf =>
           conj (find_exact cfg root kids Hc Hv Hwf)
          (conj (expand_exact cfg root kids Hc Hv Hwf)
          (conj (expand_empty_root cfg (Dir kids))
                (is_excluded_sound cfg root Hc Hv)))).
Qed.
Print Assumptions C22_full.

(* Non-vacuity 1: the repository of corpus/C22 (witness of the defect fixed by e0a6f77).  Blacklisting `out` and
   `third_party/x` hides out/a and third_party/x/y, not output/q, third_party/xy or third_partyish/z. *)
Definition ex_pkg (kids : list (str * node)) : node := Dir ((s "BUILD", File FReg) :: kids).
Definition ex_cfg := Config [s "BUILD"; s "BUILD.plz"] [s "out"; s "third_party/x"] [s "experimental"].
Definition ex_tree : list (str * node) :=
  [ (s "third_partyish", Dir [(s "z", ex_pkg [])]);
    (s "third_party", Dir [(s "x", Dir [(s "y", ex_pkg [])]); (s "xy", ex_pkg [])]);
    (s "plz-out", Dir [(s "gen", ex_pkg [])]);
    (s "output", Dir [(s "q", ex_pkg [])]);
    (s "out", Dir [(s "a", ex_pkg [])]);
    (s ".hidden", ex_pkg []);
    (s "experimental", ex_pkg []);
    (s "experimentally", ex_pkg []) ].

Example C22_nonvacuous :
  cfg_ok ex_cfg /\ valid_path [] /\ wf (Dir ex_tree) = true
  /\ expand ex_cfg (path_str []) (Dir ex_tree)
     = Some [s "experimentally"; s "output/q"; s "third_party/xy"; s "third_partyish/z"]
  /\ valid_path [s "third_party"]
  /\ expand ex_cfg (path_str [s "third_party"]) (Dir [(s "x", Dir [(s "y", ex_pkg [])]); (s "xy", ex_pkg [])])
     = Some [s "third_party/xy"].
Proof.
  split; [intros H; cbn in H; intuition discriminate|].
  split; [constructor|]. split; [reflexivity|]. split; [reflexivity|].
  split; [repeat constructor|reflexivity].
Qed.

(* Non-vacuity 2: the witness of the defect fixed by 3d74a58 - a plain FILE named like a blacklisted directory
   (or plz-out) no longer hides the packages that sort after it. *)
Example C22_nonvacuous_file_named_like_excluded_dir :
  let cfg := Config [s "BUILD"; s "BUILD.plz"] [s "third_party"] [] in
  let t := Dir [(s "pkg", Dir [(s "zeta", ex_pkg []); (s "third_party", File FReg); (s "plz-out", File FReg);
                               (s "alpha", ex_pkg []); (s "BUILD", File FReg)])] in
  cfg_ok cfg /\ wf t = true /\ expand cfg (path_str []) t = Some [s "pkg"; s "pkg/alpha"; s "pkg/zeta"].
Proof.
  split; [intros H; cbn in H; intuition discriminate|]. split; reflexivity.
Qed.
