(* C28 - Remote action digests are canonical.
   This file holds only the statement, the property theorems and their non-vacuity examples.

   H    : the digest of a marshalled Directory message (any function; collision freedom is not needed)
   srt  : what sort.Slice / slices.SortFunc do - ANY function returning a sorted permutation (not stable)
   ops  : the insertions uploadInputDir makes into the dirBuilder, in the order it makes them
   build: dirBuilder.Build = walk from the root: (messages sent, root message); root_digest = H root. *)
From PlzV Require Import Base.Harness Model.C28 Proof.C28 Proof.C28_Ops Proof.C28_Conc Proof.C28_Memo Proof.C28_Gen Proof.C28_Disjoint Proof.C28_Action Gen.DirWalk.
From Coq Require Import Permutation.

(* what must hold of every set of declarations a file system can hold (realizable: names and path
   segments non-empty; one declaration per (directory, name), possibly repeated verbatim; a file or
   symlink is not also a directory holding other inputs) *)
Definition order_free (H : dirmsg -> str) (srt : sorter) (ops ops' : list op) : Prop :=
  root_digest H srt ops = root_digest H srt ops'                              (* the input-root digest *)
  /\ option_map snd (build H srt ops) = option_map snd (build H srt ops')     (* and the root message *)
  /\ build H srt ops <> None.                                                 (* Build terminates, no nil dereference *)

(* The action digest (HC, HA: digests of the Command and Action messages; quote: shellescape.Quote; c: the
   client's configuration) is the same for two runs of buildAction that differ in ANY call / enumeration /
   declaration order: dirBuilder insertions, AddOutput calls, named-output map, target.Env, build
   environment map - and the declaration order of the output directories and of the target's labels. *)
Definition decl_perm_full (d d' : decl) : Prop :=
  Permutation (d_ops d) (d_ops d') /\ Permutation (d_outs d) (d_outs d') /\ Permutation (d_named d) (d_named d')
  /\ Permutation (d_tenv d) (d_tenv d') /\ (forall m, Permutation (d_env d m) (d_env d' m))
  /\ Permutation (d_outdirs d) (d_outdirs d') /\ Permutation (d_labels d) (d_labels d')
  /\ d_pkg d = d_pkg d' /\ d_cmd d = d_cmd d' /\ d_binary d = d_binary d' /\ d_sandbox d = d_sandbox d' /\ d_timeout d = d_timeout d'.

Definition C28_action_statement : Prop :=
  forall (H : dirmsg -> str) (HC : cmdmsg -> str) (HA : actmsg -> str) (srt : sorter) (quote : str -> str) (c : conf),
    sorter_ok srt ->
    forall d d', decl_perm_full d d' -> decl_ok d ->
      action_digest H HC HA srt quote c d = action_digest H HC HA srt quote c d'.

Definition C28_statement : Prop :=
  (forall (H : dirmsg -> str) (srt : sorter), sorter_ok srt ->
    (* the digests do not depend on the order in which the inputs were declared or discovered *)
    (forall ops ops', Permutation ops ops' -> realizable ops -> order_free H srt ops ops')
    (* every Directory message produced (sent to the CAS, and the root) is sorted by name without
       duplicates, for ANY insertions whatsoever *)
    /\ (forall ops em m, build H srt ops = Some (em, m) -> Forall canonical em /\ canonical m)
    (* the environment of the Command: sorted by name, independent of the map's enumeration order *)
    /\ (forall loc home e e', Permutation e e' -> NoDup (map fst e) ->
          env_vars srt loc home e = env_vars srt loc home e' /\ lt_sorted fst (env_vars srt loc home e))
    (* for inputs a file system can hold, no name occurs in two kinds of a message either *)
    /\ (forall ops em m, realizable ops -> build H srt ops = Some (em, m) -> Forall fully_canonical em /\ fully_canonical m))
  (* and the action digest is independent of every declaration / enumeration order *)
  /\ C28_action_statement.

(* The code violates the first clause: an output directory p/x of a dependency (digest known) together
   with another input below p/x; whichever is inserted first wins (hasChild hides the other). *)
Theorem C28_refuted : ~ C28_statement.
Proof.
  exact (fun HS => wit_differs (proj1 (proj1 (proj1 HS wit_H isort isort_ok) wit_ops wit_ops' (perm_swap _ _ _) wit_realizable))).
Qed.
Print Assumptions C28_refuted.

(* The action clause fails by itself, twice: the output directories go into Command.OutputPaths in
   declaration order (after the sorted outputs), and the platform properties taken from the target's
   labels go into Command.Platform and Action.Platform in declaration order; nothing sorts either.
   (The harness observes both on the real buildCommand; recorded as notes of the evidence: the
   declaration order of a target's own output_dirs / labels is part of the target's definition.) *)
Example wit_outdirs_perm : decl_perm_full wit_outdirs_1 wit_outdirs_2.
Proof. repeat split; try reflexivity; try (intros; reflexivity). apply perm_swap. Qed.
Example wit_labels_perm : decl_perm_full wit_labels_1 wit_labels_2.
Proof. repeat split; try reflexivity; try (intros; reflexivity). apply perm_swap. Qed.

Theorem C28_refuted_command : ~ C28_action_statement.
Proof.
  exact (fun HS => wit_outdirs_differ (HS wit_H wit_HC wit_HA isort idk wit_conf isort_ok _ _ wit_outdirs_perm (wit_decl_ok _ _))).
Qed.
Print Assumptions C28_refuted_command.

Theorem C28_refuted_platform : ~ C28_action_statement.
Proof.
  exact (fun HS => wit_labels_differ (HS wit_H wit_HC wit_HA isort idk wit_conf isort_ok _ _ wit_labels_perm (wit_decl_ok _ _))).
Qed.
Print Assumptions C28_refuted_platform.

(* Everything else holds: outside the one defect class of the input root, and with the output directories
   and labels declared in one order (decl_equiv), the full statement is true - for every hash function of
   Directory, Command and Action messages, every sorter, every shell-quoting function and configuration. *)
Theorem C28_partial :
  (forall (H : dirmsg -> str) (srt : sorter), sorter_ok srt ->
    (forall ops ops', Permutation ops ops' -> realizable ops -> defect_class ops = None -> order_free H srt ops ops')
    /\ (forall ops em m, build H srt ops = Some (em, m) -> Forall canonical em /\ canonical m)
    /\ (forall loc home e e', Permutation e e' -> NoDup (map fst e) ->
          env_vars srt loc home e = env_vars srt loc home e' /\ lt_sorted fst (env_vars srt loc home e))
    /\ (forall ops em m, realizable ops -> build H srt ops = Some (em, m) -> Forall fully_canonical em /\ fully_canonical m))
  /\ (forall (H : dirmsg -> str) (HC : cmdmsg -> str) (HA : actmsg -> str) (srt : sorter) (quote : str -> str) (c : conf),
        sorter_ok srt ->
        forall d d', decl_equiv d d' -> decl_ok d -> defect_class (d_ops d) = None ->
          (* the action digest: equal, and buildAction does not fail *)
          action_digest H HC HA srt quote c d = action_digest H HC HA srt quote c d'
          /\ action_digest H HC HA srt quote c d <> None
          (* the Command's environment is strictly sorted by name *)
          /\ (forall root, lt_sorted fst (c_env (command_of srt quote c d root))))
  (* target.outputs: strictly sorted whatever the AddOutput calls, and independent of their order *)
  /\ (forall calls calls', Permutation calls calls' ->
        declared_outputs calls = declared_outputs calls' /\ lt_sorted idk (declared_outputs calls)).
Proof.
  exact (conj
    (fun H srt ok => conj
      (fun ops ops' Hp Hr Hd =>
         let Hno := defect_class_none ops Hd in
         conj (proj1 (root_digest_perm H srt ok ops ops' Hp Hr Hno))
           (conj (build_perm H srt ok ops ops' Hp Hr Hno) (build_total H srt ops Hno)))
      (conj (build_canonical H srt ok)
        (conj (env_order_free srt ok)
          (build_fully_canonical H srt ok))))
    (conj
      (fun H HC HA srt quote c ok d d' Heq Hok Hd =>
         let A := action_digest_order_free H HC HA srt ok quote c d d' Heq Hok (defect_class_none _ Hd) in
         conj (proj1 A) (conj (proj2 A) (fun root => command_env_sorted H srt ok quote c d root Hok)))
      (fun calls calls' Hp => conj (declared_outputs_perm calls calls' Hp) (declared_outputs_sorted calls)))).
Qed.
Print Assumptions C28_partial.

(* The tie to the source: walk_prog is regenerated by gotrans from dirBuilder.walk on every run
   (which slices are sorted by Name, the one `last`, the order of the three duplicate-removal loops);
   interpreting it is the model's sort-and-deduplicate step. *)
Theorem C28_tie : forall srt d, interp srt walk_prog d = finish srt d.
Proof. exact gen_walk_is_finish. Qed.
Print Assumptions C28_tie.

(* ---- follow-up round 2: the digests depend on nothing BUT the inputs and the command ---- *)

(* Not on what the other build workers are doing: N goroutines prepare actions on the one Client (digestMessage is the
   program gotrans regenerates from the source, interpreted step by step), in ANY interleaving.  Goroutine i only ever
   holds digests of its own messages, and once it has had its nine steps the digest it returns is action_digest d. *)
Theorem C28_conc :
  forall (H : dirmsg -> str) (HC : cmdmsg -> str) (HA : actmsg -> str) (srt : sorter) (quote : str -> str) (c : conf)
         (ds : list decl) (sched : list nat) (i : nat) (d : decl) (t : thread),
    nth_error ds i = Some d ->
    nth_error (snd (conc_run (hm H HC HA) gen_digest_prog (map (decl_job H srt quote c) ds) sched)) i = Some t ->
    (forall root, option_map snd (build H srt (d_ops d)) = Some root ->
       exists k, t_done t = firstn k (action_digests (hm H HC HA) root (command_of srt quote c d root) (d_timeout d)
                                                     (target_platform (d_labels d) (f_plat c))))
    /\ ((9 <= count_occ Nat.eq_dec sched i)%nat -> forall dg, action_digest H HC HA srt quote c d = Some dg -> last (t_done t) [] = dg).
Proof. exact gen_conc_action_digest. Qed.
Print Assumptions C28_conc.

(* Not on what happened earlier in the process: over every history of file-system repairs (a path that holds nothing
   readable changes) and preparations, with PathHasher.Hash's memo store as the source has it, each preparation yields
   the insertions - hence the input-root digest - that a process with an empty memo computes at that moment. *)
Theorem C28_memo :
  forall (h : list pstep) (fs : fsys) (mm : memo), memo_inv fs mm -> repairs_only fs h ->
    run_hist hash_memo_store_guarded fs mm h = fresh_hist hash_memo_store_guarded fs h
    /\ forall (H : dirmsg -> str) (srt : sorter) (fixed : list op),
         map (option_map (fun ops => root_digest H srt (ops ++ fixed))) (run_hist hash_memo_store_guarded fs mm h)
         = map (option_map (fun ops => root_digest H srt (ops ++ fixed))) (fresh_hist hash_memo_store_guarded fs h).
Proof.
  exact (fun h fs mm Hi Hr =>
           conj (gen_memo_history_fresh h fs mm Hi Hr)
                (fun H srt fixed => f_equal (map (option_map (fun ops => root_digest H srt (ops ++ fixed)))) (gen_memo_history_fresh h fs mm Hi Hr))).
Qed.
Print Assumptions C28_memo.

(* ---- non-vacuity ---- *)

(* C28_conc: two goroutines, an interleaving that alternates inside every digestMessage call; both end with their own
   sequential action digest.  And the statement is not true of every program: with the buffer on the Client
   (shared_prog) the very first digest of goroutine 0 is the digest of goroutine 1's input root. *)
Example C28_conc_nonvacuous :
  let sched := [0; 1; 0; 1; 0; 1; 1; 0; 1; 0; 0; 1; 0; 1; 0; 1; 1; 0]%nat in
  map (fun t => t_done t) (snd (conc_run race_HM gen_digest_prog race_jobs sched))
  = [[s "Done"; s "Co1"; s "A(Co1,Done)"]; [s "Dtwo"; s "Co2"; s "A(Co2,Dtwo)"]]
  /\ count_occ Nat.eq_dec sched 0%nat = 9%nat
  /\ option_map (@t_done) (nth_error (snd (conc_run race_HM shared_prog race_jobs race_sched)) 0) = Some [s "Dtwo"].
Proof. vm_compute. repeat split. Qed.

(* C28_memo: the history of the seeded fault (unreadable, prepare, repaired, prepare) satisfies the hypotheses; the
   second preparation carries the real digest; with an unguarded store it carries the sum of nothing. *)
Example C28_memo_nonvacuous :
  memo_inv fs_empty memo_empty /\ repairs_only fs_empty stale_hist
  /\ run_hist hash_memo_store_guarded fs_empty memo_empty stale_hist = [None; Some [AddFile [s "pkg"] (FN (s "data.txt") (s "real") false)]]
  /\ run_hist false fs_empty memo_empty stale_hist = [None; Some [AddFile [s "pkg"] (FN (s "data.txt") (s "sum-of-nothing") false)]].
Proof.
  split; [apply memo_inv_empty|]. split; [exact (proj1 unguarded_memo_stale)|]. vm_compute. repeat split.
Qed.

(* the refutation witness is a realizable set, of the known class, and the two orders really differ *)
Example C28_refuted_witness :
  realizable wit_ops /\ Permutation wit_ops wit_ops' /\ sorter_ok isort
  /\ defect_class wit_ops = Some (s "output-dir-overlaps-interior-dir")
  /\ root_digest wit_H isort wit_ops = Some (s "xD") /\ root_digest wit_H isort wit_ops' = Some (s "xf").
Proof.
  split; [exact wit_realizable|]. split; [apply perm_swap|]. split; [exact isort_ok|].
  vm_compute. repeat split.
Qed.

(* the hypotheses of C28_partial are satisfiable by a nested set with a duplicate declaration, an
   output directory and a symlink; two different orders build the same, canonical, three-level tree *)
Definition ex_ops : list op :=
  [AddFile [s "a"; s "b"] (FN (s "f") (s "1") true); AddSym [s "a"] (SN (s "l") (s "b/f"));
   AddDir [s "a"] (s "c") (s "D"); AddFile [] (FN (s "g") (s "2") false); AddFile [s "a"; s "b"] (FN (s "f") (s "1") true)].

Example C28_partial_nonvacuous :
  realizable ex_ops /\ defect_class ex_ops = None
  /\ option_map snd (build wit_H isort ex_ops)
     = Some (DM [FN (s "g") (s "2") false] [DN (s "a") (Some (s "bfcDl"))] [])
  /\ option_map snd (build wit_H isort (rev ex_ops)) = option_map snd (build wit_H isort ex_ops)
  /\ option_map (fun r => length (fst r)) (build wit_H isort ex_ops) = Some 3%nat.
Proof.
  split; [|vm_compute; repeat split].
  split; [|split].
  - intros o Ho. cbn in Ho. repeat (destruct Ho as [<-|Ho]; [cbn; (split; [discriminate|]); intros sg; cbn; intuition (subst; discriminate)|]). destruct Ho.
  - intros o1 o2 H1 H2. cbn in H1, H2.
    repeat (destruct H1 as [<-|H1]); try (destruct H1);
      repeat (destruct H2 as [<-|H2]); try (destruct H2); cbn; intros; try reflexivity; discriminate.
  - intros o1 o2 H1 H2. cbn in H1, H2.
    repeat (destruct H1 as [<-|H1]); try (destruct H1);
      repeat (destruct H2 as [<-|H2]); try (destruct H2); cbn; intros; try discriminate; no_prefix.
Qed.

(* the environment clause on a concrete map *)
Example C28_env_nonvacuous :
  env_vars isort (s "/opt/plz") (s "/home/u") [(s "PATH", s "/home/u/bin:/usr/bin:/opt/plz:/bin"); (s "B", s "2"); (s "A", s "1")]
  = [(s "A", s "1"); (s "B", s "2"); (s "PATH", s "/usr/bin:/bin")].
Proof. vm_compute. reflexivity. Qed.

(* the two action witnesses: admissible declarations that differ only in the declaration order of the output
   directories (resp. of the platform labels); what the Command then carries; the digests differ *)
Example C28_refuted_command_witness :
  decl_perm_full wit_outdirs_1 wit_outdirs_2 /\ decl_ok wit_outdirs_1
  /\ c_outs (command_of isort idk wit_conf wit_outdirs_1 empty_dir) = [s "zz"; s "b_dir"; s "a_dir"]
  /\ c_outs (command_of isort idk wit_conf wit_outdirs_2 empty_dir) = [s "zz"; s "a_dir"; s "b_dir"]
  /\ action_digest wit_H wit_HC wit_HA isort idk wit_conf wit_outdirs_1 <> None.
Proof.
  split; [exact wit_outdirs_perm|]. split; [apply wit_decl_ok|]. vm_compute. repeat split; discriminate.
Qed.

Example C28_refuted_platform_witness :
  decl_perm_full wit_labels_1 wit_labels_2 /\ decl_ok wit_labels_1
  /\ target_platform (d_labels wit_labels_1) (f_plat wit_conf) = [(s "size", s "big"); (s "arch", s "y"); (s "OSFamily", s "linux")]
  /\ target_platform (d_labels wit_labels_2) (f_plat wit_conf) = [(s "arch", s "y"); (s "size", s "big"); (s "OSFamily", s "linux")].
Proof.
  split; [exact wit_labels_perm|]. split; [apply wit_decl_ok|]. vm_compute. repeat split.
Qed.

(* the action clause of C28_partial on two runs that differ in every order it quantifies over: insertions
   reversed, AddOutput calls / named-output map / target.Env / build environment enumerated differently *)
Definition ex_decl (ops : list op) (outs : list str) (named : list (str * list str)) (tenv e : env) : decl :=
  DC ops outs named [s "od"; s "gen/**"] [s "remote-platform-property:size=big"; s "manual"] tenv (fun _ => e)
     (s "pkg") (s "echo hi") true true 300.
Definition ex_d1 := ex_decl ex_ops [s "zz"; s "./a"; s "pkg"] [(s "g1", [s "n1"]); (s "g2", [s "n2"])]
                            [(s "B", s "x y"); (s "A", s "1")] [(s "PATH", s "/home/u/bin:/bin"); (s "NAME", s "t")].
Definition ex_d2 := ex_decl (rev ex_ops) [s "pkg"; s "zz"; s "./a"] [(s "g2", [s "n2"]); (s "g1", [s "n1"])]
                            [(s "A", s "1"); (s "B", s "x y")] [(s "NAME", s "t"); (s "PATH", s "/home/u/bin:/bin")].

Example C28_partial_action_nonvacuous :
  decl_ok ex_d1 /\ defect_class (d_ops ex_d1) = None
  /\ c_outs (command_of isort idk wit_conf ex_d1 empty_dir) = [s "a"; s "n1"; s "n2"; s "pkg.out"; s "zz"; s "od"; s "gen"]
  /\ c_env (command_of isort idk wit_conf ex_d1 empty_dir)
     = [(s "NAME", s "t"); (s "PATH", s "/bin"); (s "SANDBOX", s "true"); (s "_BINARY", s "true")]
  /\ action_digest wit_H wit_HC wit_HA isort idk wit_conf ex_d1 = action_digest wit_H wit_HC wit_HA isort idk wit_conf ex_d2
  /\ action_digest wit_H wit_HC wit_HA isort idk wit_conf ex_d1 <> None
  /\ ex_d1 <> ex_d2.
Proof.
  split; [|vm_compute; repeat split; discriminate].
  split; [exact (proj1 C28_partial_nonvacuous)|]. split; cbn.
  - repeat constructor; cbn; intuition discriminate.
  - intros _. repeat constructor; cbn; intuition discriminate.
Qed.

(* the two runs are related by decl_equiv: every component is a permutation of its counterpart *)
Example C28_partial_action_equiv : decl_equiv ex_d1 ex_d2.
Proof.
  unfold decl_equiv, ex_d1, ex_d2, ex_decl. cbn [d_ops d_outs d_named d_tenv d_env d_outdirs d_labels d_pkg d_cmd d_binary d_sandbox d_timeout].
  split; [apply Permutation_rev|].
  split; [exact (Permutation_app_comm [s "zz"; s "./a"] [s "pkg"])|].
  split; [apply perm_swap|]. split; [apply perm_swap|]. split; [intros _; apply perm_swap|].
  repeat split.
Qed.
