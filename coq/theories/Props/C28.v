(* C28 - Remote action digests are canonical.
   This file holds only the statement, the property theorems and their non-vacuity examples.

   H    : the digest of a marshalled Directory message (any function; collision freedom is not needed)
   srt  : what sort.Slice / slices.SortFunc do - ANY function returning a sorted permutation (not stable)
   ops  : the insertions uploadInputDir makes into the dirBuilder, in the order it makes them
   build: dirBuilder.Build = walk from the root: (messages sent, root message); root_digest = H root. *)
From PlzV Require Import Base.Harness Model.C28 Proof.C28 Proof.C28_Ops.
From Coq Require Import Permutation.

(* what must hold of every set of declarations a file system can hold (realizable: names and path
   segments non-empty; one declaration per (directory, name), possibly repeated verbatim; a file or
   symlink is not also a directory holding other inputs) *)
Definition order_free (H : dirmsg -> str) (srt : sorter) (ops ops' : list op) : Prop :=
  root_digest H srt ops = root_digest H srt ops'                              (* the input-root digest *)
  /\ option_map snd (build H srt ops) = option_map snd (build H srt ops')     (* and the root message *)
  /\ build H srt ops <> None.                                                 (* Build terminates, no nil dereference *)

Definition C28_statement : Prop :=
  forall (H : dirmsg -> str) (srt : sorter), sorter_ok srt ->
    (* the digests do not depend on the order in which the inputs were declared or discovered *)
    (forall ops ops', Permutation ops ops' -> realizable ops -> order_free H srt ops ops')
    (* every Directory message produced (sent to the CAS, and the root) is sorted by name without
       duplicates, for ANY insertions whatsoever *)
    /\ (forall ops em m, build H srt ops = Some (em, m) -> Forall canonical em /\ canonical m)
    (* the environment of the Command: sorted by name, independent of the map's enumeration order *)
    /\ (forall loc home e e', Permutation e e' -> NoDup (map fst e) ->
          env_vars srt loc home e = env_vars srt loc home e' /\ lt_sorted fst (env_vars srt loc home e)).

(* The code violates the first clause: an output directory p/x of a dependency (digest known) together
   with another input below p/x; whichever is inserted first wins (hasChild hides the other). *)
Theorem C28_refuted : ~ C28_statement.
Proof.
  exact (fun HS => wit_differs (proj1 (proj1 (HS wit_H isort isort_ok) wit_ops wit_ops' (perm_swap _ _ _) wit_realizable))).
Qed.
Print Assumptions C28_refuted.

(* Everything else holds: outside the one defect class the full statement is true. *)
Theorem C28_partial :
  forall (H : dirmsg -> str) (srt : sorter), sorter_ok srt ->
    (forall ops ops', Permutation ops ops' -> realizable ops -> defect_class ops = None -> order_free H srt ops ops')
    /\ (forall ops em m, build H srt ops = Some (em, m) -> Forall canonical em /\ canonical m)
    /\ (forall loc home e e', Permutation e e' -> NoDup (map fst e) ->
          env_vars srt loc home e = env_vars srt loc home e' /\ lt_sorted fst (env_vars srt loc home e)).
Proof.
  exact (fun H srt ok => conj
    (fun ops ops' Hp Hr Hd =>
       let Hno := defect_class_none ops Hd in
       conj (proj1 (root_digest_perm H srt ok ops ops' Hp Hr Hno))
         (conj (build_perm H srt ok ops ops' Hp Hr Hno) (build_total H srt ops Hno)))
    (conj (build_canonical H srt ok) (env_order_free srt ok))).
Qed.
Print Assumptions C28_partial.

(* ---- non-vacuity ---- *)

(* the refutation witness is a realizable set, of the known class, and the two orders really differ *)
Example C28_refuted_witness :
  realizable wit_ops /\ Permutation wit_ops wit_ops' /\ sorter_ok isort
  /\ defect_class wit_ops = Some (s "output-dir-overlaps-interior-dir")
  /\ root_digest wit_H isort wit_ops = Some (s "xD") /\ root_digest wit_H isort wit_ops' = Some (s "xf").
Proof.
  split; [exact wit_realizable|]. split; [apply perm_swap|]. split; [exact isort_ok|].
  vm_compute. repeat split.
Qed.

(* the hypotheses of C28_partial are satisfiable by a nested set with a duplicate declaration, an
   output directory and a symlink; two different orders build the same, canonical, three-level tree *)
Definition ex_ops : list op :=
  [AddFile [s "a"; s "b"] (FN (s "f") (s "1") true); AddSym [s "a"] (SN (s "l") (s "b/f"));
   AddDir [s "a"] (s "c") (s "D"); AddFile [] (FN (s "g") (s "2") false); AddFile [s "a"; s "b"] (FN (s "f") (s "1") true)].

Example C28_partial_nonvacuous :
  realizable ex_ops /\ defect_class ex_ops = None
  /\ option_map snd (build wit_H isort ex_ops)
     = Some (DM [FN (s "g") (s "2") false] [DN (s "a") (Some (s "bfcDl"))] [])
  /\ option_map snd (build wit_H isort (rev ex_ops)) = option_map snd (build wit_H isort ex_ops)
  /\ option_map (fun r => length (fst r)) (build wit_H isort ex_ops) = Some 3%nat.
Proof.
  split; [|vm_compute; repeat split].
  split; [|split].
  - intros o Ho. cbn in Ho. repeat (destruct Ho as [<-|Ho]; [cbn; (split; [discriminate|]); intros sg; cbn; intuition (subst; discriminate)|]). destruct Ho.
  - intros o1 o2 H1 H2. cbn in H1, H2.
    repeat (destruct H1 as [<-|H1]); try (destruct H1);
      repeat (destruct H2 as [<-|H2]); try (destruct H2); cbn; intros; try reflexivity; discriminate.
  - intros o1 o2 H1 H2. cbn in H1, H2.
    repeat (destruct H1 as [<-|H1]); try (destruct H1);
      repeat (destruct H2 as [<-|H2]); try (destruct H2); cbn; intros; try discriminate; no_prefix.
Qed.

(* the environment clause on a concrete map *)
Example C28_env_nonvacuous :
  env_vars isort (s "/opt/plz") (s "/home/u") [(s "PATH", s "/home/u/bin:/usr/bin:/opt/plz:/bin"); (s "B", s "2"); (s "A", s "1")]
  = [(s "A", s "1"); (s "B", s "2"); (s "PATH", s "/usr/bin:/bin")].
Proof. vm_compute. reflexivity. Qed.
