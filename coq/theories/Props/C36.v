(* C36 - Label include/exclude filters select exactly the documented targets.
   This file holds only the statement, the property theorems and their non-vacuity examples.
   The documented rule (`selected`, `excluded`, `in_selection`, `carries_label`, `denotes`, `reads`, ...) is written
   out in Proof/C36_spec.v; the code's side (`state_should_include`, `expand_pseudo`, `expand_labels`, `has_label`,
   `set_include_and_exclude`, `parse_exclude`, ...) is the executable model Model/C36.v.
   `cur` is the package plz was started in (core.InitialPackagePath); labels, targets and packages carry their
   subrepo. *)
From Coq Require Import String.
From PlzV Require Import Base.Harness Model.C36 Proof.C36_spec Proof.C36 Proof.C36_parse Proof.C36_orig.
Local Open Scope list_scope.

(* what does not depend on the filters given: label matching, and the reading of exclude build expressions *)
Definition C36_reading : Prop :=
  (* a trailing `*` matches by prefix, against the declared labels and the implicit `test` label alike *)
  (forall t p, has_label t p = true <-> carries_label t p)
  /\ (forall p l, match_ p l = true <-> label_matches p l)
  (* an exclude expression `:name` is resolved against the package plz was started in - or rejected *)
  /\ (forall cur name, parse_exclude cur (COLON :: name) =
        if validate_target_name name then Some {| l_sub := []; l_pkg := cur; l_name := name |} else None)
  (* `//...` expressions are absolute: they read the same from every package *)
  /\ (forall cur x, has_prefix (s "//") x = true -> parse_exclude cur x = parse_exclude [] x)
  (* the documented forms :name, //pkg:name, ///sub//pkg:name, @sub//pkg:name are accepted with their meaning *)
  /\ (forall cur x e, reads cur x e -> is_expression x /\ parse_exclude cur x = Some e)
  (* the parser model's recursion bound is never reached *)
  /\ (forall cur x, parse_parts (S (length x)) x cur <> PFuel).

(* Which targets the build TREATS as selected (round-2 follow-up).  `ts` is state.progress.originalTargets after
   AddOriginalTarget of every requested label (a requested label that an exclude expression covers is dropped),
   `is_original` is BuildState.IsOriginalTarget - it decides whether a built test is run, an output downloaded, a target
   rebuilt -, `named ts t` = the target itself was requested by name (then the filters do not apply to it),
   `package_requested ts t` = a :all label of its package is held.  `exact_when` is the side condition of the exact
   direction: none in the statement, outside the subrepo defect class `confused` in what is proved. *)
Definition C36_original_targets (exact_when : state -> target -> Prop) : Prop :=
  (forall cur include exclude st requested ts,
     set_include_and_exclude cur empty_state include exclude = Some st ->
     originals st empty_ts requested = Some ts ->
     (* a target is treated as original exactly when a :all of its package was requested and the documented rule
        selects it: include groups, exclude groups AND exclude build patterns *)
     (forall t, ~ named ts t -> exact_when st t ->
        (is_original st ts t = true <-> package_requested ts t /\ selected cur include exclude t))
     (* exclusion always takes priority: by label group or by build pattern *)
     /\ (forall t, ~ named ts t -> excluded cur exclude t -> is_original st ts t = false)
     (* the two sites agree, for every graph: original <-> listed by ExpandAllOriginalLabels *)
     /\ (forall g p t, wf_graph g -> In p g -> In t (p_targets p) ->
           (is_original st ts t = true <-> In (t_label t) (expand_originals st g requested false)))
     (* `plz test`: for EVERY map of dependency edges dm between the candidates, the tests run are exactly the tests
        among the selected targets; an excluded target that an included one depends on is built, not run *)
     /\ (forall g dm p t, wf_graph g -> In p g -> In t (p_targets p) ->
           (In (t_label t) (tests_run st g dm ts) <->
            t_test t = true /\ In (t_label t) (expand_originals st g requested true)))
     /\ (forall g dm p t, wf_graph g -> In p g -> In t (p_targets p) ->
           excluded cur exclude t -> ~ In (t_label t) requested -> ~ In (t_label t) (tests_run st g dm ts)))
  (* the TargetSet over every history of Add calls: AllTargets() is the history, MatchExact the named labels, Match
     additionally the members of the packages whose :all was added *)
  /\ (forall ls ts, ts_add_all empty_ts ls = Some ts ->
        ts_everything ts = ls
        /\ (forall l, ts_match_exact ts l = true <-> In l ls /\ is_all_targets l = false)
        /\ (forall l, fst (ts_match ts l) = true <->
              (In l ls /\ is_all_targets l = false)
              \/ exists L, In L ls /\ is_all_targets L = true /\ l_pkg L = l_pkg l /\ l_sub L = l_sub l)).

Definition C36_statement : Prop :=
  (* for every package plz is started in, every --include and --exclude argument list the code accepts *)
  (forall cur include exclude st, set_include_and_exclude cur empty_state include exclude = Some st ->
     (* every target, every label set: BuildState.ShouldInclude accepts it exactly when it carries every label of
        at least one include group (or no include is given), carries no exclude group, and no exclude build
        expression denotes it *)
     (forall t, state_should_include st t = true <-> selected cur include exclude t)
     (* exclusion always takes priority *)
     /\ (forall t, excluded cur exclude t -> state_should_include st t = false)
     (* no filter: every target *)
     /\ (include = [] -> exclude = [] -> forall t, state_should_include st t = true)
     (* building :all or /... : exactly the documented targets of the packages the label ranges over, each once;
        with NeedTests only the tests among them *)
     /\ (forall g L just_tests, wf_graph g -> is_pseudo L = true ->
           (forall lbl, In lbl (expand_pseudo st g L just_tests) <-> in_selection cur include exclude g L just_tests lbl)
           /\ NoDup (expand_pseudo st g L just_tests))
     (* several requested labels: the pseudo ones are expanded as above, the others pass through *)
     /\ (forall g ls just_tests lbl,
           In lbl (expand_labels st g ls just_tests) <->
           exists L, In L ls /\ ((is_pseudo L = false /\ lbl = L)
                                 \/ (is_pseudo L = true /\ In lbl (expand_pseudo st g L just_tests))))
     (* a requested :all label that AddOriginalTarget drops up front loses no selected target of its package *)
     /\ (forall L t, is_all_targets L = true -> any_includes (st_exclude_targets st) L = true ->
           t_pkg t = l_pkg L -> t_sub t = l_sub L -> ~ selected cur include exclude t))
  (* exclude build expressions remove exactly the targets they denote - those of their own repository *)
  /\ (forall e that, includes e that = true <-> denotes e that)
  (* what the build then treats as selected (IsOriginalTarget, the tests run) is that same selection *)
  /\ C36_original_targets (fun _ _ => True)
  /\ C36_reading.

(* The code does not satisfy the statement: BuildLabel.Includes never compares Subrepo, so the exclude expression
   //p:x also covers ///s//p:x (and ///s//p:x covers //p:x). *)
Theorem C36_refuted : ~ C36_statement.
Proof.
  exact (fun H => proj2 includes_ignores_subrepo (proj1 (proj1 (proj2 H) _ _) (proj1 includes_ignores_subrepo))).
Qed.
Print Assumptions C36_refuted.

(* What holds for all inputs.  The two defect classes are executable / structural side conditions:
     confused st t = true   : some exclude expression of ANOTHER repository covers package and name of t
     host_only g L          : the requested `...` label and all packages of the graph are of the host repository
   Everything else of the statement is proved without them. *)
Definition C36_partial_statement : Prop :=
  (forall cur include exclude st, set_include_and_exclude cur empty_state include exclude = Some st ->
     (* never too much: whatever is accepted is selected by the documented rule - whatever the subrepos *)
     (forall t, state_should_include st t = true -> selected cur include exclude t)
     (* exact, outside the defect class *)
     /\ (forall t, confused st t = false -> (state_should_include st t = true <-> selected cur include exclude t))
     (* the defect class is exactly this *)
     /\ (forall t, confused st t = true <->
            exists e, In e (st_exclude_targets st) /\ denotes_names e (t_label t) /\ l_sub e <> t_sub t)
     /\ (forall t, (forall e, In e (st_exclude_targets st) -> l_sub e = t_sub t) -> confused st t = false)
     (* exclusion always takes priority *)
     /\ (forall t, excluded cur exclude t -> state_should_include st t = false)
     (* no filter: every target *)
     /\ (include = [] -> exclude = [] -> forall t, state_should_include st t = true)
     (* :all in any repository, /... in the host repository: exactly the documented targets, each once *)
     /\ (forall g L just_tests, wf_graph g -> is_pseudo L = true ->
           (is_all_targets L = true \/ host_only g L) ->
           (forall p t, In p g -> In t (p_targets p) -> confused st t = false) ->
           (forall lbl, In lbl (expand_pseudo st g L just_tests) <-> in_selection cur include exclude g L just_tests lbl)
           /\ NoDup (expand_pseudo st g L just_tests))
     (* any pseudo label, any subrepos: only targets of the graph that the documented rule selects, each once *)
     /\ (forall g L just_tests, wf_graph g -> is_pseudo L = true ->
           (forall lbl, In lbl (expand_pseudo st g L just_tests) ->
              exists p t, In p g /\ In t (p_targets p) /\ t_label t = lbl
                          /\ (just_tests = true -> t_test t = true) /\ selected cur include exclude t)
           /\ NoDup (expand_pseudo st g L just_tests))
     /\ (forall g ls just_tests lbl,
           In lbl (expand_labels st g ls just_tests) <->
           exists L, In L ls /\ ((is_pseudo L = false /\ lbl = L)
                                 \/ (is_pseudo L = true /\ In lbl (expand_pseudo st g L just_tests))))
     /\ (forall L t, is_all_targets L = true -> any_includes (st_exclude_targets st) L = true ->
           t_pkg t = l_pkg L -> confused st t = false -> ~ selected cur include exclude t))
  (* Includes is exact on package and name, and exact between labels of one repository *)
  /\ (forall e that, includes e that = true <-> denotes_names e that)
  /\ (forall e that, l_sub that = l_sub e -> (includes e that = true <-> denotes e that))
  (* `--exclude :name` alone, plz started in cur: exactly the host targets //cur:name denotes are rejected *)
  /\ (forall cur name st t, set_include_and_exclude cur empty_state [] [COLON :: name] = Some st -> t_sub t = [] ->
        (state_should_include st t = false <-> denotes {| l_sub := []; l_pkg := cur; l_name := name |} (t_label t)))
  (* original targets, the tests run: exact outside the defect class, everything else unconditional *)
  /\ C36_original_targets (fun st t => confused st t = false)
  /\ C36_reading.

Theorem C36_partial : C36_partial_statement.
Proof.
  exact (conj (fun cur include exclude st Hset =>
                 conj (fun t => state_should_include_sound cur include exclude st t Hset)
                (conj (fun t => state_should_include_spec cur include exclude st t Hset)
                (conj (confused_true st)
                (conj (confused_one_repo st)
                (conj (fun t => exclusion_wins cur include exclude st t Hset)
                (conj (no_filters cur include exclude st Hset)
                (conj (fun g L jt => expand_pseudo_selected cur include exclude st g L jt Hset)
                (conj (fun g L jt => expand_pseudo_sound_nodup cur include exclude st g L jt Hset)
                (conj (expand_labels_in st)
                      (fun L t => dropped_all_loses_nothing cur include exclude st L t Hset))))))))))
        (conj includes_spec (conj includes_same_repo (conj relative_exclude_exact
        (conj (conj (fun cur include exclude st requested ts Hset Ho =>
                 conj (fun t Hnn Hc => proj1 (proj2 (is_original_selected cur include exclude st requested ts t Hset Ho Hnn)) Hc)
                (conj (fun t Hnn => proj2 (proj2 (is_original_selected cur include exclude st requested ts t Hset Ho Hnn)))
                (conj (fun g p t Hwf Hp Ht => is_original_iff_listed st g requested ts p t Hwf Ho Hp Ht)
                (conj (fun g dm p t Hwf Hp Ht => tests_run_exact st g dm requested ts p t Hwf Ho Hp Ht)
                      (fun g dm p t Hwf Hp Ht => excluded_test_never_run cur include exclude st g dm requested ts p t Hset Hwf Ho Hp Ht)))))
              ts_history_readers)
        (conj has_label_spec (conj match_spec (conj parse_exclude_relative (conj parse_exclude_absolute
        (conj reads_parse try_parse_fuel)))))))))).
Qed.
Print Assumptions C36_partial.

(* Non-vacuity 1: plz started in package a; a graph with shared package prefixes, compound and wildcard groups, a
   label exclude, an absolute and a RELATIVE exclude expression; //a/... selects exactly one target, and every target
   of the graph is outside the defect class. *)
Example C36_nonvacuous :
  let g := mk_graph
    [ ([], s "a",   [ (s "lib", [s "go"], false); (s "lib_test", [s "go"; s "slow"], true); (s "gen", [s "py"], false);
                      (s "tool", [s "py"], false) ]);
      ([], s "a/b", [ (s "x_test", [s "go_test"], true); (s "y", [s "go"], false); (s "gen", [s "py"], false) ]);
      ([], s "ab",  [ (s "z_test", [s "go"], true) ]) ] in
  let include := [s "go*,te*"; s "py"] in
  let exclude := [s "slow"; s "//a/b:y"; s ":gen"; s "@z"; s "//a:tool"] in
  wf_graph g
  /\ exists st, set_include_and_exclude (s "a") empty_state include exclude = Some st
     /\ st_exclude st = [s "slow"; s "@z"]
     /\ st_exclude_targets st = [mk_label ([], s "a/b", s "y"); mk_label ([], s "a", s "gen"); mk_label ([], s "a", s "tool")]
     /\ map un_label (expand_pseudo st g (mk_label ([], s "a", s "...")) false) = [([], s "a/b", s "gen"); ([], s "a/b", s "x_test")]
     /\ map un_label (expand_pseudo st g (mk_label ([], s "a", s "all")) true) = []
     /\ host_only g (mk_label ([], s "a", s "..."))
     /\ (forall p t, In p g -> In t (p_targets p) -> confused st t = false).
Proof.
  cbv zeta. split.
  - split; [vm_compute; repeat constructor; cbn; intuition discriminate|].
    intros p Hp. vm_compute in Hp.
    destruct Hp as [<-|[<-|[<-|[]]]]; (split; [vm_compute; repeat constructor; cbn; intuition discriminate|]);
      intros t Ht; vm_compute in Ht; intuition (subst; reflexivity).
  - eexists. split; [vm_compute; reflexivity|]. repeat split; try (vm_compute; reflexivity).
    + intros p Hp. vm_compute in Hp. intuition (subst; reflexivity).
    + intros p t Hp Ht. vm_compute in Hp.
      destruct Hp as [<-|[<-|[<-|[]]]]; vm_compute in Ht; intuition (subst; reflexivity).
Qed.

(* Non-vacuity 2 (and the repaired defect b32293a): a test target without declared labels carries `test`, so the
   wildcard labels `test*`, `te*` and `*` select / exclude it. *)
Example C36_wildcard_sees_implicit_test :
  let t := {| t_sub := []; t_pkg := s "p"; t_name := s "x"; t_labels := []; t_test := true |} in
  target_should_include t [s "test*"] [] = true
  /\ target_should_include t [] [s "te*"] = false
  /\ target_should_include t [s "*"] [s "tex*"] = true
  /\ selected [] [s "test*"] [] t.
Proof.
  cbv zeta. repeat split; try (vm_compute; reflexivity).
  - right. exists (s "test*"). split; [left; reflexivity|]. exists [s "test*"]. split.
    + split; [discriminate|]. split; [constructor; [vm_compute; intuition discriminate | constructor] | reflexivity].
    + constructor; [|constructor]. exists (s "test"). split; [right; split; reflexivity|].
      right. exists (s "test"), []. split; reflexivity.
  - intros x [].
  - intros x e [].
Qed.

(* Non-vacuity 3 (seeded mutation m3): plz started in package pkg, `--exclude :foo` is //pkg:foo - it rejects
   //pkg:foo and keeps its namesake //:foo of the root package; from the root it is the other way round. *)
Example C36_relative_exclude_is_relative :
  let foo_in p := {| t_sub := []; t_pkg := p; t_name := s "foo"; t_labels := [s "x"]; t_test := false |} in
  (exists st, set_include_and_exclude (s "pkg") empty_state [] [s ":foo"] = Some st
     /\ st_exclude_targets st = [mk_label ([], s "pkg", s "foo")]
     /\ state_should_include st (foo_in (s "pkg")) = false
     /\ state_should_include st (foo_in []) = true)
  /\ (exists st, set_include_and_exclude [] empty_state [] [s ":foo"] = Some st
     /\ state_should_include st (foo_in (s "pkg")) = true
     /\ state_should_include st (foo_in []) = false)
  /\ reads (s "pkg") (s ":foo") (mk_label ([], s "pkg", s "foo"))
  /\ reads (s "pkg") (s "///sub//pkg:foo") (mk_label (s "sub", s "pkg", s "foo")).
Proof.
  cbv zeta. repeat split.
  - eexists. split; [vm_compute; reflexivity|]. repeat split.
  - eexists. split; [vm_compute; reflexivity|]. repeat split.
  - apply (read_relative (s "pkg") (s "foo")). reflexivity.
  - apply (read_subrepo_slashes (s "pkg") (s "sub") (s "pkg") (s "foo")); try reflexivity; try discriminate.
    + vm_compute. intuition discriminate.
    + intros a b E. destruct a as [|? [|? [|? [|? a]]]]; cbn in E; try discriminate;
        injection E; intros; subst; try discriminate.
Qed.

(* Non-vacuity 4 (the open finding): `--exclude ///s//p:x` also rejects the host target //p:x, which the
   documented rule selects - the target is in the defect class; its neighbour //p:y is not and is treated exactly. *)
Example C36_exclude_expression_ignores_subrepo :
  let host n := {| t_sub := []; t_pkg := s "p"; t_name := n; t_labels := []; t_test := false |} in
  exists st, set_include_and_exclude [] empty_state [] [s "///s//p:x"] = Some st
    /\ state_should_include st (host (s "x")) = false
    /\ selected [] [] [s "///s//p:x"] (host (s "x"))
    /\ confused st (host (s "x")) = true
    /\ confused st (host (s "y")) = false
    /\ state_should_include st (host (s "y")) = true.
Proof.
  cbv zeta. eexists. split; [vm_compute; reflexivity|]. repeat split; try (vm_compute; reflexivity).
  - left. reflexivity.
  - intros x [<-|[]] Hne. exfalso. apply Hne. left. exists (s "/s//p:x"). reflexivity.
  - intros x e [<-|[]] _ Hp. vm_compute in Hp. injection Hp as <-. intros [H _]. discriminate.
Qed.

(* Non-vacuity 5 (the second open finding, outside `host_only`): the `...` branch compares the label's package with
   the printed PackageMap keys (`@s//a` for the package a of subrepo s, see gen_package_key) and never looks at the
   label's subrepo: ///s//a/... expands to the HOST package a; the documented selection is ///s//a:x. *)
Example C36_subrepo_ellipsis_ranges_over_keys :
  let g := mk_graph [ (s "s", s "a", [ (s "x", [], false) ]); ([], s "a", [ (s "y", [], false) ]) ] in
  let L := mk_label (s "s", s "a", s "...") in
  wf_graph g /\ ~ host_only g L
  /\ map pkg_key g = [s "@s//a"; s "a"]
  /\ map un_label (expand_pseudo empty_state g L false) = [([], s "a", s "y")]
  /\ in_selection [] [] [] g L false (mk_label (s "s", s "a", s "x"))
  /\ map un_label (expand_pseudo empty_state g (mk_label (s "s", s "a", s "all")) false) = [(s "s", s "a", s "x")].
Proof.
  cbv zeta. split; [|split; [|split; [|split; [|split]]]]; try (vm_compute; reflexivity).
  - split; [vm_compute; repeat constructor; cbn; intuition discriminate|].
    intros p Hp. vm_compute in Hp.
    destruct Hp as [<-|[<-|[]]]; (split; [vm_compute; repeat constructor; cbn; intuition discriminate|]);
      intros t Ht; vm_compute in Ht; intuition (subst; reflexivity).
  - intros [H _]. discriminate.
  - eexists _, _. split; [left; reflexivity|]. split; [split; [reflexivity | right; split; [reflexivity | right; left; reflexivity]]|].
    split; [left; reflexivity|]. split; [reflexivity|]. split; [discriminate|].
    split; [left; reflexivity|]. split; [intros x [] | intros x e []].
Qed.

(* Non-vacuity 6 (seeded mutation r2-m2): `plz test //pkg:all --exclude //pkg:b_test` where the included a_test depends
   on the excluded b_test.  b_test is built (a dependency) but it is not an original target and is not run; with a
   label exclude the same.  The hypotheses of C36_original_targets hold: the graph is well formed, no target is named,
   b_test is `excluded` by a build pattern, no target is in the defect class. *)
Example C36_excluded_dependency_is_not_run :
  let g := mk_graph [ ([], s "pkg", [ (s "a_test", [], true); (s "b_test", [s "flaky_dep"], true); (s "c_test", [], true) ]) ] in
  let lbl n := mk_label ([], s "pkg", n) in
  let dm := [ (lbl (s "a_test"), [lbl (s "b_test")]) ] in
  let b := mk_target [] (s "pkg") (s "b_test", [s "flaky_dep"], true) in
  wf_graph g
  /\ exists st ts, set_include_and_exclude [] empty_state [] [s "//pkg:b_test"] = Some st
       /\ originals st empty_ts [lbl (s "all")] = Some ts
       /\ ts_packages ts = [(s "pkg", [])] /\ ts_targets ts = []
       /\ In (lbl (s "b_test")) (built st g dm true ts)
       /\ is_original st ts b = false
       /\ target_should_include b (st_include st) (st_exclude st) = true
       /\ excluded [] [s "//pkg:b_test"] b /\ ~ named ts b /\ confused st b = false
       /\ tests_run st g dm ts = [lbl (s "a_test"); lbl (s "c_test")]
       /\ expand_originals st g [lbl (s "all")] true = [lbl (s "a_test"); lbl (s "c_test")].
Proof.
  cbv zeta. split.
  - split; [vm_compute; repeat constructor; cbn; intuition discriminate|].
    intros p Hp. vm_compute in Hp. destruct Hp as [<-|[]].
    split; [vm_compute; repeat constructor; cbn; intuition discriminate|].
    intros t Ht; vm_compute in Ht; intuition (subst; reflexivity).
  - exists {| st_include := []; st_exclude := []; st_exclude_targets := [mk_label ([], s "pkg", s "b_test")] |},
           {| ts_targets := []; ts_packages := [(s "pkg", [])]; ts_everything := [mk_label ([], s "pkg", s "all")] |}.
    split; [vm_compute; reflexivity|]. split; [vm_compute; reflexivity|].
    repeat split; try (vm_compute; reflexivity).
    + vm_compute. tauto.
    + exists (s "//pkg:b_test"). split; [left; reflexivity|]. right.
      split; [left; exists (s "pkg:b_test"); reflexivity|].
      eexists. split; [vm_compute; reflexivity|]. split; [reflexivity|]. right. right. split; reflexivity.
    + intros [H _]. vm_compute in H. destruct H as [H|[]]. discriminate.
Qed.
