(* C36 - Label include/exclude filters select exactly the documented targets.
   This file holds only the statement, the property theorem and its non-vacuity examples.
   The documented rule (`selected`, `excluded`, `in_selection`, `carries_label`, `denotes`, ...) is written out in
   Proof/C36_spec.v; the code's side (`state_should_include`, `expand_pseudo`, `expand_labels`, `has_label`,
   `set_include_and_exclude`, ...) is the executable model Model/C36.v. *)
From Coq Require Import String.
From PlzV Require Import Base.Harness Model.C36 Proof.C36_spec Proof.C36.
Local Open Scope list_scope.

Definition C36_statement : Prop :=
  (* for every --include and --exclude argument list the code accepts (SetIncludeAndExclude does not die) *)
  (forall include exclude st, set_include_and_exclude empty_state include exclude = Some st ->
     (* every target, every label set: BuildState.ShouldInclude accepts it exactly when it carries every label of
        at least one include group (or no include is given), carries no exclude group, and no exclude build
        expression denotes it *)
     (forall t, state_should_include st t = true <-> selected include exclude t)
     (* exclusion always takes priority *)
     /\ (forall t, excluded exclude t -> state_should_include st t = false)
     (* no filter: every target *)
     /\ (include = [] -> exclude = [] -> forall t, state_should_include st t = true)
     (* building :all or /... : exactly the documented targets of the packages the label ranges over, each once;
        with NeedTests only the tests among them *)
     /\ (forall g L just_tests, wf_graph g -> is_pseudo L = true ->
           (forall lbl, In lbl (expand_pseudo st g L just_tests) <-> in_selection include exclude g L just_tests lbl)
           /\ NoDup (expand_pseudo st g L just_tests))
     (* several requested labels: the pseudo ones are expanded as above, the others pass through *)
     /\ (forall g ls just_tests lbl,
           In lbl (expand_labels st g ls just_tests) <->
           exists L, In L ls /\ ((is_pseudo L = false /\ lbl = L)
                                 \/ (is_pseudo L = true /\ In lbl (expand_pseudo st g L just_tests))))
     (* a requested //pkg:all that AddOriginalTarget drops up front loses no selected target *)
     /\ (forall L t, is_all_targets L = true -> any_includes (st_exclude_targets st) L = true ->
           t_pkg t = l_pkg L -> state_should_include st t = false))
  (* a trailing `*` matches by prefix, against the declared labels and the implicit `test` label alike *)
  /\ (forall t p, has_label t p = true <-> carries_label t p)
  /\ (forall p l, match_ p l = true <-> label_matches p l)
  (* exclude build expressions remove exactly the targets they denote *)
  /\ (forall e that, includes e that = true <-> denotes e that).

Theorem C36_full : C36_statement.
Proof.
  exact (conj (fun include exclude st Hset =>
                 conj (fun t => state_should_include_spec include exclude st t Hset)
                (conj (fun t => exclusion_wins include exclude st t Hset)
                (conj (no_filters include exclude st Hset)
                (conj (fun g L jt => expand_pseudo_selected include exclude st g L jt Hset)
                (conj (expand_labels_in st)
                      (dropped_all_consistent st))))))
        (conj has_label_spec (conj match_spec includes_spec))).
Qed.
Print Assumptions C36_full.

(* Non-vacuity 1: a graph with shared package prefixes, compound and wildcard groups, a label exclude and an
   exclude expression; //a/... selects exactly two targets. *)
Example C36_nonvacuous :
  let g := mk_graph
    [ (s "a",   [ (s "lib", [s "go"], false); (s "lib_test", [s "go"; s "slow"], true); (s "gen", [s "py"], false) ]);
      (s "a/b", [ (s "x_test", [s "go_test"], true); (s "y", [s "go"], false) ]);
      (s "ab",  [ (s "z_test", [s "go"], true) ]) ] in
  let include := [s "go*,te*"; s "py"] in
  let exclude := [s "slow"; s "//a/b:y"; s "@z"] in
  wf_graph g
  /\ exists st, set_include_and_exclude empty_state include exclude = Some st
     /\ st_exclude st = [s "slow"; s "@z"]
     /\ st_exclude_targets st = [mk_label (s "a/b", s "y")]
     /\ map un_label (expand_pseudo st g (mk_label (s "a", s "...")) false) = [(s "a", s "gen"); (s "a/b", s "x_test")]
     /\ map un_label (expand_pseudo st g (mk_label (s "a", s "all")) true) = [].
Proof.
  cbv zeta. split.
  - split; [vm_compute; repeat constructor; cbn; intuition discriminate|].
    intros p Hp. vm_compute in Hp.
    destruct Hp as [<-|[<-|[<-|[]]]]; (split; [vm_compute; repeat constructor; cbn; intuition discriminate|]);
      intros t Ht; vm_compute in Ht; intuition (subst; reflexivity).
  - eexists. split; [vm_compute; reflexivity|]. vm_compute. repeat split.
Qed.

(* Non-vacuity 2 (and the repaired defect b32293a): a test target without declared labels carries `test`, so the
   wildcard labels `test*`, `te*` and `*` select / exclude it. *)
Example C36_wildcard_sees_implicit_test :
  let t := {| t_pkg := s "p"; t_name := s "x"; t_labels := []; t_test := true |} in
  target_should_include t [s "test*"] [] = true
  /\ target_should_include t [] [s "te*"] = false
  /\ target_should_include t [s "*"] [s "tex*"] = true
  /\ selected [s "test*"] [] t.
Proof.
  cbv zeta. repeat split; try (vm_compute; reflexivity).
  - right. exists (s "test*"). split; [left; reflexivity|]. exists [s "test*"]. split.
    + split; [discriminate|]. split; [constructor; [vm_compute; intuition discriminate | constructor] | reflexivity].
    + constructor; [|constructor]. exists (s "test"). split; [right; split; reflexivity|].
      right. exists (s "test"), []. split; reflexivity.
  - intros x [].
  - intros x e [].
Qed.
