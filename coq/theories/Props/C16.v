(* C16 - The BUILD language agrees with Python on its documented subset.
   This file holds only the statement, the property theorems and their non-vacuity examples. *)
From Coq Require Import Permutation Sorted.
From PlzV Require Import Base.Harness Model.C16_Syntax Model.C16_Ops Model.C16_Prim Model.C16_Eval Model.C16 Model.C16_Pure Model.C16_Sort Model.C16_Pure2 Model.C16_Effects.
From PlzV Require Import Proof.C16_Effects Proof.C16_Ops Proof.C16_Int Proof.C16 Proof.C16_Prog Proof.C16_Pure Proof.C16_Sort Proof.C16_Pure2.

(* Every program of the modelled subset (integers, strings, lists, dicts, comprehensions, functions, if/for and
   the builtins len sorted reversed range enumerate zip any all min max str join split ...) that asp evaluates
   without error yields, for every global, the value CPython computes for the same program; and a value or
   function imported from a subincluded file behaves as if its text stood in the BUILD file - in particular a
   function or literal evaluated twice yields independent fresh values.  (asp = `run Asp`, the model tied to the
   real interpreter; CPython = `run Py`, the same evaluator with CPython's semantics, tied to python3.) *)
Definition C16_statement : Prop :=
  (forall (fuel : nat) (p : prog), agrees_with_python fuel p)
  /\ (forall (fuel : nat) (defs p : prog), imported_agrees_with_python fuel defs p).

Theorem C16_refuted : ~ C16_statement.
Proof. exact (fun H => rest_refutes (proj1 H FUEL w_rest)). Qed.
Print Assumptions C16_refuted.

(* The strongest statements the code supports, each for ALL programs / chains / operands / states:
   0. (main) the PURE fragment, whole programs: for every program p of the syntactic fragment in_pure_subset (literals,
      variables, = and +=, ops_safe operator chains, comparisons, and/or/not also over lists, inline if, list literals and
      list +, if/elif/else, for with break/continue, assert) and every fuel: if the checked reference run pure_run
      succeeds - i.e. every integer operation performed along the run is one on which Go's 64-bit operator and CPython's
      agree, and no type-dependent trigger of a known difference is hit (Model/C16_Pure.v lists them) - then the asp run
      and the CPython run of p are EQUAL, and both print exactly the globals of the reference run;
   1. a chain the classifier does not flag (equivalently: ops_safe) is evaluated by interpretOps exactly as
      CPython's grammar groups it - for every operand evaluator, first value and state; the precedence and lazy
      tables are the ones regenerated from grammar.go;
   2. asp's 64-bit integer operators give CPython's result under int_safe (no overflow; % with operands of the
      same sign or divisor zero; // with |operands| < 2^53 and a non-zero divisor; never /);
   3. + on EVERY list allocates a fresh array with capacity = length and writes no existing one (/repo 7aeabfa);
   4. whole programs `x = <chain over integer literals>`: if the chain is safe and CPython's evaluation of it (tree_val)
      stays within the side conditions of 2, the asp run and the CPython run of the program are equal;
   5. sorted(seq, key=f, reverse=rv), for EVERY list of (key, element) pairs of any length and both directions, with the
      comparison operator and the post-processing gotrans read off builtins.go: the result is a permutation of the input,
      ordered by key in the requested direction, and the elements of EQUAL key stand in their input order - CPython's
      stable sort, reverse=True included; these three properties leave no other result: every list that has them IS the list
      sorted() returns (so the model may compute it by insertion sort although sort.SliceStable merges blocks); and, the
      source calling sort.SliceStable (/repo 62283f2), the model covers lists of EVERY length (with sort.Slice: 12);
   6. d | e, for ALL operands and states, as the steps gotrans translated from pyDict.Operator: the result is a dict that did
      not exist before, no list and no existing dict is written, a later store into the result is invisible in every older
      dict and vice versa; and these steps are the union of the evaluator (apply_bin) on every dict without duplicate keys;
   7. (second deepening) the ENLARGED pure fragment, whole programs: for every program p, every fuel: if the checked reference run
      pure2_run of Model/C16_Pure2.v succeeds - a second heap-free evaluator that adds to the fragment of 0: user functions (def at
      the top level with positional / keyword / scalar-literal default arguments, calls as expressions and statements, return,
      recursion bounded by the fuel); list comprehensions with and without filter and with several loop names; for loops with
      several names; for / comprehensions over range(...) with a positive step; the builtins len, str of scalars, bool, any, all,
      reversed, sorted without key (on ints only or strings only), min, max; dict literals whose keys are strictly ascending, indexing of lists / strings / dicts, `in` on lists of scalars and
      on dicts, get / keys / values; join, split with a separator, startswith, endswith, upper, lower - then the asp run and the
      CPython run print exactly the reference run's globals, up to the spare capacity the asp hook reports for a list built by a
      filtered comprehension (ostrip_outcome; CPython has no such thing).  Kept OUT by the reference evaluator: defaults that are
      not scalar literals (evaluated at call time by asp), def inside a function, an argument bound twice, a positional argument
      after a keyword one, range with a step <= 0, int/bool comparisons inside `in`, dict literals with unsorted keys, += on lists, str() of containers.
      THIRD DEEPENING, the same theorem over a larger pure2_run: enumerate, zip on lists of equal length, dict.items() (a list of freshly
      allocated two-element lists each); `fmt % x` for a string or int x with the verbs %s %d %% (fmt_go); slices l[a:b] of lists (a window of
      the same array in asp, a copy in CPython - indistinguishable in a fragment that never writes into a list) and of strings without
      multi-byte runes, when the normalised bounds satisfy 0 <= a <= b; unpacking assignment a, b = e; d | e when the merged keys are
      again strictly ascending; sorted(l, reverse=...) with the keyword.  Kept out: zip of lists of different length (asp raises, CPython
      truncates), a slice with a > b or a negative normalised start (asp raises, CPython clamps), % with a list / bool / None on the right,
      keyword arguments of builtins other than sorted's reverse (CPython names them differently), index assignment (a tree value
      cannot say which other names alias the list). *)
Definition C16_partial_statement : Prop :=
  (forall fuel (p : prog) ps,
     in_pure_subset p = true -> pure_run fuel p = Ok ps ->
     run Asp [] fuel [p] = run Py [] fuel [p] /\ run Asp [] fuel [p] = [OGlobals (pure_obs ps) (pure_obs ps)])
  /\ (forall (evalx : vexpr -> state -> res (value * state)) fuel obj (ops : list opitem) st,
     chain_class (items_of ops) = None ->
     chain Asp evalx fuel obj ops st =
     py_ops evalx (apply_bin Asp fuel) (fun u v st0 => apply_un Asp u st0 v) (fun v st0 => truthy Asp st0 v) obj (items_of ops) st)
  /\ (forall (ops : list (item vexpr)), chain_class ops = None -> ops_safe ops = true)
  /\ (forall (ops : list (item vexpr)) (acc : tree vexpr value), ops_safe ops = true -> py_tree acc ops = asp_tree acc ops)
  /\ (forall o a b, int_safe o a b = true -> asp_int_op o a b = py_int_op o a b)
  /\ (forall (l : slice) (items2 : list value) (st : state),
        (s_off l + s_len l <= length (arr_of st (s_arr l)))%nat ->
        let '(r, st') := list_add Asp l items2 st in
        s_arr r = length (arrays st)
        /\ (forall a, (a < length (arrays st))%nat -> arr_of st' a = arr_of st a)
        /\ list_items Asp st' r = list_items Asp st l ++ items2
        /\ s_cap r = s_len r)
  /\ (forall fuel x z0 ops v,
        ops_safe (items_of ops) = true ->
        tree_val (py_tree (TVal (VInt z0)) (items_of ops)) = Some v ->
        run Asp [] fuel [chain_prog x z0 ops] = run Py [] fuel [chain_prog x z0 ops])
  /\ (forall (rv : bool) (l r : list keyed),
        asp_sorted rv l = Some r ->
        Permutation r l
        /\ StronglySorted (in_order rv) r
        /\ (forall k, filter (fun x => key_eqb (fst x) k) r = filter (fun x => key_eqb (fst x) k) l))
  /\ (forall (rv : bool) (l r r' : list keyed),
        asp_sorted rv l = Some r ->
        Permutation r' l -> StronglySorted (in_order rv) r' ->
        (forall k, filter (fun x => key_eqb (fst x) k) r' = filter (fun x => key_eqb (fst x) k) l) ->
        r' = r)
  /\ (forall keys rv, same_kind keys = true ->
        exists r, asp_sorted_perm keys rv = Some (map (@snd _ _) r) /\ asp_sorted rv (tag keys) = Some r)
  /\ (forall i j st v st',
        union_translated i j st = Ok (v, st') ->
        v = VDict (length (dicts st)) /\ arrays st' = arrays st
        /\ dicts st' = dicts st ++ [dict_merge_into (dict_merge_into [] (dict_of st i)) (dict_of st j)])
  /\ (forall i j st n st' k x a,
        union_translated i j st = Ok (VDict n, st') -> (a < length (dicts st))%nat ->
        dict_of (dict_store n k x st') a = dict_of st a /\ dict_of (dict_store a k x st') n = dict_of st' n)
  /\ (forall fuel i j st, nodup_keys (dict_of st i) ->
        apply_bin Asp fuel Union (VDict i) (VDict j) st = union_translated i j st)
  /\ (forall fuel (p : prog) ps,
        in_pure2_subset p = true -> pure2_run fuel p = Ok ps ->
        map ostrip_outcome (run Asp [] fuel [p]) = map ostrip_outcome (run Py [] fuel [p])
        /\ map ostrip_outcome (run Asp [] fuel [p]) = [OGlobals (pure2_obs ps) (pure2_obs ps)])
  (* 8. pyRange.Len (/repo 3ce4752): the length the evaluator uses for a range IS the body gotrans regenerates from objects.go,
        and it is the number of items asp's iteration yields for every range whose span fits 64 bits - so the capacity
        interpretList reserves for a comprehension over a range is never negative and never too small *)
  /\ (forall a b c, range_len a b c = Gen.C16Builtins.pyrange_len wrap64 a b c)
  /\ (forall a b c items, range_items Asp a b c = Ok items -> in_int64 (b - a + c - 1) = true ->
        range_len a b c = Z.of_nat (length items))
  (* 9. WHAT IS EVALUATED (follow-up 2). interpretOps with the guards of its mixed-precedence branch TRANSLATED by gotrans from
        interpreter.go (Gen/C16Builtins.interpret_ops_guards: short-circuit first, then the unary case) is the transcribed flat_ops
        for every chain, operand semantics and state - so conjuncts 2-4 speak about the translated source, side effects included
        (the state is threaded through every operand) - and a left operand that decides an and / or in front of tighter operators
        evaluates NOTHING: the chain returns the operand and the state it started in, whatever the skipped operands would do *)
  /\ (forall (X V S : Type) (evalx : X -> S -> res (V * S)) (apply_bin : binop -> V -> V -> S -> res (V * S))
             (apply_un : unop -> V -> S -> res V) (truthy : V -> S -> bool) (ops : list (item X)) (obj : V) (st : S),
        flat_ops_g evalx apply_bin apply_un truthy Gen.C16Builtins.interpret_ops_guards obj ops st =
        flat_ops evalx apply_bin apply_un truthy obj ops st)
  /\ (forall (X V S : Type) (evalx : X -> S -> res (V * S)) (apply_bin : binop -> V -> V -> S -> res (V * S))
             (apply_un : unop -> V -> S -> res V) (truthy : V -> S -> bool) (o : binop) (x : X) (rest : list (item X)) (obj : V) (st : S),
        alazy (KB o) = true -> all_tighter (IBin o x) rest = true -> Bool.eqb (truthy obj st) (binop_eqb o And) = false ->
        flat_ops_g evalx apply_bin apply_un truthy Gen.C16Builtins.interpret_ops_guards obj (IBin o x :: rest) st = Ok (obj, st))
  (* 10. the variables of a comprehension are bound in the scope gotrans reads off interpretJoin / interpretList (cs := s.NewScope(..)):
        for EVERY list of items, filter, element expression and variable name, the optimised 'lit'.join([e for x in l]) returns the
        string AND the scopes of the generic path (interpretList, then strJoin), and both leave every enclosing scope exactly as it was *)
  /\ (forall (V : Type) (elem : @stack V -> str) (cond : @stack V -> bool) (name base : str) (items : list V) (s : stack),
        join_run elem cond Gen.C16Builtins.join_comp_scope name base items s =
        generic_join_run elem cond Gen.C16Builtins.list_comp_scope name base items s
        /\ snd (join_run elem cond Gen.C16Builtins.join_comp_scope name base items s) = s
        /\ snd (list_run elem cond Gen.C16Builtins.list_comp_scope name items s) = s).

Theorem C16_partial : C16_partial_statement.
Proof.
  exact (conj pure_subset_program_agrees (conj chain_unflagged_agrees
        (conj (@chain_class_none_safe vexpr)
        (conj (@groupings_agree vexpr value)
        (conj int_ops_agree (conj list_add_always_fresh (conj int_chain_program_agrees
        (conj asp_sorted_stable (conj asp_sorted_is_the_stable_sort (conj asp_sorted_perm_all_lengths (conj dict_union_always_fresh (conj dict_union_independent (conj union_translated_is_apply_bin (conj pure2_subset_program_agrees (conj range_len_is_source (conj range_len_counts_items (conj interpret_ops_translated (conj lazy_operand_not_evaluated join_comprehension_scoped)))))))))))))))))).
Qed.
Print Assumptions C16_partial.

(* Non-vacuity.  The refuting witnesses compute (every defect class; the second conjunct too): *)
Example C16_refuted_witnesses :
  forallb (fun p => differs FUEL [] p p) witnesses = true
  /\ differs FUEL [(sub_label, w_const_defs)] (sub_call :: w_const_build) (w_const_defs ++ w_const_build) = true.
Proof. vm_compute. split; reflexivity. Qed.

(* ... and the hypotheses of C16_partial are satisfiable by non-trivial chains: 0 or 1 * 2 + 3 < 9 and not 0
   is unflagged, has operators of six precedence levels, and asp and CPython both compute True on it *)
Example C16_partial_nonvacuous :
  let ops := [OBin Or (XInt 1); OBin Mul (XInt 2); OBin Add (XInt 3); OBin C16_Syntax.Lt (XInt 9);
              OBin And (XInt 0); OUn Not] in
  chain_class (items_of ops) = None
  /\ asp_run [] [[SAssign (s "a") (Ex (XInt 0) ops None)]] = [OGlobals [(s "a", OBool true)] [(s "a", OBool true)]]
  /\ py_run [SAssign (s "a") (Ex (XInt 0) ops None)] = OGlobals [(s "a", OBool true)] [(s "a", OBool true)]
  /\ int_safe Mod 7 3 = true /\ int_safe Mul 3037000500 3037000500 = false
  /\ tree_val (py_tree (TVal (VInt 0)) (items_of ops)) = Some (PB true).
Proof. vm_compute. repeat split. Qed.

(* ... and of its main conjunct: the program
       l = [3, 1 + 1, 0]; t = 0
       for x in l:
           if x > 1: t += x * 2
           elif not x: break
           else: t = t - 1
       w = 0 or [1] and (7 if l else 8); m = l + [t]
   is in the fragment, its checked reference run succeeds (t = 10, w = 7, m = [3, 2, 0, 10]) - so both dialects print
   exactly that; and the integer side condition is needed: a = -7 % 3 is in the fragment, its reference run refuses, and
   the two dialects differ on it (w_mod of C16_refuted_witnesses). *)
Definition pure_example : prog :=
  let lit z := Ex (XInt z) [] None in
  let id (n : str) := Ex (XIdent n) [] None in
  [ SAssign (s "l") (Ex (XList [lit 3%Z; Ex (XInt 1%Z) [OBin Add (XInt 1%Z)] None; lit 0%Z]) [] None);
    SAssign (s "t") (lit 0%Z);
    SFor [s "x"] (id (s "l"))
      [SIf (Ex (XIdent (s "x")) [OBin C16_Syntax.Gt (XInt 1%Z)] None)
           [SAug (s "t") (Ex (XIdent (s "x")) [OBin Mul (XInt 2%Z)] None)]
           [(Ex (XIdent (s "x")) [OUn Not] None, [SBreak])]
           [SAssign (s "t") (Ex (XIdent (s "t")) [OBin Sub (XInt 1%Z)] None)]];
    SAssign (s "w") (Ex (XInt 0%Z) [OBin Or (XList [lit 1%Z]); OBin And (XParen (Ex (XInt 7%Z) [] (Some (id (s "l"), lit 8%Z))))] None);
    SAssign (s "m") (Ex (XIdent (s "l")) [OBin Add (XList [id (s "t")])] None) ].

Example C16_partial_pure_nonvacuous :
  in_pure_subset pure_example = true
  /\ (match pure_run FUEL pure_example with
      | Ok ps => pure_obs ps = [(s "l", OList false 0 [OInt 3%Z; OInt 2%Z; OInt 0%Z]); (s "m", OList false 0 [OInt 3%Z; OInt 2%Z; OInt 0%Z; OInt 10%Z]);
                                (s "t", OInt 10%Z); (s "w", OInt 7%Z); (s "x", OInt 0%Z)]
      | _ => False
      end)
  /\ in_pure_subset w_mod = true /\ is_ok (pure_run FUEL w_mod) = false /\ differs FUEL [] w_mod w_mod = true.
Proof. vm_compute. repeat split. Qed.

(* ... and of conjuncts 5 and 6: b.go a.c d.go c.h e.c sorted by extension, reverse=True (keys go c go h c): the model
   returns c.h b.go d.go a.c e.c - CPython's order, the two .go files and the two .c files in input order (a sort that
   sorts ascending and reverses the result returns c.h d.go b.go e.c a.c); and {"a": 1} | {} on a heap holding the two
   dicts is dict 2, after which a store into dict 2 leaves dict 0 as it was. *)
Example C16_partial_sort_union_nonvacuous :
  let keys := [KStr (s "go"); KStr (s "c"); KStr (s "go"); KStr (s "h"); KStr (s "c")] in
  asp_sorted_perm keys true = Some [3; 0; 2; 1; 4]%nat
  /\ map (@snd _ _) (py_sorted true (tag keys)) = [3; 0; 2; 1; 4]%nat
  /\ map (@snd _ _) (rev (go_isort (fun a b => key_less SLt (fst a) (fst b)) (tag keys))) = [3; 2; 0; 4; 1]%nat
  /\ asp_sorted_perm keys false = Some [1; 4; 0; 2; 3]%nat
  /\ (let st := set_dicts [[(s "a", VInt 1%Z)]; []] empty_state in
      match union_translated 0 1 st with
      | Ok (VDict n, st') => n = 2%nat /\ dict_of (dict_store n (s "k") (VInt 9%Z) st') 0 = [(s "a", VInt 1%Z)]
                             /\ dict_of (dict_store n (s "k") (VInt 9%Z) st') 2 = [(s "a", VInt 1%Z); (s "k", VInt 9%Z)]
      | _ => False
      end).
Proof. vm_compute. repeat split. Qed.

(* ... and of conjunct 7, one construct of every step of the enlarged fragment:
       def f(a, b=2): return a + b            x = f(1); y = f(1, b=5)
       def fact(n): (if n <= 1: return 1); return n * fact(n - 1)          z = fact(5)
       l = [i * 2 for i in range(4) if i > 0]; t = 0; for i in range(1, 4): t += i
       m = len(l); r = reversed(l); a = any([0, m]); mx = max(l); so = sorted([3, 1, 2]); u = "-".join([str(i) for i in l])
       d = {"a": 1, "b": 2}; v = d["a"]; w = d.get("c", 7); ks = d.keys(); e = "a" in d
       sp = "a,b".split(","); sw = u.startswith("2-"); up = "ab".upper()
       (third deepening) en = enumerate(so); zp = zip(so, r); it = d.items(); fm = "n=%d%%" % m; fs = "<%s>" % u; sl = l[1:]; ss = u[:-2]
       p, q = sp; du = d | {"b": 9, "c": 3}; sr = sorted([3, 1, 2], reverse=True); t2 = 0; for j, k in enumerate(l): t2 += j * k
   is in the fragment and its checked reference run succeeds with the globals below, so both dialects print them; the
   two dialects' raw outputs DIFFER on it (l has spare capacity 1 in asp), which is why the theorem speaks of ostrip_outcome;
   and the side conditions are needed: `d = {"b": 1, "a": 2}; ks = d.keys()` is in the syntactic fragment, the reference run
   refuses it, and the two dialects differ on it (asp enumerates a dict sorted, CPython in insertion order); likewise
   `l = [1, 2, 3]; e = l[2:1]` (asp raises, CPython yields []). *)
Local Open Scope Z_scope.
Definition pure2_example : prog :=
  let lit z := Ex (XInt z) [] None in
  let id (n : str) := Ex (XIdent n) [] None in
  let ve v := Ex v [] None in
  let pa (e : expr) : option str * expr := (None, e) in
  let st (x : str) := ve (XStr x) in
  [ (* 1. functions *)
    SDef (s "f") [(s "a", None); (s "b", Some (lit 2))] [SReturn (Some (Ex (XIdent (s "a")) [OBin Add (XIdent (s "b"))] None))];
    SAssign (s "x") (ve (XCall (s "f") [pa (lit 1)]));
    SAssign (s "y") (ve (XCall (s "f") [pa (lit 1); (Some (s "b"), lit 5)]));
    SDef (s "fact") [(s "n", None)]
      [SIf (Ex (XIdent (s "n")) [OBin Le (XInt 1)] None) [SReturn (Some (lit 1))] [] [];
       SReturn (Some (Ex (XIdent (s "n")) [OBin Mul (XCall (s "fact") [pa (Ex (XIdent (s "n")) [OBin Sub (XInt 1)] None)])] None))];
    SAssign (s "z") (ve (XCall (s "fact") [pa (lit 5)]));
    (* 2. comprehensions, range *)
    SAssign (s "l") (ve (XComp (Ex (XIdent (s "i")) [OBin Mul (XInt 2)] None) [s "i"] (ve (XCall (s "range") [pa (lit 4)]))
                           (Some (Ex (XIdent (s "i")) [OBin C16_Syntax.Gt (XInt 0)] None))));
    SAssign (s "t") (lit 0);
    SFor [s "i"] (ve (XCall (s "range") [pa (lit 1); pa (lit 4)])) [SAug (s "t") (id (s "i"))];
    (* 3. builtins *)
    SAssign (s "m") (ve (XCall (s "len") [pa (id (s "l"))]));
    SAssign (s "r") (ve (XCall (s "reversed") [pa (id (s "l"))]));
    SAssign (s "a") (ve (XCall (s "any") [pa (ve (XList [lit 0; id (s "m")]))]));
    SAssign (s "mx") (ve (XCall (s "max") [pa (id (s "l"))]));
    SAssign (s "so") (ve (XCall (s "sorted") [pa (ve (XList [lit 3; lit 1; lit 2]))]));
    SAssign (s "u") (ve (XMeth (XStr (s "-")) (s "join") [ve (XComp (ve (XCall (s "str") [pa (id (s "i"))])) [s "i"] (id (s "l")) None)]));
    (* 4. dicts *)
    SAssign (s "d") (ve (XDict [(st (s "a"), lit 1); (st (s "b"), lit 2)]));
    SAssign (s "v") (ve (XIndex (XIdent (s "d")) (st (s "a"))));
    SAssign (s "w") (ve (XMeth (XIdent (s "d")) (s "get") [st (s "c"); lit 7]));
    SAssign (s "ks") (ve (XMeth (XIdent (s "d")) (s "keys") []));
    SAssign (s "e") (Ex (XStr (s "a")) [OBin In (XIdent (s "d"))] None);
    (* 5. string methods *)
    SAssign (s "sp") (ve (XMeth (XStr (s "a,b")) (s "split") [st (s ",")]));
    SAssign (s "sw") (ve (XMeth (XIdent (s "u")) (s "startswith") [st (s "2-")]));
    SAssign (s "up") (ve (XMeth (XStr (s "ab")) (s "upper") []));
    (* 6. third deepening: enumerate, zip, items, % formatting, slices, unpacking, dict |, a keyword argument of a builtin *)
    SAssign (s "en") (ve (XCall (s "enumerate") [pa (id (s "so"))]));
    SAssign (s "zp") (ve (XCall (s "zip") [pa (id (s "so")); pa (id (s "r"))]));
    SAssign (s "it") (ve (XMeth (XIdent (s "d")) (s "items") []));
    SAssign (s "fm") (Ex (XStr (s "n=%d%%")) [OBin Mod (XIdent (s "m"))] None);
    SAssign (s "fs") (Ex (XStr (s "<%s>")) [OBin Mod (XIdent (s "u"))] None);
    SAssign (s "sl") (ve (XSlice (XIdent (s "l")) (Some (lit 1)) None));
    SAssign (s "ss") (ve (XSlice (XIdent (s "u")) None (Some (lit (-2)))));
    SUnpack [s "p"; s "q"] (id (s "sp"));
    SAssign (s "du") (Ex (XIdent (s "d")) [OBin Union (XDict [(st (s "b"), lit 9); (st (s "c"), lit 3)])] None);
    SAssign (s "sr") (ve (XCall (s "sorted") [pa (ve (XList [lit 3; lit 1; lit 2])); (Some (s "reverse"), ve XTrue)]));
    SAssign (s "t2") (lit 0);
    SFor [s "j"; s "k"] (ve (XCall (s "enumerate") [pa (id (s "l"))])) [SAug (s "t2") (Ex (XIdent (s "j")) [OBin Mul (XIdent (s "k"))] None)] ].
Local Close Scope Z_scope.

(* l = [1, 2, 3]; e = l[2:1]: asp raises (interpretSlice wants start <= end), CPython yields [] *)
Definition pure2_badslice : prog :=
  [ SAssign (s "l") (Ex (XList [Ex (XInt 1%Z) [] None; Ex (XInt 2%Z) [] None; Ex (XInt 3%Z) [] None]) [] None);
    SAssign (s "e") (Ex (XSlice (XIdent (s "l")) (Some (Ex (XInt 2%Z) [] None)) (Some (Ex (XInt 1%Z) [] None))) [] None) ].

Definition pure2_unsorted : prog :=
  [ SAssign (s "d") (Ex (XDict [(Ex (XStr (s "b")) [] None, Ex (XInt 1%Z) [] None); (Ex (XStr (s "a")) [] None, Ex (XInt 2%Z) [] None)]) [] None);
    SAssign (s "ks") (Ex (XMeth (XIdent (s "d")) (s "keys") []) [] None) ].

Example C16_partial_pure2_nonvacuous :
  in_pure2_subset pure2_example = true
  /\ (match pure2_run FUEL pure2_example with
      | Ok ps => pure2_obs ps =
          let il (l : list Z) := OList false 0 (map OInt l) in
          [(s "a", OBool true); (s "d", ODict false [(s "a", OInt 1%Z); (s "b", OInt 2%Z)]);
           (s "du", ODict false [(s "a", OInt 1%Z); (s "b", OInt 9%Z); (s "c", OInt 3%Z)]); (s "e", OBool true);
           (s "en", OList false 0 [il [0; 1]; il [1; 2]; il [2; 3]]%Z);
           (s "f", OFunc (s "f")); (s "fact", OFunc (s "fact")); (s "fm", OStr (s "n=3%")); (s "fs", OStr (s "<2-4-6>")); (s "i", OInt 3%Z);
           (s "it", OList false 0 [OList false 0 [OStr (s "a"); OInt 1%Z]; OList false 0 [OStr (s "b"); OInt 2%Z]]);
           (s "j", OInt 2%Z); (s "k", OInt 6%Z);
           (s "ks", OList false 0 [OStr (s "a"); OStr (s "b")]); (s "l", il [2; 4; 6]%Z);
           (s "m", OInt 3%Z); (s "mx", OInt 6%Z); (s "p", OStr (s "a")); (s "q", OStr (s "b")); (s "r", il [6; 4; 2]%Z);
           (s "sl", il [4; 6]%Z); (s "so", il [1; 2; 3]%Z);
           (s "sp", OList false 0 [OStr (s "a"); OStr (s "b")]); (s "sr", il [3; 2; 1]%Z); (s "ss", OStr (s "2-4"));
           (s "sw", OBool true); (s "t", OInt 6%Z); (s "t2", OInt 16%Z);
           (s "u", OStr (s "2-4-6")); (s "up", OStr (s "AB")); (s "v", OInt 1%Z); (s "w", OInt 7%Z); (s "x", OInt 3%Z);
           (s "y", OInt 6%Z); (s "z", OInt 120%Z); (s "zp", OList false 0 [il [1; 6]; il [2; 4]; il [3; 2]]%Z)]
      | _ => False
      end)
  /\ list_eqb outcome_eqb (run Asp [] FUEL [pure2_example]) (run Py [] FUEL [pure2_example]) = false
  /\ in_pure_subset pure2_example = false
  /\ in_pure2_subset pure2_unsorted = true /\ is_ok (pure2_run FUEL pure2_unsorted) = false
  /\ list_eqb outcome_eqb (map ostrip_outcome (run Asp [] FUEL [pure2_unsorted])) (map ostrip_outcome (run Py [] FUEL [pure2_unsorted])) = false
  /\ in_pure2_subset pure2_badslice = true /\ is_ok (pure2_run FUEL pure2_badslice) = false
  /\ list_eqb outcome_eqb (map ostrip_outcome (run Asp [] FUEL [pure2_badslice])) (map ostrip_outcome (run Py [] FUEL [pure2_badslice])) = false.
Proof. vm_compute. repeat split. Qed.

(* ... and of conjunct 8, the two regression scenarios of /repo 3ce4752: l = [x for x in range(3, 2)] is [] and
   m = [x for x in range(1, 3, 3)] is [1] in both dialects and in the reference run (before the fix the asp dialect raised /
   refused); the old formula (Stop - Start) / Step gives -1 and 0 on them. *)
Example C16_partial_range_len_nonvacuous :
  let rng (l : list Z) := Ex (XCall (s "range") (map (fun z => (@None str, Ex (XInt z) [] None)) l)) [] None in
  let p := [SAssign (s "l") (Ex (XComp (Ex (XIdent (s "x")) [] None) [s "x"] (rng [3; 2]%Z) None) [] None);
            SAssign (s "m") (Ex (XComp (Ex (XIdent (s "x")) [] None) [s "x"] (rng [1; 3; 3]%Z) None) [] None)] in
  in_pure2_subset p = true
  /\ (match pure2_run FUEL p with
      | Ok ps => pure2_obs ps = [(s "l", OList false 0 []); (s "m", OList false 0 [OInt 1%Z])]
      | _ => False
      end)
  /\ run Asp [] FUEL [p] = [OGlobals [(s "l", OList false 0 []); (s "m", OList false 0 [OInt 1%Z])] [(s "l", OList false 0 []); (s "m", OList false 0 [OInt 1%Z])]]
  /\ range_len 3 2 1 = 0%Z /\ range_len 1 3 3 = 1%Z /\ Z.quot (2 - 3) 1 = (-1)%Z /\ Z.quot (3 - 1) 3 = 0%Z.
Proof. vm_compute. repeat split. Qed.

(* Follow-up 2, non-vacuity and necessity: with operands that COUNT their evaluations, `0 and <operand> == 1` evaluates nothing under
   the translated guards (as CPython does) and two operands when the short-circuit guard is missing; with cs := s (JSame) the variable
   name = "lib" of the enclosing scope is overwritten by the last item, with the translated scope it is not - the joined string is
   "a.go b.go" either way. *)
Example C16_partial_effects_nonvacuous :
  (flat_ops_g count_evalx count_bin count_un count_truthy [Gen.C16Builtins.GUnary] 0%Z lazy_witness 0%nat = Ok (0%Z, 2%nat)
   /\ flat_ops_g count_evalx count_bin count_un count_truthy Gen.C16Builtins.interpret_ops_guards 0%Z lazy_witness 0%nat = Ok (0%Z, 0%nat)
   /\ py_ops count_evalx count_bin count_un count_truthy 0%Z lazy_witness 0%nat = Ok (0%Z, 0%nat))
  /\ (slookup (s "name") (snd (join_run leak_elem (fun _ => true) Gen.C16Builtins.JSame (s "name") (s " ") [s "a.go"; s "b.go"] leak_stack)) = Some (s "b.go")
      /\ fst (join_run leak_elem (fun _ => true) Gen.C16Builtins.JSame (s "name") (s " ") [s "a.go"; s "b.go"] leak_stack) = s "a.go b.go"
      /\ join_run leak_elem (fun _ => true) Gen.C16Builtins.join_comp_scope (s "name") (s " ") [s "a.go"; s "b.go"] leak_stack = (s "a.go b.go", leak_stack)).
Proof. exact (conj without_short_circuit_guard_operand_is_evaluated same_scope_join_leaks). Qed.
