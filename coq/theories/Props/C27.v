(* C27 - Coverage aggregation does not depend on test completion order.
   This file holds only the statement, the property theorem and its non-vacuity examples. *)
From PlzV Require Import Base.Harness Model.C27 Proof.C27.
From Coq Require Import Permutation.

Definition C27_statement : Prop :=
  (* any completion order of the runs, and any enumeration order of each run's file map *)
  (forall runs runs1 runs', Permutation runs runs1 -> Forall2 (@Permutation _) runs1 runs' ->
     forall f, lookup f (aggregate_all runs) = lookup f (aggregate_all runs'))
  (* merging the same run twice changes nothing *)
  /\ (forall acc r f, lookup f (aggregate (aggregate acc r) r) = lookup f (aggregate acc r))
  /\ (forall runs r f, In r runs -> lookup f (aggregate_all (runs ++ [r])) = lookup f (aggregate_all runs))
  (* every line is reported with the best state any run observed *)
  /\ (forall runs f i, nth i (lookup f (aggregate_all runs)) 0%N = max_over f i runs)
  (* the line merge is a commutative idempotent monoid *)
  /\ (forall a b, merge a b = merge b a)
  /\ (forall a b c, merge (merge a b) c = merge a (merge b c))
  /\ (forall a, merge a a = a)
  /\ (forall a b i, nth i (merge a b) 0%N = N.max (nth i a 0%N) (nth i b 0%N))
  (* labelled runs (a label may repeat: retries of one test): the overall Files never depend on the order *)
  /\ (forall runs runs' f, Permutation runs runs' ->
        lookup f (snd (aggregate_all_t runs)) = lookup f (snd (aggregate_all_t runs')))
  (* with one coverage object per test, the per-test breakdown is order-free and holds what each test reported *)
  /\ (forall runs runs' l, NoDup (map fst runs) -> Permutation runs runs' ->
        tlookup l (fst (aggregate_all_t runs)) = tlookup l (fst (aggregate_all_t runs')))
  /\ (forall runs l v, NoDup (map fst runs) -> In (l, v) runs -> tlookup l (fst (aggregate_all_t runs)) = Some v).

Theorem C27_full : C27_statement.
Proof.
  exact (conj aggregate_order_free_both (conj aggregate_idem (conj aggregate_dup (conj aggregate_best
        (conj merge_comm (conj merge_assoc (conj merge_idem (conj merge_nth
        (conj files_order_free_t (conj tests_order_free tests_exact)))))))))).
Qed.
Print Assumptions C27_full.

(* Non-vacuity: two runs over overlapping files, different lengths, in both orders. *)
Example C27_nonvacuous :
  let r1 := [(s "a.go", [3; 2; 0]); (s "b.go", [2])]%N in
  let r2 := [(s "b.go", [0; 3]); (s "a.go", [2; 3; 2; 1])]%N in
  lookup (s "a.go") (aggregate_all [r1; r2]) = [3; 3; 2; 1]%N
  /\ lookup (s "a.go") (aggregate_all [r2; r1]) = [3; 3; 2; 1]%N
  /\ lookup (s "b.go") (aggregate_all [r2; r1]) = [2; 3]%N.
Proof. vm_compute. repeat split. Qed.

Example C27_nonvacuous_tests :
  let r1 := (s "//p:t1", [(s "a.go", [3; 2; 0])])%N in
  let r2 := (s "//p:t2", [(s "a.go", [2; 3; 2; 1])])%N in
  NoDup (map fst [r1; r2])
  /\ tlookup (s "//p:t1") (fst (aggregate_all_t [r2; r1])) = Some (snd r1)
  /\ lookup (s "a.go") (snd (aggregate_all_t [r2; r1])) = [3; 3; 2; 1]%N.
Proof. cbv zeta. split; [|vm_compute; split; reflexivity]. repeat constructor; cbn; intuition discriminate. Qed.
