(* C27 - Coverage aggregation does not depend on test completion order.
   This file holds only the statement, the property theorem and its non-vacuity examples. *)
From Coq Require Import String.
From PlzV Require Import Base.Harness Model.C27 Proof.C27 Gen.CoverageStates Model.C27_states Proof.C27_states.
From Coq Require Import Permutation.

Definition C27_statement : Prop :=
  (* any completion order of the runs, and any enumeration order of each run's file map *)
  (forall runs runs1 runs', Permutation runs runs1 -> Forall2 (@Permutation _) runs1 runs' ->
     forall f, lookup f (aggregate_all runs) = lookup f (aggregate_all runs'))
  (* merging the same run twice changes nothing *)
  /\ (forall acc r f, lookup f (aggregate (aggregate acc r) r) = lookup f (aggregate acc r))
  /\ (forall runs r f, In r runs -> lookup f (aggregate_all (runs ++ [r])) = lookup f (aggregate_all runs))
  (* every line is reported with the best state any run observed *)
  /\ (forall runs f i, nth i (lookup f (aggregate_all runs)) 0%N = max_over f i runs)
  (* the line merge is a commutative idempotent monoid *)
  /\ (forall a b, merge a b = merge b a)
  /\ (forall a b c, merge (merge a b) c = merge a (merge b c))
  /\ (forall a, merge a a = a)
  /\ (forall a b i, nth i (merge a b) 0%N = N.max (nth i a 0%N) (nth i b 0%N))
  (* labelled runs (a label may repeat: retries of one test): the overall Files never depend on the order *)
  /\ (forall runs runs' f, Permutation runs runs' ->
        lookup f (snd (aggregate_all_t runs)) = lookup f (snd (aggregate_all_t runs')))
  (* with one coverage object per test, the per-test breakdown is order-free and holds what each test reported *)
  /\ (forall runs runs' l, NoDup (map fst runs) -> Permutation runs runs' ->
        tlookup l (fst (aggregate_all_t runs)) = tlookup l (fst (aggregate_all_t runs')))
  /\ (forall runs l v, NoDup (map fst runs) -> In (l, v) runs -> tlookup l (fst (aggregate_all_t runs)) = Some v).

Theorem C27_full : C27_statement.
Proof.
  exact (conj aggregate_order_free_both (conj aggregate_idem (conj aggregate_dup (conj aggregate_best
        (conj merge_comm (conj merge_assoc (conj merge_idem (conj merge_nth
        (conj files_order_free_t (conj tests_order_free tests_exact)))))))))).
Qed.
Print Assumptions C27_full.

(* Non-vacuity: two runs over overlapping files, different lengths, in both orders. *)
Example C27_nonvacuous :
  let r1 := [(s "a.go", [3; 2; 0]); (s "b.go", [2])]%N in
  let r2 := [(s "b.go", [0; 3]); (s "a.go", [2; 3; 2; 1])]%N in
  lookup (s "a.go") (aggregate_all [r1; r2]) = [3; 3; 2; 1]%N
  /\ lookup (s "a.go") (aggregate_all [r2; r1]) = [3; 3; 2; 1]%N
  /\ lookup (s "b.go") (aggregate_all [r2; r1]) = [2; 3]%N.
Proof. vm_compute. repeat split. Qed.

Example C27_nonvacuous_tests :
  let r1 := (s "//p:t1", [(s "a.go", [3; 2; 0])])%N in
  let r2 := (s "//p:t2", [(s "a.go", [2; 3; 2; 1])])%N in
  NoDup (map fst [r1; r2])
  /\ tlookup (s "//p:t1") (fst (aggregate_all_t [r2; r1])) = Some (snd r1)
  /\ lookup (s "a.go") (snd (aggregate_all_t [r2; r1])) = [3; 3; 2; 1]%N.
Proof. cbv zeta. split; [|vm_compute; split; reflexivity]. repeat constructor; cbn; intuition discriminate. Qed.

(* ---- Where the merged coverage lives (Model/C27_states.v): the overall report is BuildState.Coverage, the state
   is copied for every subrepo / architecture, and a flaky target is run several times.  `world0`, the
   statements of Aggregate and `flake_combine` are regenerated from the source (Gen/CoverageStates.v). ---- *)
Definition C27_states_statement : Prop :=
  (* any history: copies of any state made at any time, runs logged on any copy in any order.  Nothing panics
     and EVERY state reports the monoid fold of all the runs logged anywhere *)
  (forall evs, valid 1 evs ->
     exists w, run evs world0 = Some w
               /\ forall st, st < length (w_states w) -> files_of st w = aggregate_all (map snd (logged evs)))
  (* ... and the per-test breakdown that one accumulator nobody copies would hold *)
  /\ (forall evs w, valid 1 evs -> run evs world0 = Some w ->
        forall st, st < length (w_states w) -> tests_of st w = fst (fold_left agg_obj (logged evs) ([], [])))
  (* hence order independence and best state hold for the aliased accumulators too *)
  /\ (forall evs evs' w w', valid 1 evs -> valid 1 evs' -> Permutation (logged evs) (logged evs') ->
        run evs world0 = Some w -> run evs' world0 = Some w' ->
        forall st st' f, st < length (w_states w) -> st' < length (w_states w') ->
          lookup f (files_of st w) = lookup f (files_of st' w'))
  /\ (forall evs w st f i, valid 1 evs -> run evs world0 = Some w -> st < length (w_states w) ->
        nth i (lookup f (files_of st w)) 0%N = max_over f i (map snd (logged evs)))
  (* runs that finish at the same time on whatever copies: every schedule of their loads and stores that the
     lock LogTestResult takes admits, and that lets them all finish, leaves the fold of the runs in the map *)
  /\ (forall jobs sched m0 m' ths',
        crun lock_scope sched m0 (map (fun j => fresh_thread (fst j) (snd j)) jobs) = Some (m', ths') ->
        all_done ths' = true ->
        forall f, lookup f m' = merge (lookup f m0) (contribs f (map snd jobs)))
  (* a flaky target: its coverage is the merge of all the attempts that ran, whichever attempt covered a line *)
  /\ (forall n atts f, lookup f (snd (flake_run flake_combine n atts)) = contribs f (map snd (executed n atts)))
  /\ (forall n atts f i,
        nth i (lookup f (snd (flake_run flake_combine n atts))) 0%N = max_over f i (map snd (executed n atts)))
  /\ (forall n atts n' atts' f, Permutation (executed n atts) (executed n' atts') ->
        lookup f (snd (flake_run flake_combine n atts)) = lookup f (snd (flake_run flake_combine n' atts')))
  (* end to end: logged on whatever copy after whatever history, it reaches every state *)
  /\ (forall evs n atts st0 w st f i,
        valid 1 (evs ++ [ELog st0 (flake_run flake_combine n atts)]) ->
        run (evs ++ [ELog st0 (flake_run flake_combine n atts)]) world0 = Some w -> st < length (w_states w) ->
        nth i (lookup f (files_of st w)) 0%N
        = N.max (max_over f i (map snd (logged evs))) (max_over f i (map snd (executed n atts)))).

Theorem C27_states_full : C27_states_statement.
Proof.
  exact (conj copies_share_files (conj copies_share_tests (conj copies_order_free (conj copies_best
        (conj concurrent_completion_is_fold
        (conj flake_run_files (conj flake_run_best (conj flake_run_order_free flake_reaches_every_state)))))))).
Qed.
Print Assumptions C27_states_full.

(* Non-vacuity: a subrepo state made before any result; a run logged on it and one on the root, both orders;
   a flaky target whose failing first attempt covers what the passing second one does not. *)
Example C27_states_nonvacuous :
  let r1 := ([(s "//p:t1", [(s "a.go", [3; 2; 0])])], [(s "a.go", [3; 2; 0])])%N in
  let r2 := ([(s "///sub//p:t2", [(s "a.go", [2; 3; 2; 1])])], [(s "a.go", [2; 3; 2; 1])])%N in
  valid 1 [ECopy 0; ELog 1 r2; ELog 0 r1]
  /\ option_map (fun w => lookup (s "a.go") (files_of 0 w)) (run [ECopy 0; ELog 1 r2; ELog 0 r1] world0) = Some [3; 3; 2; 1]%N
  /\ option_map (fun w => lookup (s "a.go") (files_of 1 w)) (run [ECopy 0; ELog 0 r1; ELog 1 r2] world0) = Some [3; 3; 2; 1]%N
  /\ option_map (fun w => map fst (tests_of 0 w)) (run [ECopy 0; ELog 1 r2; ELog 0 r1] world0) = Some [s "///sub//p:t2"; s "//p:t1"]
  (* two runs on two copies at the same time: thread 1 may not begin while thread 0 is under way *)
  /\ crun lock_scope [0; 1] [] [fresh_thread 0 (snd r1); fresh_thread 1 (snd r2)] = None
  /\ option_map (fun r => (lookup (s "a.go") (fst r), all_done (snd r)))
        (crun lock_scope [0; 0; 1; 1] [] [fresh_thread 0 (snd r1); fresh_thread 1 (snd r2)]) = Some ([3; 3; 2; 1]%N, true)
  /\ lookup (s "a.go") (snd (flake_run flake_combine 2 [(false, r1); (true, r2)])) = [3; 3; 2; 1]%N
  /\ executed 3 [(false, r1); (true, r2); (true, r1)] = [r1; r2].
Proof. cbv zeta. split; [cbn; repeat constructor|]. repeat split; vm_compute; reflexivity. Qed.
