(* C04 - Each action runs once, and only after its dependencies succeeded.
   The statement is about every run of the scheduler LTS (Model/Sched.v): every interleaving of parse tasks, of the
   queueTargetAsync goroutines, of build-task senders and workers, for every graph, thread count and --keep_going setting.
   This file holds only the statement, the property theorems and their non-vacuity examples. *)
From PlzV Require Import Base.Harness Model.Sched Proof.Sched_Base Proof.Sched_Inv Proof.Sched_Deps Proof.C04.

Definition C04_statement : Prop :=
  forall g s, reachable g s ->
    (* every target's build command starts at most once *)
    (forall t, tstarts t (trace s) <= 1) /\
    (* it starts only after every dependency has reported a successful build *)
    (forall l1 l2 t, trace s = l1 ++ OStart t :: l2 -> forall d, In d (g_deps g t) ->
       exists o, built_kind o = true /\ In (OEnd d (RBuilt o)) l2) /\
    (* and when the invocation has ended, the result stream (what MonitorState and --trace_file receive) holds exactly
       one final result (built / cached / failed) for every target that completed, none for the others *)
    (exited s = true -> forall t, tends t (reported s) = if completed (ts s t) then 1 else 0).

(* The code violates the last part: Run calls CloseResults as soon as the workers are done; results that forwardResults
   has not yet moved from internalResults to the results channel are dropped. Witness: one target, built successfully,
   the run ends before its final result was forwarded. *)
Definition g_w : graph := graph_of [0] [[]] [true] [true] [0] false 1.
Definition ls_w : list label :=
  [LInitRequest; LParseClaim 0; LAddTarget 0 0; LParseOk 0; LInitDone; LAsyncBeginResolve 0; LAsyncBeginWait 0;
   LActivatePending 0; LAsyncDone 0; LSendTask 0; LWorkerTake 0; LBuildStart 0; LForward; LBuildOk 0 Built;
   LFinishBuild 0; LTaskDone 0; LExitRun].
Definition s_w : state := match run g_w (init g_w) ls_w with Some s => s | None => init g_w end.

Lemma s_w_reachable : reachable g_w s_w.
Proof. exists ls_w. unfold s_w. destruct (run g_w (init g_w) ls_w) eqn:E; [reflexivity | vm_compute in E; discriminate]. Qed.

Theorem C04_refuted : ~ C04_statement.
Proof.
  intros H. destruct (H g_w s_w s_w_reachable) as (_ & _ & H3).
  assert (Hx : exited s_w = true) by (vm_compute; reflexivity).
  specialize (H3 Hx 0). vm_compute in H3. discriminate.
Qed.
Print Assumptions C04_refuted.

(* The only defect class: results still in internalResults when the run ended. *)
Definition defect_class (s : state) : option nat :=
  if Nat.ltb (nfwd s) (length (trace s)) then Some 1 (* result-lost-at-shutdown *) else None.

Theorem C04_partial :
  forall g s, reachable g s ->
    (forall t, tstarts t (trace s) <= 1) /\
    (forall l1 l2 t, trace s = l1 ++ OStart t :: l2 -> forall d, In d (g_deps g t) ->
       (exists o, built_kind o = true /\ In (OEnd d (RBuilt o)) l2) /\
       ~ In (OEnd d RFailed) (trace s) /\ ~ In (OEnd d RDepFailed) (trace s)) /\
    (* logged (logResult) exactly once, in every state, not only at the end *)
    (forall t, tends t (trace s) = if completed (ts s t) then 1 else 0) /\
    (* the result stream is the oldest part of the log, without duplicates, and only completed targets have a result *)
    (exists k, reported s = skipn k (trace s)) /\
    (forall t, tends t (reported s) <= 1 /\ tstarts t (reported s) <= 1 /\ (1 <= tends t (reported s) -> completed (ts s t) = true)) /\
    (* whoever FinishBuild has woken sees a final state: built, or at / above DependencyFailed (never the Building of a
       failure path that has not stored Failed yet) *)
    (forall d, fin s d = true ->
       completed (ts s d) = true /\ (is_built (ts s d) = false -> st_geb (ts s d) dep_failed_threshold = true)) /\
    (* outside the defect class the full statement holds *)
    (defect_class s = None -> forall t, tends t (reported s) = if completed (ts s t) then 1 else 0).
Proof.
  intros g s Hr. split; [exact (once g s Hr)|]. split; [exact (after_deps g s Hr)|]. split; [exact (logged_once g s Hr)|].
  split; [exact (reported_prefix s)|]. split; [exact (reported_at_most_once g s Hr)|].
  split; [exact (woken_sees_final g s Hr)|].
  intros Hd t. unfold defect_class in Hd. destruct (Nat.ltb (nfwd s) (length (trace s))) eqn:E; [discriminate|].
  apply PeanoNat.Nat.ltb_ge in E. pose proof (nfwd_le g s Hr).
  rewrite (reported_all_when_drained s) by (apply PeanoNat.Nat.le_antisymm; assumption). exact (logged_once g s Hr t).
Qed.
Print Assumptions C04_partial.

(* Non-vacuity. A diamond with a failing middle target, --keep_going, 4 threads: the run the search finds for an event
   sequence observed on the real plz is a run of the LTS (so `reachable` is inhabited by a state with several starts, a
   failure and a "dependency failed"), the hypotheses of the ordering clause are met with a non-empty dependency list,
   and the defect class is empty on it. *)
Definition g_d : graph := graph_of [0;0;0;0] [[];[0];[0];[1;2]] [true;true;true;true] [true] [3;1] true 4.
Definition ev_d : list ev :=
  [EvStart 0; EvEnd 0 (RBuilt Built); EvStart 1; EvStart 2; EvEnd 2 RFailed; EvEnd 1 (RBuilt Built); EvEnd 3 RDepFailed].
Definition s_d : state :=
  match witness g_d [] ev_d [] 0 with
  | Some ls => match run g_d (init g_d) ls with Some s => s | None => init g_d end
  | None => init g_d
  end.
Example C04_nonvacuous :
  accepts g_d [] ev_d [] true = true /\ reachable g_d s_d /\
  (exists l1 l2, trace s_d = l1 ++ OStart 1 :: l2 /\ g_deps g_d 1 = [0]) /\
  tstarts 0 (trace s_d) = 1 /\ tends 3 (trace s_d) = 1 /\ exited s_d = true /\ defect_class s_d = None.
Proof.
  split; [vm_compute; reflexivity|]. split.
  - unfold s_d. destruct (witness g_d [] ev_d [] 0) as [ls|] eqn:W; [|vm_compute in W; discriminate].
    exists ls. destruct (run g_d (init g_d) ls) eqn:E; [reflexivity|]. exfalso. revert E. 
    assert (Hw : witness g_d [] ev_d [] 0 = Some ls) by exact W. vm_compute in Hw. inversion Hw. subst ls. vm_compute. discriminate.
  - split; [|vm_compute; repeat split; reflexivity].
    exists [OEnd 3 RDepFailed; OEnd 1 (RBuilt Built); OEnd 2 RFailed; OStart 2], [OEnd 0 (RBuilt Built); OStart 0].
    vm_compute. split; reflexivity.
Qed.
Example C04_refuted_nonvacuous : exited s_w = true /\ completed (ts s_w 0) = true /\ tends 0 (trace s_w) = 1 /\ tends 0 (reported s_w) = 0.
Proof. vm_compute. repeat split; reflexivity. Qed.
