(* C01 - Incremental builds produce exactly what a clean build produces.
   Statement, three refutations (directory outputs: the path hash of a directory ignores entry names, and
   moveOutput keeps the old output when the hashes are equal; output_dirs: a target rebuilt after the post-build
   check keeps the outputs of an old metadata file and fails; tools: the source hash carries no path for a tool output), and
   the partial theorems - tools are inside them up to the executable classifier tool_rename_free. *)
(* Proof.Engine_Gen: the record layout / needsBuilding order / cache-key parts regenerated from the source *)
From PlzV Require Import Proof.Engine_Gen.
From PlzV Require Import Base.Harness Model.Engine Model.C01 Proof.Engine Proof.C03 Proof.C01.

(* After any history of edits (each tree followed by `plz build` of any request; rm -rf plz-out at any
   point), the build of the final tree has the same exit class as a build of that tree from an empty
   plz-out, and every target it built has exactly the same outputs (names, contents, exec bits). *)
Definition C01_statement : Prop :=
  forall (h : list hstep) (r : repo) (req : list str),
    wf_history (h ++ [HBuild false r req]) -> cache_free h = true ->
    let incr := plz_build false r req (run_history h empty_store) in
    let clean := plz_build false r req empty_store in
    run_ok incr = run_ok clean
    /\ forall t, In t (r_targets (restrict r req)) -> ~ In (t_label t) (rn_failed clean) ->
       outs_of (rn_st incr) t = outs_of (rn_st clean) t /\ all_outs_of (rn_st incr) t = all_outs_of (rn_st clean) t.

(* Witness: d copies its sources into the directory d_dir; build with srcs = [a.txt] ("x"), rename the
   file to b.txt, build again: plz-out keeps {a.txt}, a clean build has {b.txt}. *)
Theorem C01_refuted : ~ C01_statement.
Proof.
  intros H. specialize (H [HBuild false wit_r1 [s "//p:d"]] wit_r2 [s "//p:d"]).
  assert (Hwf : wf_history ([HBuild false wit_r1 [s "//p:d"]] ++ [HBuild false wit_r2 [s "//p:d"]])).
  { split; [vm_compute; reflexivity|].
    intros t t' [<-|[<-|[]]] [<-|[<-|[]]] E; try reflexivity; vm_compute in E; discriminate E. }
  destruct (H Hwf eq_refl) as [_ Ho].
  specialize (Ho (wit_target [s "b.txt"] (s "k2"))).
  assert (Hin : In (wit_target [s "b.txt"] (s "k2")) (r_targets (restrict wit_r2 [s "//p:d"]))) by (vm_compute; left; reflexivity).
  assert (Hnf : ~ In (t_label (wit_target [s "b.txt"] (s "k2"))) (rn_failed (plz_build false wit_r2 [s "//p:d"] empty_store))) by (vm_compute; tauto).
  destruct (Ho Hin Hnf) as [Ho1 _]. vm_compute in Ho1. discriminate Ho1.
Qed.
Print Assumptions C01_refuted.

(* Second, independent witness (no directory output): t has output_dirs; its declared out is renamed m1 -> m2 (and a
   source added), built, and renamed back.  The third build fails ("failed to create output"), the clean build of
   the same tree succeeds: the exit classes differ. *)
Theorem C01_refuted_output_dirs : ~ C01_statement.
Proof.
  intros H. specialize (H [HBuild false od_rA [s "//p:t"]; HBuild false od_rB [s "//p:t"]] od_rA [s "//p:t"]).
  assert (Hwf : wf_history ([HBuild false od_rA [s "//p:t"]; HBuild false od_rB [s "//p:t"]] ++ [HBuild false od_rA [s "//p:t"]])).
  { split; [vm_compute; reflexivity|].
    intros t t' [<-|[<-|[<-|[]]]] [<-|[<-|[<-|[]]]] E; try reflexivity; vm_compute in E; discriminate E. }
  destruct (H Hwf eq_refl) as [Hok _]. vm_compute in Hok. discriminate Hok.
Qed.
Print Assumptions C01_refuted_output_dirs.

(* Third, independent witness (no directory, no output_dirs): use has tools = [gen] and writes the NAMES of the tool's
   outputs; gen's output is renamed gen.out -> gen2.out with identical content.  sourceHash writes only the content hash
   of a tool output (no path) and the rule hash of use names the label of gen, not its outs: use is skipped as up to
   date and keeps "gen.out", a clean build writes "gen2.out" (finding tool-output-renamed-same-content-user-not-rebuilt,
   reproduced on the real plz by the C01 harness). *)
Theorem C01_refuted_tools : ~ C01_statement.
Proof.
  intros H. specialize (H [HBuild false tw_r1 [s "//p:use"]] tw_r2 [s "//p:use"]).
  assert (Hwf : wf_history ([HBuild false tw_r1 [s "//p:use"]] ++ [HBuild false tw_r2 [s "//p:use"]])).
  { split; [vm_compute; reflexivity|].
    intros t t' [<-|[<-|[<-|[<-|[]]]]] [<-|[<-|[<-|[<-|[]]]]] E; try reflexivity; vm_compute in E; discriminate E. }
  destruct (H Hwf eq_refl) as [_ Ho].
  specialize (Ho tw_use).
  assert (Hin : In tw_use (r_targets (restrict tw_r2 [s "//p:use"]))) by (vm_compute; right; left; reflexivity).
  assert (Hnf : ~ In (t_label tw_use) (rn_failed (plz_build false tw_r2 [s "//p:use"] empty_store))) by (vm_compute; tauto).
  destruct (Ho Hin Hnf) as [Ho1 _]. vm_compute in Ho1. discriminate Ho1.
Qed.
Print Assumptions C01_refuted_tools.

(* Partial 1 (executable classifiers): histories in which no action outputs a directory (defect_class), no filegroup
   links a source DIRECTORY (fg_dir_free: the same defect - the path hash of a directory ignores entry names - reaches
   filegroups of directories; filegroups of directories are inside C01_partial_path_inj and C03_full), no two turns of a
   target whose command reads the NAMES of its tools' outputs have the same rule key and the same source key but different
   tool output paths (executable classifier tool_rename_free = exactly the shape of C01_refuted_tools: a tool output renamed
   with identical content under a user that reads names; TOOLS ARE INSIDE THE THEOREM: tool outputs that change content,
   appear, disappear or are renamed with other content, users that read the content of their tools) and no
   build rebuilt a target with output_dirs after the post-build check (quiet_history: Engine.stale_flow evaluated
   along the history; trivially true without such targets - earlier builds of the history may even have used the
   cache).  The conclusion covers the discovered outputs of output_dirs targets (all_outs_of). *)
Theorem C01_partial :
  forall (h : list hstep) (r : repo) (req : list str),
    wf_history (h ++ [HBuild false r req]) ->
    tool_rename_free (h ++ [HBuild false r req]) = true ->
    (forall t, In t (history_targets (h ++ [HBuild false r req])) -> defect_class t = None) ->
    fg_dir_free (h ++ [HBuild false r req]) = true ->
    quiet_history (h ++ [HBuild false r req]) empty_store = true ->
    let incr := plz_build false r req (run_history h empty_store) in
    let clean := plz_build false r req empty_store in
    run_ok incr = run_ok clean
    /\ rn_failed incr = rn_failed clean
    /\ forall t, In t (r_targets (restrict r req)) -> ~ In (t_label t) (rn_failed clean) ->
       outs_of (rn_st incr) t = outs_of (rn_st clean) t /\ all_outs_of (rn_st incr) t = all_outs_of (rn_st clean) t.
Proof. exact (incremental_is_clean_files false). Qed.
Print Assumptions C01_partial.

(* Partial 2 (path_inj as an explicit hypothesis): for ANY class `good` of trees that contains the source
   files and the source directories linked by filegroups (history_fg_srcs), is closed under the builds of the history (Engine.result) and on which the path-hash stream is injective,
   and any set U of targets on which the rule key is injective: incremental = clean.  This is the theorem that a
   repaired directory hash (C09) would turn into C01_full (up to the output_dirs side condition). *)
Theorem C01_partial_path_inj :
  forall (U : target -> Prop) (good : node -> Prop),
    (forall t t', U t -> U t' -> t_defkey t = t_defkey t' -> t = t') ->
    (forall a b, good a -> good b -> stream a = stream b -> a = b) ->
    (forall c, good (File false c)) ->
    (forall t ins news, U t -> Forall good (map snd ins) -> result t ins = Some news -> Forall good (map snd news)) ->
    forall h r req,
      forallb step_wf (h ++ [HBuild false r req]) = true ->
      tool_rename_free (h ++ [HBuild false r req]) = true ->
      (forall t, In t (history_targets (h ++ [HBuild false r req])) -> U t) ->
      (forall n, In n (history_fg_srcs (h ++ [HBuild false r req])) -> good n) ->
      quiet_history (h ++ [HBuild false r req]) empty_store = true ->
      let incr := plz_build false r req (run_history h empty_store) in
      let clean := plz_build false r req empty_store in
      rn_failed incr = rn_failed clean
      /\ forall t, In t (r_targets (restrict r req)) -> ~ In (t_label t) (rn_failed clean) ->
         outs_of (rn_st incr) t = outs_of (rn_st clean) t /\ all_outs_of (rn_st incr) t = all_outs_of (rn_st clean) t.
Proof.
  intros U good H1 H2 H3 H4 h r req.
  exact (incremental_is_clean_tools U good H1 H2 H3 H4 false h r req).
Qed.
Print Assumptions C01_partial_path_inj.

(* Non-vacuity: a three-step history (build; edit a source and add a dependent target; rm -rf plz-out is
   not needed) satisfies every hypothesis of C01_partial, and the last build is genuinely incremental:
   it runs one of the two commands. *)
Definition nv_a (key : str) : target := mkT (s "//p:a") (s "p") (Genrule Concat) [SFile (s "a.txt")] [s "a.out"] key.
Definition nv_b : target := mkT (s "//p:b") (s "p") (Genrule Concat) [SLabel (s "//p:a"); SFile (s "b.txt")] [s "b.out"] (s "kb").
Definition nv_r1 : repo := mkR [(s "p/a.txt", s "1"); (s "p/b.txt", s "2")] [nv_a (s "ka"); nv_b].
Definition nv_r2 : repo := mkR [(s "p/a.txt", s "1"); (s "p/b.txt", s "3")] [nv_a (s "ka"); nv_b].
Example C01_nonvacuous :
  wf_history ([HBuild false nv_r1 [s "//p:b"]] ++ [HBuild false nv_r2 [s "//p:b"]])
  /\ (forall t, In t (history_targets ([HBuild false nv_r1 [s "//p:b"]] ++ [HBuild false nv_r2 [s "//p:b"]])) -> defect_class t = None)
  /\ fg_dir_free ([HBuild false nv_r1 [s "//p:b"]] ++ [HBuild false nv_r2 [s "//p:b"]]) = true
  /\ tool_rename_free ([HBuild false nv_r1 [s "//p:b"]] ++ [HBuild false nv_r2 [s "//p:b"]]) = true
  /\ quiet_history ([HBuild false nv_r1 [s "//p:b"]] ++ [HBuild false nv_r2 [s "//p:b"]]) empty_store = true
  /\ rn_log (plz_build false nv_r2 [s "//p:b"] (run_history [HBuild false nv_r1 [s "//p:b"]] empty_store)) = [s "//p:b"]
  /\ rn_log (plz_build false nv_r2 [s "//p:b"] empty_store) = [s "//p:b"; s "//p:a"]
  /\ outs_of (rn_st (plz_build false nv_r2 [s "//p:b"] empty_store)) nv_b = [(s "b.out", Some (File false (s "13")))].
Proof.
  split; [split; [vm_compute; reflexivity|]|].
  - intros t t' Ht Ht' E. cbn in Ht, Ht'.
    destruct Ht as [<-|[<-|[<-|[<-|[]]]]], Ht' as [<-|[<-|[<-|[<-|[]]]]]; try reflexivity; vm_compute in E; discriminate E.
  - split; [|vm_compute; repeat split].
    intros t Ht. cbn in Ht. destruct Ht as [<-|[<-|[<-|[<-|[]]]]]; reflexivity.
Qed.

(* Non-vacuity with output_dirs: t copies its sources into _o.  Tree 1: srcs [a.txt]; tree 2: srcs [a.txt, b.txt]
   (the declared out stays m1); tree 3 = tree 2 with b.txt edited; last build: tree 3 unchanged.  All hypotheses of
   C01_partial hold (no build goes through stale_flow), the third build re-runs the command and discovers a.txt and
   b.txt, the last build skips the target after BOTH checks, and its outputs are those of a clean build. *)
Definition nvo_t (srcs : list str) (key : str) : target := mkT (s "//p:t") (s "p") (Genrule OutDir) (map SFile srcs) [s "m1"] key.
Definition nvo_r1 : repo := mkR [(s "p/a.txt", s "A"); (s "p/b.txt", s "B")] [nvo_t [s "a.txt"] (s "k1")].
Definition nvo_r2 : repo := mkR [(s "p/a.txt", s "A"); (s "p/b.txt", s "B")] [nvo_t [s "a.txt"; s "b.txt"] (s "k2")].
Definition nvo_r3 : repo := mkR [(s "p/a.txt", s "A"); (s "p/b.txt", s "B2")] [nvo_t [s "a.txt"; s "b.txt"] (s "k2")].
Definition nvo_h : list hstep := [HBuild false nvo_r1 [s "//p:t"]; HBuild false nvo_r2 [s "//p:t"]; HBuild false nvo_r3 [s "//p:t"]].
Example C01_nonvacuous_output_dirs :
  wf_history (nvo_h ++ [HBuild false nvo_r3 [s "//p:t"]])
  /\ (forall t, In t (history_targets (nvo_h ++ [HBuild false nvo_r3 [s "//p:t"]])) -> defect_class t = None)
  /\ fg_dir_free (nvo_h ++ [HBuild false nvo_r3 [s "//p:t"]]) = true
  /\ tool_rename_free (nvo_h ++ [HBuild false nvo_r3 [s "//p:t"]]) = true
  /\ quiet_history (nvo_h ++ [HBuild false nvo_r3 [s "//p:t"]]) empty_store = true
  /\ rn_log (plz_build false nvo_r3 [s "//p:t"] (run_history nvo_h empty_store)) = []
  /\ all_outs_of (rn_st (plz_build false nvo_r3 [s "//p:t"] (run_history nvo_h empty_store))) (nvo_t [s "a.txt"; s "b.txt"] (s "k2"))
     = [(s "a.txt", Some (File false (s "A"))); (s "b.txt", Some (File false (s "B2"))); (s "m1", Some (File false fixed))].
Proof.
  split; [split; [vm_compute; reflexivity|]|].
  - intros t t' Ht Ht' E. cbn in Ht, Ht'.
    destruct Ht as [<-|[<-|[<-|[<-|[]]]]], Ht' as [<-|[<-|[<-|[<-|[]]]]]; try reflexivity; vm_compute in E; discriminate E.
  - split; [|vm_compute; repeat split].
    intros t Ht. cbn in Ht. destruct Ht as [<-|[<-|[<-|[<-|[]]]]]; reflexivity.
Qed.

(* Non-vacuity with TOOLS (the shapes of the tools witness minus the rename-with-identical-content).  gen is a tool of
   use (ToolNames: writes the names of the tool's outputs) and of cat (UseTool: cat $TOOLS $SRCS).  Tree 1: gen writes "tool"
   to gen.out.  Tree 2: gen's output is renamed gen.out -> gen2.out WITH other content ("tool2") and a second output gen3.out
   appears.  Tree 3: gen3.out disappears.  Last build: tree 3 with cat's source edited.  Every hypothesis of C01_partial
   holds (tool_rename_free included); the last build is genuinely incremental - gen and use are skipped, cat re-runs - and use
   has the names a clean build writes. *)
Definition nt_gen (outs : list str) (arg key : str) : target := mkT (s "//p:gen") (s "p") (Genrule (Const arg)) [] outs key.
Definition nt_cat : target := mkT (s "//p:cat") (s "p") (Genrule UseTool) [SFile (s "u.txt"); STool (s "//p:gen")] [s "cat.out"] (s "kc").
Definition nt_r1 : repo := mkR [(s "p/u.txt", s "u")] [nt_gen [s "gen.out"] (s "tool") (s "k1"); tw_use; nt_cat].
Definition nt_r2 : repo := mkR [(s "p/u.txt", s "u")] [nt_gen [s "gen2.out"; s "gen3.out"] (s "tool2") (s "k2"); tw_use; nt_cat].
Definition nt_r3 (u : str) : repo := mkR [(s "p/u.txt", u)] [nt_gen [s "gen2.out"] (s "tool2") (s "k3"); tw_use; nt_cat].
Definition nt_req : list str := [s "//p:use"; s "//p:cat"].
Definition nt_h : list hstep := [HBuild false nt_r1 nt_req; HBuild false nt_r2 nt_req; HBuild false (nt_r3 (s "u")) nt_req].
Example C01_nonvacuous_tools :
  wf_history (nt_h ++ [HBuild false (nt_r3 (s "v")) nt_req])
  /\ (forall t, In t (history_targets (nt_h ++ [HBuild false (nt_r3 (s "v")) nt_req])) -> defect_class t = None)
  /\ fg_dir_free (nt_h ++ [HBuild false (nt_r3 (s "v")) nt_req]) = true
  /\ tool_rename_free (nt_h ++ [HBuild false (nt_r3 (s "v")) nt_req]) = true
  /\ quiet_history (nt_h ++ [HBuild false (nt_r3 (s "v")) nt_req]) empty_store = true
  /\ length (history_turns (nt_h ++ [HBuild false (nt_r3 (s "v")) nt_req]) empty_store) = 4
  /\ rn_log (plz_build false (nt_r3 (s "v")) nt_req (run_history nt_h empty_store)) = [s "//p:cat"]
  /\ rn_log (plz_build false (nt_r3 (s "v")) nt_req empty_store) = [s "//p:cat"; s "//p:use"; s "//p:gen"]
  /\ outs_of (rn_st (plz_build false (nt_r3 (s "v")) nt_req (run_history nt_h empty_store))) tw_use
     = [(s "use.out", Some (File false (s "gen2.out" ++ nl)))]
  /\ outs_of (rn_st (plz_build false (nt_r3 (s "v")) nt_req (run_history nt_h empty_store))) nt_cat
     = [(s "cat.out", Some (File false (s "tool2" ++ nl ++ s "v")))].
Proof.
  split; [split; [vm_compute; reflexivity|]|].
  - intros t t' Ht Ht' E. cbn in Ht, Ht'.
    repeat (destruct Ht as [<-|Ht]); try contradiction; repeat (destruct Ht' as [<-|Ht']); try contradiction;
      try reflexivity; vm_compute in E; discriminate E.
  - split; [|vm_compute; repeat split].
    intros t Ht. cbn in Ht. repeat (destruct Ht as [<-|Ht]); try contradiction; reflexivity.
Qed.

(* ... and the classifier is needed and is narrow: it rejects exactly the refutation witness C01_refuted_tools (gen.out renamed
   gen2.out with IDENTICAL content under the user that writes names), whose other hypotheses all hold *)
Example C01_tools_classifier_rejects_witness :
  tool_rename_free ([HBuild false tw_r1 [s "//p:use"]] ++ [HBuild false tw_r2 [s "//p:use"]]) = false
  /\ forallb step_wf ([HBuild false tw_r1 [s "//p:use"]] ++ [HBuild false tw_r2 [s "//p:use"]]) = true
  /\ fg_dir_free ([HBuild false tw_r1 [s "//p:use"]] ++ [HBuild false tw_r2 [s "//p:use"]]) = true
  /\ quiet_history ([HBuild false tw_r1 [s "//p:use"]] ++ [HBuild false tw_r2 [s "//p:use"]]) empty_store = true.
Proof. vm_compute. repeat split. Qed.

(* ------------------------------------------------------------------------------------------ *)
(* follow-up of the seeded changes C01/r2-m1..m3, C02/r2-m1: the statements below are about definitions that follow what gotrans
   REGENERATES from the source (Gen/EngineRecord.v: read_record_loop, fg_same_file_acts, hasher_nil_mark, hasher_read_guard) *)
From PlzV Require Model.C01Ext Proof.C01Ext.

(* readRuleHashFromXattrs: a target is trusted only when EVERY one of its outputs carries the record - for every store and
   every list of outputs.  (The Trust invariant of C01_partial reads the record through this.) *)
Theorem C01_record_all_outputs : forall (st : store) (rels : list str) (rk : rkey),
  common_rec st rels = Some rk <-> (rels <> [] /\ forall rel, In rel rels -> rec_at st rel = Some rk).
Proof. exact C01Ext.record_read_exact. Qed.
Print Assumptions C01_record_all_outputs.

(* Non-vacuity: outputs shared ACROSS targets over time.  g (outs a.out, b.out) is built; the BUILD file is edited: g is gone and h
   (outs b.out) is built; the BUILD file is reverted.  g's record still sits on a.out, h's on b.out: g is rebuilt and has the
   outputs of a clean build. *)
Definition to_g : target := mkT (s "//p:g") (s "p") (Genrule (Const (s "from-g"))) [SFile (s "x.txt")] [s "a.out"; s "b.out"] (s "kg").
Definition to_h : target := mkT (s "//p:h") (s "p") (Genrule (Const (s "from-h"))) [SFile (s "x.txt")] [s "b.out"] (s "kh").
Definition to_r1 : repo := mkR [(s "p/x.txt", s "x")] [to_g].
Definition to_r2 : repo := mkR [(s "p/x.txt", s "x")] [to_h].
Definition to_hist : list hstep := [HBuild false to_r1 [s "//p:g"]; HBuild false to_r2 [s "//p:h"]].
Example C01_takeover_rebuilt :
  rn_log (plz_build false to_r1 [s "//p:g"] (run_history to_hist empty_store)) = [s "//p:g"]
  /\ outs_of (rn_st (plz_build false to_r1 [s "//p:g"] (run_history to_hist empty_store))) to_g
     = outs_of (rn_st (plz_build false to_r1 [s "//p:g"] empty_store)) to_g
  /\ rec_at (run_history to_hist empty_store) (s "p/a.out") <> rec_at (run_history to_hist empty_store) (s "p/b.out")
  /\ rec_at (run_history to_hist empty_store) (s "p/b.out") <> None.
Proof. vm_compute. repeat split; discriminate. Qed.

(* the inode level (Model/C01Ext.v): a filegroup output that is a hard link to the user's file, a genrule behind it, the file
   renamed (the inode keeps its xattr) and read directly by a second genrule.  For EVERY history of edits in place, replacements,
   renames, rm -rf plz-out and builds in fresh processes, a command runs exactly when the content of the file it reads is not
   the one of the previous build or plz-out was deleted since: no hash memoised on an inode is ever taken for the content. *)
Theorem C01_inode_exact : forall (c0 : str) (evs : list C01Ext.event),
  C01Ext.irun C01Ext.gen_flags (C01Ext.iinit c0) evs = C01Ext.ispec c0 None None None evs.
Proof. exact C01Ext.ino_runs_exact. Qed.
Print Assumptions C01_inode_exact.

Example C01_inode_nonvacuous :
  C01Ext.irun C01Ext.gen_flags (C01Ext.iinit (s "one"))
    [C01Ext.Build; C01Ext.Build; C01Ext.EditA (s "two"); C01Ext.Build; C01Ext.EditA (s "three"); C01Ext.Build;
     C01Ext.RenameAB (s "new"); C01Ext.Build; C01Ext.EditB (s "four"); C01Ext.Build; C01Ext.EditA (s "new"); C01Ext.Build]
  = [(true, None); (false, None); (true, None); (true, None); (true, Some true); (false, Some true); (false, Some false)].
Proof. vm_compute. reflexivity. Qed.

(* each regenerated statement is needed: without CopyHash on the same-file way out, without the nil mark, without the plz-out
   guard a command that must run is skipped (the histories of the seeded changes) *)
Example C01_inode_flags_needed :
  C01Ext.irun (C01Ext.mkF false true true true true) (C01Ext.iinit (s "one"))
     [C01Ext.Build; C01Ext.EditA (s "two"); C01Ext.Build; C01Ext.EditA (s "three"); C01Ext.Build] = [(true, None); (true, None); (false, None)]
  /\ C01Ext.irun (C01Ext.mkF true false false true true) (C01Ext.iinit (s "one"))
     [C01Ext.Build; C01Ext.Build; C01Ext.EditA (s "two"); C01Ext.Build] = [(true, None); (false, None); (false, None)]
  /\ C01Ext.irun (C01Ext.mkF true true true false true) (C01Ext.iinit (s "one"))
     [C01Ext.Build; C01Ext.RenameAB (s "new"); C01Ext.Build; C01Ext.EditB (s "three"); C01Ext.Build]
     = [(true, None); (true, Some true); (false, Some false)].
Proof. vm_compute. repeat split. Qed.
