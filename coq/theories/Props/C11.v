(* C11 - Test results are reused only when the test's runtime inputs are unchanged.
   This file holds only the statement, the property theorems and their non-vacuity examples. *)
From Coq Require Import Permutation.
From PlzV Require Import Base.Harness Gen.C11RuntimeHash Model.C11 Proof.C11 Proof.C11_Cmd Proof.C11_Perm.

(* For every cache setting, every history h of invocations `plz test [-c config] L [-- args]` on successive
   tree states (with or without deleting plz-out before an invocation) and every position n of it, where x is
   the n-th step and `reports` lists what the successive invocations report for the target:
   1. a cached result is reported only by an invocation WITHOUT test arguments, and only if an earlier
      invocation of the history actually RAN the test, that run PASSED, it was given NO test arguments, and it
      had the current runtime inputs: the same EFFECTIVE test
      command (the one of the build config active in that invocation) and the same test directory (test
      binary, data files, runtime files - destinations, kinds and contents);
   2. the reported pass/fail outcome equals the outcome of running the test on the current tree with the
      current arguments, i.e. of a fresh run of the same invocation (so a failing result is never reused). *)
Definition C11_statement : Prop :=
  forall (cache_on : bool) (h : list step) (n : nat) (x : step),
    nth_error h n = Some x ->
    (nth_error (reports cache_on h) n = Some CachedPass ->
       exists i y, i < n /\ nth_error h i = Some y /\ nth_error (reports cache_on h) i = Some RanPass
                   /\ same_inputs (s_def y) (s_def x) /\ s_args y = [] /\ s_args x = [])
    /\ (exists r, nth_error (reports cache_on h) n = Some r /\ passed r = step_outcome x).

(* The code violates it: RuntimeHash digests the CONTENT of every runtime file but writes neither its name
   nor its destination (Gen.C11RuntimeHash.loop_writes = [WPathHash], read off the source), so renaming the
   output of a data dependency leaves the key unchanged.  Witness: Proof.C11.w_rename.  (The former second
   witness - needToRun ignored the test arguments - was repaired in /repo by bdc0c8a; see C11_args_regression.) *)
Theorem C11_refuted : ~ C11_statement.
Proof. exact refuted_by_rename. Qed.
Print Assumptions C11_refuted.

(* The strongest statement the code allows: the full property on every history in which the executable
   classifier finds no pair of steps with equal runtime key and different runtime inputs. *)
Theorem C11_partial :
  forall (cache_on : bool) (h : list step), defect_class h = None ->
  forall (n : nat) (x : step),
    nth_error h n = Some x ->
    (nth_error (reports cache_on h) n = Some CachedPass ->
       exists i y, i < n /\ nth_error h i = Some y /\ nth_error (reports cache_on h) i = Some RanPass
                   /\ same_inputs (s_def y) (s_def x) /\ s_args y = [] /\ s_args x = [])
    /\ (exists r, nth_error (reports cache_on h) n = Some r /\ passed r = step_outcome x).
Proof. exact partial_by_position. Qed.
Print Assumptions C11_partial.

(* Unconditionally, for ALL histories: results of failing runs and of runs with test arguments are never
   stored or reused, and an invocation with test arguments never reuses.  A cached result is only reported by
   an argument-less invocation and always comes from an earlier invocation that ran the test, passed, was
   given no test arguments and had an equal runtime KEY; a reported failure (pass) is the failure (pass) of
   a run of this invocation on the current tree; and whatever the results file or the cache hold after any
   history was put there by an argument-less run that passed. *)
Theorem C11_no_failure_cached :
  (forall (cache_on : bool) (h : list step) (n : nat) (x : step),
     nth_error h n = Some x ->
     (nth_error (reports cache_on h) n = Some CachedPass ->
        exists i y, i < n /\ nth_error h i = Some y /\ nth_error (reports cache_on h) i = Some RanPass
                    /\ outcome (s_def y) = true /\ runtime_key (s_def y) = runtime_key (s_def x) /\ s_args y = []
                    /\ s_args x = [])
     /\ (nth_error (reports cache_on h) n = Some RanFail -> step_outcome x = false)
     /\ (nth_error (reports cache_on h) n = Some RanPass -> step_outcome x = true))
  /\ (forall (cache_on : bool) (h : list step) (k : key),
        st_local (state_after cache_on h) = Some k \/ In k (st_cache (state_after cache_on h)) ->
        exists i y, nth_error h i = Some y /\ nth_error (reports cache_on h) i = Some RanPass
                    /\ outcome (s_def y) = true /\ runtime_key (s_def y) = k /\ s_args y = []).
Proof. exact (conj no_failure_cached_by_position stored_only_passes). Qed.
Print Assumptions C11_no_failure_cached.

(* For ALL histories h and every further step x that is given test arguments: that step is never reported as
   cached (it always runs), the cache holds no key after it that it did not hold before, and no results file
   is left behind.  Depends on the leading guards of needToRun and on the order of the guards of
   cacheOutputFiles as read off the source (Gen.need_to_run_guards, Gen.store_steps). *)
Theorem C11_args_never_stored :
  forall (cache_on : bool) (h : list step) (x : step),
    s_args x <> [] ->
    nth_error (reports cache_on (h ++ [x])) (length h) <> Some CachedPass
    /\ (forall k, In k (st_cache (state_after cache_on (h ++ [x]))) -> In k (st_cache (state_after cache_on h)))
    /\ st_local (state_after cache_on (h ++ [x])) = None.
Proof. exact args_run_never_stored. Qed.
Print Assumptions C11_args_never_stored.

(* test_cmd given per build config.  (1) getCommand does not depend on the order in which Go iterates the
   dict.  (2) Only the ACTIVE config's command matters: two histories of any length that differ, step by
   step, only in the commands of configs other than the one active in that step give the same reports and
   leave the same stored state.  (3) The active one must invalidate: a reused result always comes from an
   earlier passing, argument-less run whose effective command text equals the current effective command text
   (the rest of the rule being unchanged).  (2),(3) depend on Gen.get_command_order / Gen.rule_test_writes. *)
Theorem C11_effective_command :
  (forall cfg l l', Permutation l l' -> NoDup (map fst l) ->
     get_command cfg (PerConfig l) = get_command cfg (PerConfig l'))
  /\ (forall (cache_on : bool) (h h' : list step),
        Forall2 (fun x x' => x = x' \/ inactive_edit x x') h h' ->
        reports cache_on h = reports cache_on h' /\ state_after cache_on h = state_after cache_on h')
  /\ (forall (cache_on : bool) (pre : list step) (x : step),
        report_at cache_on pre x = CachedPass ->
        exists pre1 y post1, pre = pre1 ++ y :: post1 /\ report_at cache_on pre1 y = RanPass /\ s_args y = [] /\
          (ts_rule (s_src y) = ts_rule (s_src x) ->
           fst (get_command (resolve_config (s_config y)) (ts_cmds (s_src y)))
           = fst (get_command (resolve_config (s_config x)) (ts_cmds (s_src x))))).
Proof. exact (conj get_command_perm (conj inactive_config_edits_invisible reuse_has_effective_text)). Qed.
Print Assumptions C11_effective_command.

(* The build cache (the part of the state that decides between needToRun's two paths): for ALL histories, a
   test binary is fetched from the directory cache (target state Cached: needToRun consults the result cache,
   not the results file) only if an earlier invocation of this history ran the build command for the same
   rule and sources; and with a directory cache the build command never runs twice for one build key. *)
Theorem C11_build_cache :
  (forall (cache_on : bool) (pre : list step) (x : step),
     fetched cache_on (pre_state cache_on pre x) (s_def x) = true -> built_by cache_on pre (t_build (s_def x)))
  /\ (forall (pre : list step) (x : step),
        builds true (pre_state true pre x) (s_def x) = true -> ~ built_by true pre (t_build (s_def x))).
Proof. exact (conj fetched_only_what_was_built built_once_with_cache). Qed.
Print Assumptions C11_build_cache.

(* Which content belongs to which runtime file.  RuntimeHash writes content digests only, so the POSITION of a
   digest in the combining hash is all that ties a content to its file; gotrans reads off RuntimeHash how the
   digests are combined (Gen.files_combine: in the order IterRuntimeFiles yields the files, or sorted first).
   (1) For ALL histories and positions: a cached result comes from an earlier passing, argument-less run in
   which every position of the (de-duplicated) runtime file list held the content stream it holds now.
   (2) Permutation edits: if the runtime files of t' are those of t with their nodes PERMUTED (swap the
   contents of two data files, rotate three, swap the outputs of two data dependencies) and some position gets
   another content, the runtime key changes.  (3) For ALL histories of any length: a step whose test directory
   is such a permutation of the test directory of every earlier step is never reported as cached.  (4) The
   classifier never reports the class ContentsPermuted (equal key, same command and destinations, another
   content at some position).  All four fail when the digests are sorted before they are combined. *)
Theorem C11_content_permutation :
  (forall (cache_on : bool) (h : list step) (n : nat) (x : step),
     nth_error h n = Some x ->
     nth_error (reports cache_on h) n = Some CachedPass ->
     exists i y, i < n /\ nth_error h i = Some y /\ nth_error (reports cache_on h) i = Some RanPass
                 /\ s_args y = [] /\ assignment (s_def y) = assignment (s_def x))
  /\ (forall (t t' : tdef) (ns : list node),
        Permutation ns (map rf_node (runtime_files (t_files t))) ->
        runtime_files (t_files t') = with_nodes (runtime_files (t_files t)) ns ->
        map path_stream ns <> assignment t ->
        runtime_key t' <> runtime_key t)
  /\ (forall (cache_on : bool) (pre : list step) (x : step),
        (forall y, In y pre -> permutation_of (s_def y) (s_def x)) ->
        report_at cache_on pre x <> CachedPass)
  /\ (forall h : list step, defect_class h <> Some ContentsPermuted).
Proof.
  exact (conj cached_assignment_by_position
        (conj permuted_contents_change_key (conj permutation_edit_never_reuses no_contents_permuted))).
Qed.
Print Assumptions C11_content_permutation.

(* Non-vacuity of C11_content_permutation: data = [a.txt; b.txt], the test passes iff p/a.txt holds "ok"; the
   contents of the two files are swapped - the second step is a permutation of the first in the sense of (2)/(3),
   it runs and fails, and the classifier finds nothing. *)
Example C11_swap_reruns :
  (forall c, reports c w_swap = [RanPass; RanFail] /\ defect_class w_swap = None)
  /\ permutation_of (s_def (nth 0 w_swap (plain (mk TTrue [])))) (s_def (nth 1 w_swap (plain (mk TTrue [])))).
Proof. exact (conj w_swap_reruns w_swap_is_permutation). Qed.

(* Regression example for the repaired defect run-with-arguments-reuses-argumentless-result: `plz test L`
   then `plz test L -- bad` - the second invocation runs and fails, and the classifier finds nothing. *)
Example C11_args_regression :
  forall c, reports c w_args = [RanPass; RanFail] /\ defect_class w_args = None.
Proof. exact w_args_not_reused. Qed.

(* The two known defect classes, as the classifier names them, each with a stale cached pass. *)
Example C11_witness_rename :
  forall c, exists pre x, w_rename = pre ++ [x] /\ report_at c pre x = CachedPass /\ step_outcome x = false
                          /\ defect_class w_rename = Some RuntimeFileNamesNotHashed.
Proof. exact w_rename_stale. Qed.

Example C11_witness_dir :
  forall c, exists pre x, w_dir = pre ++ [x] /\ report_at c pre x = CachedPass /\ step_outcome x = false
                          /\ defect_class w_dir = Some DirEntryNamesNotHashed.
Proof. exact w_dir_stale. Qed.

(* Non-vacuity of C11_partial and C11_no_failure_cached: a history with a pass, a data edit that makes the
   test fail, the failing run repeated, the data restored (the cache answers), plz-out deleted - the
   classifier finds no defect and the reports are non-trivial. *)
Definition nv_def (content : str) : tsrc :=
  {| ts_rule := [s "//p:t"; s "s.txt"; s "t.bin"; s "cat"; s "a.txt"];
     ts_cmds := Single (s "grep ok") (TPassIf (s "ok"));
     ts_files := [ {| rf_role := ROut; rf_dest := s "t.bin"; rf_node := File (s "bin") |};
                   {| rf_role := RData; rf_dest := s "p/a.txt"; rf_node := File content |} ];
     ts_bin := s "bin"; ts_build := [s "//p:t"; s "s.txt"; s "bin"; s "t.bin"; s "cat"] |}.
Definition nv_step (rm : bool) (content : str) : step :=
  {| s_rm := rm; s_config := []; s_args := []; s_src := nv_def content |}.
Definition nv_hist : list step :=
  [ nv_step false (s "ok"); nv_step false (s "ok"); nv_step false (s "no"); nv_step false (s "no");
    nv_step false (s "ok"); nv_step true (s "ok") ].

Example C11_nonvacuous :
  defect_class nv_hist = None
  /\ reports true nv_hist = [RanPass; CachedPass; RanFail; RanFail; CachedPass; CachedPass]
  /\ reports false nv_hist = [RanPass; CachedPass; RanFail; RanFail; RanPass; RanPass].
Proof. vm_compute. repeat split. Qed.

(* Non-vacuity with test arguments and a per-config test command.  The test passes iff its first argument is
   "good": `-- good` runs and passes but stores nothing (the next identical invocation runs again), the plain
   invocation runs and fails; no defect is classified.  Then a dict: the dbg command is
   edited while opt is active (still cached), the opt command is edited (runs again, fails), `-c dbg` picks
   the dbg command. *)
Definition nv_arg (a : list str) : step :=
  {| s_rm := false; s_config := []; s_args := a;
     s_src := {| ts_rule := [s "//p:t"; s "s.txt"; s "t.bin"; s "cat"]; ts_cmds := Single (s "sh -c") (TArgIs (s "good"));
                 ts_files := [ {| rf_role := ROut; rf_dest := s "t.bin"; rf_node := File (s "bin") |} ]; ts_bin := s "bin";
                 ts_build := [s "//p:t"; s "s.txt"; s "bin"; s "t.bin"; s "cat"] |} |}.
Definition nv_args_hist : list step := [ nv_arg [s "good"]; nv_arg [s "good"]; nv_arg []; nv_arg [s "bad"] ].

Definition nv_dict (cfg : str) (opt dbg : str) : step :=
  {| s_rm := false; s_config := cfg; s_args := [];
     s_src := with_cmds (nv_def (s "ok")) (PerConfig [ (s "opt", (opt, TPassIf opt)); (s "dbg", (dbg, TPassIf dbg)) ]) |}.
Definition nv_dict_hist : list step :=
  [ nv_dict [] (s "ok") (s "yes"); nv_dict [] (s "ok") (s "nope"); nv_dict [] (s "no") (s "nope");
    nv_dict (s "dbg") (s "no") (s "ok"); nv_dict [] (s "ok") (s "zzz") ].

Example C11_nonvacuous_args_and_configs :
  defect_class nv_args_hist = None
  /\ reports true nv_args_hist = [RanPass; RanPass; RanFail; RanFail]
  /\ st_cache (state_after true nv_args_hist) = []
  /\ defect_class nv_dict_hist = None
  /\ reports false nv_dict_hist = [RanPass; CachedPass; RanFail; RanPass; CachedPass]
  /\ inactive_edit (nv_dict [] (s "ok") (s "yes")) (nv_dict [] (s "ok") (s "nope")).
Proof.
  split; [vm_compute; reflexivity|]. split; [vm_compute; reflexivity|]. split; [vm_compute; reflexivity|].
  split; [vm_compute; reflexivity|]. split; [vm_compute; reflexivity|].
  split; [reflexivity|]. split; [reflexivity|]. split; [reflexivity|].
  exists (nv_def (s "ok")), [ (s "opt", (s "ok", TPassIf (s "ok"))); (s "dbg", (s "yes", TPassIf (s "yes"))) ],
         [ (s "opt", (s "ok", TPassIf (s "ok"))); (s "dbg", (s "nope", TPassIf (s "nope"))) ], (s "ok", TPassIf (s "ok")).
  split; [reflexivity|]. split; [reflexivity|]. split; vm_compute; reflexivity.
Qed.

(* Non-vacuity of C11_build_cache: with a cache, rm -rf plz-out makes the last step of nv_hist fetch the binary
   (so it consults the result cache), and the first step builds. *)
Example C11_nonvacuous_build_cache :
  fetched true (pre_state true (removelast nv_hist) (nv_step true (s "ok"))) (s_def (nv_step true (s "ok"))) = true
  /\ builds true (pre_state true [] (nv_step false (s "ok"))) (s_def (nv_step false (s "ok"))) = true.
Proof. vm_compute. split; reflexivity. Qed.
