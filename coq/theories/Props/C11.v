(* C11 - Test results are reused only when the test's runtime inputs are unchanged.
   This file holds only the statement, the property theorems and their non-vacuity examples. *)
From PlzV Require Import Base.Harness Gen.C11RuntimeHash Model.C11 Proof.C11.

(* For every cache setting, every history h of tree states (with or without deleting plz-out before an
   invocation) and every position n of it, where x is the n-th step and `reports` lists what the successive
   `plz test` invocations report for the target:
   1. a cached result is reported only if an earlier invocation of the history actually RAN the test, that
      run PASSED, and it had the current runtime inputs: the same test command and the same test directory
      (test binary, data files, runtime files - destinations, kinds and contents);
   2. the reported pass/fail outcome equals the outcome of running the test on the current tree, i.e. of a
      fresh `plz test` (so in particular a failing result is never reused). *)
Definition C11_statement : Prop :=
  forall (cache_on : bool) (h : list step) (n : nat) (x : step),
    nth_error h n = Some x ->
    (nth_error (reports cache_on h) n = Some CachedPass ->
       exists i y, i < n /\ nth_error h i = Some y /\ nth_error (reports cache_on h) i = Some RanPass
                   /\ same_inputs (s_def y) (s_def x))
    /\ (exists r, nth_error (reports cache_on h) n = Some r /\ passed r = outcome (s_def x)).

(* The code violates it: RuntimeHash digests the CONTENT of every runtime file but writes neither its name
   nor its destination (Gen.C11RuntimeHash.loop_writes = [WPathHash], read off the source), so renaming the
   output of a data dependency leaves the key unchanged.  Witness: Proof.C11.w_rename. *)
Theorem C11_refuted : ~ C11_statement.
Proof. exact refuted_by_rename. Qed.
Print Assumptions C11_refuted.

(* The strongest statement the code allows: the full property on every history in which the executable
   classifier finds no pair of tree states with equal runtime key and different runtime inputs. *)
Theorem C11_partial :
  forall (cache_on : bool) (h : list step), defect_class h = None ->
  forall (n : nat) (x : step),
    nth_error h n = Some x ->
    (nth_error (reports cache_on h) n = Some CachedPass ->
       exists i y, i < n /\ nth_error h i = Some y /\ nth_error (reports cache_on h) i = Some RanPass
                   /\ same_inputs (s_def y) (s_def x))
    /\ (exists r, nth_error (reports cache_on h) n = Some r /\ passed r = outcome (s_def x)).
Proof. exact partial_by_position. Qed.
Print Assumptions C11_partial.

(* Unconditionally, for ALL histories: results of failing runs are never stored or reused.  A cached result
   always comes from an earlier invocation that ran the test, passed, and had an equal runtime KEY; a
   reported failure (pass) is the failure (pass) of a run on the current tree; and whatever the results file
   or the cache hold after any history was put there by a run that passed. *)
Theorem C11_no_failure_cached :
  (forall (cache_on : bool) (h : list step) (n : nat) (x : step),
     nth_error h n = Some x ->
     (nth_error (reports cache_on h) n = Some CachedPass ->
        exists i y, i < n /\ nth_error h i = Some y /\ nth_error (reports cache_on h) i = Some RanPass
                    /\ outcome (s_def y) = true /\ runtime_key (s_def y) = runtime_key (s_def x))
     /\ (nth_error (reports cache_on h) n = Some RanFail -> outcome (s_def x) = false)
     /\ (nth_error (reports cache_on h) n = Some RanPass -> outcome (s_def x) = true))
  /\ (forall (cache_on : bool) (h : list step) (k : key),
        st_local (state_after cache_on h) = Some k \/ In k (st_cache (state_after cache_on h)) ->
        exists i y, nth_error h i = Some y /\ nth_error (reports cache_on h) i = Some RanPass
                    /\ outcome (s_def y) = true /\ runtime_key (s_def y) = k).
Proof. exact (conj no_failure_cached_by_position stored_only_passes). Qed.
Print Assumptions C11_no_failure_cached.

(* The two known defect classes, as the classifier names them, each with a stale cached pass. *)
Example C11_witness_rename :
  forall c, exists pre x, w_rename = pre ++ [x] /\ report_at c pre x = CachedPass /\ outcome (s_def x) = false
                          /\ defect_class w_rename = Some RuntimeFileNamesNotHashed.
Proof. exact w_rename_stale. Qed.

Example C11_witness_dir :
  forall c, exists pre x, w_dir = pre ++ [x] /\ report_at c pre x = CachedPass /\ outcome (s_def x) = false
                          /\ defect_class w_dir = Some DirEntryNamesNotHashed.
Proof. exact w_dir_stale. Qed.

(* Non-vacuity of C11_partial and C11_no_failure_cached: a history with a pass, a data edit that makes the
   test fail, the failing run repeated, the data restored (the cache answers), plz-out deleted - the
   classifier finds no defect and the reports are non-trivial. *)
Definition nv_def (content : str) : tdef :=
  {| t_rule := [s "//p:t"; s "s.txt"; s "t.bin"; s "cat"; s "a.txt"; s "grep ok"];
     t_cmd := TPassIf (s "ok");
     t_files := [ {| rf_role := ROut; rf_dest := s "t.bin"; rf_node := File (s "bin") |};
                  {| rf_role := RData; rf_dest := s "p/a.txt"; rf_node := File content |} ];
     t_bin := s "bin" |}.
Definition nv_hist : list step :=
  [ {| s_rm := false; s_def := nv_def (s "ok") |}; {| s_rm := false; s_def := nv_def (s "ok") |};
    {| s_rm := false; s_def := nv_def (s "no") |}; {| s_rm := false; s_def := nv_def (s "no") |};
    {| s_rm := false; s_def := nv_def (s "ok") |}; {| s_rm := true; s_def := nv_def (s "ok") |} ].

Example C11_nonvacuous :
  defect_class nv_hist = None
  /\ reports true nv_hist = [RanPass; CachedPass; RanFail; RanFail; CachedPass; CachedPass]
  /\ reports false nv_hist = [RanPass; CachedPass; RanFail; RanFail; RanPass; RanPass].
Proof. vm_compute. repeat split. Qed.
