(* C13 - Remote and command caches store complete artifacts or nothing.
   This file holds only the statement, the property theorems and their non-vacuity examples. *)
From PlzV Require Import Base.Harness Gen.C13Exits Model.C13 Proof.C13 Proof.C13_Vanish Proof.C13_Seq.
Local Open Scope N_scope.

(* For every output directory `root` and every list of declared outputs (files, symlinks,
   directory trees, and outputs that are missing, unarchivable or fail while being read - at any
   position), whose paths are distinct:  *)
Definition C13_statement : Prop :=
  forall (root : str) (files : list tree), NoDup (map fst (all_expected files)) ->
  (* HTTP. A store in which an output cannot be read, or whose PUT does not reach the server
     completely, leaves the server as it was: no entry is left. *)
  (forall server put_ok, all_healthy files && put_ok = false -> http_store server files put_ok = server)
  (* HTTP. Whatever faults hit the store and the retrieve, a retrieve of the key (from an empty
     server, into an empty output directory) is a miss, or a hit after a store in which every
     output was read and that restored every output exactly. *)
  /\ (forall put_ok g, safe files (http_retrieve root (http_store None files put_ok) g []))
  (* HTTP. A response body that ends before the end of the archive, and a non-200 status, are misses. *)
  /\ (forall b k, http_store None files true = Some b -> k < bytes b ->
        fst (http_retrieve root (Some b) (GetCut k) []) = false)
  /\ (forall sv, fst (http_retrieve root sv GetStatus []) = false)
  (* Command cache. Whatever prefix of its input the store command kept under the key (all of
     it, a part - the command failed or was killed partway - or nothing), and whatever prefix of
     the entry the retrieve command emitted with whatever exit status: miss or complete hit. *)
  /\ (forall commit rcut exit_ok, safe files (cmd_retrieve root (cmd_store None files commit) rcut exit_ok []))
  (* Command cache. A retrieve command that exits non-zero, or whose output ends before the end
     of the archive, is a miss. *)
  /\ (forall sv rcut, fst (cmd_retrieve root sv rcut false []) = false)
  /\ (forall commit b k, cmd_store None files commit = Some b -> k < bytes (cmd_sent files) ->
        fst (cmd_retrieve root (Some b) (Some k) true []) = false).

(* The command cache breaks it: after a read error cmd_cache.go's write cancels the command but
   its deferred tw.Close() still appends the end-of-archive marker and the deferred w.Close() ends
   the command's stdin cleanly; cancel() kills only `sh`.  A store command whose work is done by
   a child process (`cat > f`, any pipeline) therefore keeps a well-formed archive without the
   unreadable output and everything after it, and a later retrieve is a hit. *)
Theorem C13_refuted : ~ C13_statement.
Proof.
  intro H. destruct cmd_witness as (Hhit & Hunhealthy & _ & Hnd).
  destruct (H (s "o") witness_files Hnd) as (_ & _ & _ & _ & Hcmd & _).
  destruct (Hcmd (Some 2048) None true) as [Hmiss|[Hh _]].
  - rewrite Hhit in Hmiss. discriminate.
  - rewrite Hunhealthy in Hh. discriminate.
Qed.
Print Assumptions C13_refuted.

(* Everything else holds: the whole statement with the command-cache clause restricted to the
   complement of that one defect class (an output could not be read AND no member was half
   written AND the store command kept every byte it was sent). *)
Definition C13_partial_statement : Prop :=
  forall (root : str) (files : list tree), NoDup (map fst (all_expected files)) ->
  (forall server put_ok, all_healthy files && put_ok = false -> http_store server files put_ok = server)
  /\ (forall put_ok g, safe files (http_retrieve root (http_store None files put_ok) g []))
  /\ (forall b k, http_store None files true = Some b -> k < bytes b ->
        fst (http_retrieve root (Some b) (GetCut k) []) = false)
  /\ (forall sv, fst (http_retrieve root sv GetStatus []) = false)
  /\ (forall commit rcut exit_ok, cmd_defect files commit = false ->
        safe files (cmd_retrieve root (cmd_store None files commit) rcut exit_ok []))
  (* in particular for every store command that keeps nothing when it is killed *)
  /\ (forall commit rcut exit_ok, (all_healthy files = false -> commit = None) ->
        safe files (cmd_retrieve root (cmd_store None files commit) rcut exit_ok []))
  /\ (forall sv rcut, fst (cmd_retrieve root sv rcut false []) = false)
  /\ (forall commit b k, cmd_store None files commit = Some b -> k < bytes (cmd_sent files) ->
        fst (cmd_retrieve root (Some b) (Some k) true []) = false).

Theorem C13_partial : C13_partial_statement.
Proof.
  exact (fun root files Hnd =>
    conj (http_failed_store_leaves_nothing files)
   (conj (http_all_or_nothing root files Hnd)
   (conj (http_short_response_is_miss root files)
   (conj (http_bad_status_is_miss root)
   (conj (cmd_all_or_nothing_but_defect root files Hnd)
   (conj (cmd_atomic_store_command_safe root files Hnd)
   (conj (cmd_failed_command_is_miss root)
         (cmd_short_output_is_miss root files)))))))).
Qed.
Print Assumptions C13_partial.

(* What a failed retrieve leaves behind (it is reported as a miss, the files stay): the members of
   a prefix of the stream received, each complete, and possibly a short copy of the regular
   file being received; and the stream received through a cut transfer is a prefix of the
   members sent followed by nothing, part of a block, or part of the next regular file. *)
Theorem C13_leftover :
  (forall root st clean disk, exists pre rest, st = pre ++ rest /\
     (snd (read_tar root st clean disk) = rev (nodes pre) ++ disk
      \/ exists n sz c rest', rest = CReg n sz c :: rest' /\ len c <> sz /\
           snd (read_tar root st clean disk) = (n, NFile c) :: rev (nodes pre) ++ disk))
  /\ (forall st k, exists pre rest, st = pre ++ rest /\
     (cut k st = pre \/ cut k st = pre ++ [CPartial]
      \/ exists n sz c rest' j, rest = CReg n sz c :: rest' /\ cut k st = pre ++ [CReg n sz (take j c)])).
Proof. exact (conj read_tar_leftover cut_shape). Qed.
Print Assumptions C13_leftover.

(* An entry that vanishes DURING the store.  Number the nodes of the declared outputs in the order
   fs.Walk visits them (a directory, then its children by name, depth first, through the whole
   list); `vanish_list files i` is `files` with node i - a declared output, or an entry at any
   depth inside a directory output that was listed with its directory - gone when the archive
   writer reaches it.  For ALL intact output lists and EVERY such position: the writer emits
   exactly the i members in front of it and reports the error; the HTTP store leaves the server
   as it was and every retrieve of the key is a miss; the command cache sends its store command
   exactly those i members followed by the end-of-archive marker, so the defect class of
   C13_refuted is met exactly by the store commands that keep all of that short archive, and a
   store command that publishes nothing when killed gives a miss. *)
Theorem C13_vanish :
  forall (files : list tree) (i : nat), all_healthy files = true -> (i < size_list files)%nat ->
    write (vanish_list files i) = (firstn i (fst (write files)), false)
    /\ (forall server put_ok, http_store server (vanish_list files i) put_ok = server)
    /\ (forall root put_ok g, http_retrieve root (http_store None (vanish_list files i) put_ok) g [] = (false, []))
    /\ cmd_sent (vanish_list files i) = firstn i (fst (write files)) ++ footer
    /\ (forall commit, cmd_defect (vanish_list files i) commit =
          match commit with Some k => bytes (firstn i (fst (write files)) ++ footer) <=? k | None => false end)
    /\ (forall root rcut exit_ok,
          cmd_retrieve root (cmd_store None (vanish_list files i) None) rcut exit_ok [] = (false, [])).
Proof.
  exact (fun files i Hh Hi =>
    conj (vanish_write files i Hh Hi)
   (conj (fun server put_ok => http_vanish_leaves_nothing files i server put_ok Hh Hi)
   (conj (fun root put_ok g => http_vanish_is_miss root files i put_ok g Hh Hi)
   (conj (cmd_vanish_sent files i Hh Hi)
   (conj (fun commit => cmd_vanish_defect files i commit Hh Hi)
         (fun root rcut exit_ok => cmd_vanish_atomic_is_miss root files i rcut exit_ok Hh Hi)))))).
Qed.
Print Assumptions C13_vanish.

(* Why the walk has to halt on such an entry (what C13_vanish rests on is regenerated from
   src/fs/walk.go: fs.WalkMode gives godirwalk no ErrorCallback).  With an ErrorCallback that
   skips entries which no longer exist, for every directory output, every entry position in it
   and all intact siblings: the writer produces, and reports as a success, the complete archive
   of the directory WITHOUT the vanished entry - although an output could not be read. *)
Theorem C13_walk_must_halt :
  forall n m l1 l2, forallb healthy (l1 ++ l2) = true ->
    write_a WSkipEnoent [TDir n (l1 ++ TMissing m :: l2)] = write [TDir n (l1 ++ l2)]
    /\ snd (write [TDir n (l1 ++ l2)]) = true
    /\ all_healthy [TDir n (l1 ++ TMissing m :: l2)] = false.
Proof. exact skip_enoent_publishes. Qed.
Print Assumptions C13_walk_must_halt.

(* ---- follow-up 2 ---- *)

(* The cancel of a store in which an output could not be read, against the creation of the store
   process (cmdCache.Store starts the archive writer first; `sched`: the cancel comes before or
   after the process exists).  For ALL output lists and BOTH orders: the store command did not run
   to its end (it never ran, or was killed); a store command that publishes only when it ran to its
   end (tmp + mv by sh itself) leaves the store as it was, and a later retrieve is a miss or a
   complete hit.  The last clause is why the kill switch must be the context (regenerated from
   cmdCache.Store): with a guarded cmd.Process.Kill(), for every list whose first output cannot be
   read before anything was written, the dropped cancel lets such a command publish the bare
   end-of-archive marker, and the retrieve is a hit that restores nothing. *)
Theorem C13_cancel :
  (forall files sc, all_healthy files = false -> cmd_fate files sc = NeverRan \/ cmd_fate files sc = Killed)
  /\ (forall files sc store, all_healthy files = false -> cmd_store_atomic store files sc = store)
  /\ (forall root files, NoDup (map fst (all_expected files)) ->
        forall sc rcut exit_ok, safe files (cmd_retrieve root (cmd_store_atomic None files sc) rcut exit_ok []))
  /\ (forall files, fst (write files) = [] -> all_healthy files = false ->
        cmd_store_atomic_k KProcessIfStarted None files CancelBeforeStart = Some footer
        /\ forall root, cmd_retrieve root (Some footer) None true [] = (true, [])).
Proof.
  exact (conj cmd_fate_after_fault
        (conj cmd_store_atomic_fault_leaves_nothing
        (conj cmd_atomic_all_or_nothing kill_guard_publishes_empty_archive))).
Qed.
Print Assumptions C13_cancel.

(* Retrieves into an output directory that already holds ANYTHING (`disk` is arbitrary: stale
   links, files left by an earlier failed retrieve, ...): all-or-nothing as in C13_partial, and an
   occupied path of a symlink output - occupied by whatever - makes every retrieve a miss. *)
Theorem C13_into :
  forall (root : str) (files : list tree), NoDup (map fst (all_expected files)) ->
  (forall put_ok g disk, safe files (http_retrieve root (http_store None files put_ok) g disk))
  /\ (forall commit rcut exit_ok disk, cmd_defect files commit = false ->
        safe files (cmd_retrieve root (cmd_store None files commit) rcut exit_ok disk))
  /\ (forall n t disk, In (n, NLink t) (all_expected files) -> mem n disk = true ->
        (forall g, fst (http_retrieve root (http_store None files true) g disk) = false)
        /\ (forall k rcut exit_ok, fst (cmd_retrieve root (cmd_store None files (Some k)) rcut exit_ok disk) = false
                                    \/ all_healthy files = false)).
Proof.
  exact (fun root files Hnd =>
    conj (http_into_all_or_nothing root files Hnd)
   (conj (cmd_into_all_or_nothing root files Hnd)
         (fun n t disk => occupied_symlink_path_is_miss root files n t disk))).
Qed.
Print Assumptions C13_into.

(* The multiplexer (cache.go) over ANY list of HTTP and command caches, for every target whose
   outputs `ref` are plain files and links: after ANY history of build+Store / emptying the output
   directory / Retrieve - each Retrieve with any fault in each cache, each Store (also the
   back-fill after a hit) with any transport outcome - every cache holds nothing, the complete
   archive of `ref` (HTTP) or a byte prefix of it (command cache), and a Retrieve is a miss or
   restored every output exactly. *)
Theorem C13_mplex :
  forall (root : str) (ref : list tree), flat ref = true -> NoDup (map fst (all_expected ref)) ->
  forall kinds ops rfs sfs,
    let s := mexec root ref (map (fun k => (k, None)) kinds, []) ops in
    let r := mstep root ref s (ORetrieve rfs sfs) in
    Inv ref (fst (fst r)) /\ (snd r = Some true -> restored (snd (fst r)) ref).
Proof. exact mplex_history_safe. Qed.
Print Assumptions C13_mplex.

(* ---- non-vacuity ---- *)
Definition ex_files : list tree :=
  [TFile (s "o/a.txt") (s "aaa");
   TDir (s "o/d") [TFile (s "o/d/x") (rep 700 120); TLink (s "o/d/z") (s "x")]].

(* a complete store followed by an intact retrieve IS a hit restoring everything (so `safe` is not
   satisfied only by misses), through both caches; cutting the transfer inside the last block
   turns it into a miss; a read fault in the middle leaves nothing on the HTTP server *)
Example C13_partial_nonvacuous :
  NoDup (map fst (all_expected ex_files))
  /\ (let r := http_retrieve (s "o") (http_store None ex_files true) GetOk [] in
      fst r = true /\ lookup (s "o/d/x") (snd r) = Some (NFile (rep 700 120)) /\ lookup (s "o/d/z") (snd r) = Some (NLink (s "x")))
  /\ (let r := cmd_retrieve (s "o") (cmd_store None ex_files (Some 99999)) None true [] in
      fst r = true /\ lookup (s "o/a.txt") (snd r) = Some (NFile (s "aaa")))
  /\ bytes (cmd_sent ex_files) = 4608
  /\ fst (http_retrieve (s "o") (http_store None ex_files true) (GetCut 4607) []) = false
  /\ fst (http_retrieve (s "o") (http_store None ex_files true) (GetCut 4608) []) = true
  /\ http_store None witness_files true = None
  /\ cmd_defect ex_files (Some 99999) = false
  /\ cmd_defect witness_files (Some 1024) = false
  /\ fst (cmd_retrieve (s "o") (cmd_store None witness_files (Some 1024)) None true []) = false.
Proof.
  vm_compute. repeat split; try reflexivity.
  repeat constructor; cbn; intuition discriminate.
Qed.

(* the refutation's witness: hypotheses of the statement hold for it (distinct paths), the
   defect classifier flags exactly it, and the stream the store command was sent ends with the
   end-of-archive marker although b.txt could not be read *)
Example C13_refuted_nonvacuous :
  NoDup (map fst (all_expected witness_files))
  /\ cmd_defect witness_files (Some 2048) = true
  /\ cmd_sent witness_files = [CReg (s "o/a.txt") 1 (s "a"); CZero; CZero]
  /\ fst (cmd_retrieve (s "o") (cmd_store None witness_files (Some 2048)) None true []) = true.
Proof.
  vm_compute. repeat split; try reflexivity.
  repeat constructor; cbn; intuition discriminate.
Qed.

(* a retrieve cut inside a file leaves a short copy of that file, and is a miss *)
Example C13_leftover_nonvacuous :
  http_retrieve (s "o") (http_store None ex_files true) (GetCut 2148) []
  = (false, [(s "o/d/x", NFile (rep 100 120)); (s "o/d", NDir); (s "o/a.txt", NFile (s "aaa"))]).
Proof. vm_compute. reflexivity. Qed.

(* walk positions of ex_files: 0 o/a.txt, 1 o/d, 2 o/d/x, 3 o/d/z.  Position 2 is inside the
   directory output: the writer stops after o/a.txt and o/d; nothing reaches the HTTP server; the
   command cache's store command is sent those two members and the end marker (2560 bytes), and
   one that keeps them gives a hit without o/d/x and o/d/z (the defect class). *)
Example C13_vanish_nonvacuous :
  all_healthy ex_files = true /\ size_list ex_files = 4%nat
  /\ vanish_list ex_files 2 =
       [TFile (s "o/a.txt") (s "aaa"); TDir (s "o/d") [TMissing (s "o/d/x"); TLink (s "o/d/z") (s "x")]]
  /\ names (fst (write (vanish_list ex_files 2))) = [s "o/a.txt"; s "o/d"]
  /\ http_store None (vanish_list ex_files 2) true = None
  /\ bytes (cmd_sent (vanish_list ex_files 2)) = 2560
  /\ cmd_defect (vanish_list ex_files 2) (Some 2560) = true
  /\ (let r := cmd_retrieve (s "o") (cmd_store None (vanish_list ex_files 2) (Some 2560)) None true [] in
      fst r = true /\ lookup (s "o/d/z") (snd r) = None).
Proof. vm_compute. repeat split; reflexivity. Qed.

(* the skipping walk on the same input: a well-formed archive of everything but o/d/x, which a
   retrieve unpacks as a hit - o/d/z (behind the vanished entry) is there, o/d/x is not *)
Example C13_walk_must_halt_nonvacuous :
  let '(st, ok) := write_a WSkipEnoent (vanish_list ex_files 2) in
  ok = true /\ names st = [s "o/a.txt"; s "o/d"; s "o/d/z"]
  /\ (let r := read_tar (s "o") (st ++ footer) true [] in
      fst r = true /\ lookup (s "o/d/x") (snd r) = None /\ lookup (s "o/d/z") (snd r) = Some (NLink (s "x"))).
Proof. vm_compute. repeat split; reflexivity. Qed.

(* ---- non-vacuity, follow-up 2 ---- *)
Example C13_cancel_nonvacuous :
  let f := [TMissing (s "o/a.txt"); TFile (s "o/b.txt") (s "bb")] in
  all_healthy f = false /\ fst (write f) = []
  /\ cmd_fate f CancelBeforeStart = NeverRan /\ cmd_fate f CancelAfterStart = Killed
  /\ cmd_fate witness_files CancelBeforeStart = Killed
  /\ cmd_fate ex_files CancelBeforeStart = RanToEnd
  /\ fst (cmd_retrieve (s "o") (cmd_store_atomic None ex_files CancelBeforeStart) None true []) = true
  /\ cmd_store_atomic None f CancelBeforeStart = None
  /\ cmd_store_atomic_k KProcessIfStarted None f CancelBeforeStart = Some footer.
Proof. vm_compute. repeat split; reflexivity. Qed.

Definition into_files : list tree := [TFile (s "o/lib.so.2") (rep 600 76); TLink (s "o/lib.so") (s "lib.so.2")].
Example C13_into_nonvacuous :
  NoDup (map fst (all_expected into_files))
  (* over a stale copy of the regular file: a hit that restored everything *)
  /\ (let r := http_retrieve (s "o") (http_store None into_files true) GetOk [(s "o/lib.so.2", NFile (s "stale"))] in
       fst r = true /\ lookup (s "o/lib.so.2") (snd r) = Some (NFile (rep 600 76)) /\ lookup (s "o/lib.so") (snd r) = Some (NLink (s "lib.so.2")))
  (* over a stale link / an empty file at the link's path: a miss *)
  /\ fst (http_retrieve (s "o") (http_store None into_files true) GetOk [(s "o/lib.so", NLink (s "lib.so.1"))]) = false
  /\ fst (cmd_retrieve (s "o") (cmd_store None into_files (Some 99999)) None true [(s "o/lib.so", NFile [])]) = false
  /\ mem (s "o/lib.so") [(s "o/lib.so", NFile [])] = true.
Proof.
  vm_compute. repeat split; try reflexivity.
  repeat constructor; cbn; intuition discriminate.
Qed.

(* the history of the seeded demonstration: HTTP has the entry, the command cache refused it; a
   retrieve cut inside the last file is a miss that leaves the file short and stores NOTHING; the
   next retrieve is a complete hit.  With back-fill on a total miss the same history ends in a hit
   with the short file (backfill_on_total_miss_breaks). *)
Example C13_mplex_nonvacuous :
  flat bf_ref = true /\ NoDup (map fst (all_expected bf_ref))
  /\ (let s1 := mexec (s "o") bf_ref ([(KHttp, None); (KCmd, None)], []) [OBuild [Some 0; None]; OWipe] in
       fst s1 = bf_state
       /\ (let r := mstep (s "o") bf_ref s1 (ORetrieve bf_cut [Some 0; Some 99999]) in
            snd r = Some false /\ fst (fst r) = bf_state /\ lookup (s "o/b.txt") (snd (fst r)) = Some (NFile (rep 164 98))
            /\ (let r2 := mstep (s "o") bf_ref (fst (fst r), []) (ORetrieve [] []) in
                 snd r2 = Some true /\ lookup (s "o/b.txt") (snd (fst r2)) = Some (NFile (rep 700 98)))))
  /\ (let '(h1, st1, d1) := mplex_retrieve_b true (s "o") (map name_of bf_ref) bf_state bf_cut [Some 0; Some 99999] [] in
       let '(h2, st2, d2) := mplex_retrieve_b true (s "o") (map name_of bf_ref) st1 [] [] [] in
       h1 = false /\ h2 = true /\ lookup (s "o/b.txt") d2 = Some (NFile (rep 164 98))).
Proof.
  vm_compute. repeat split; try reflexivity.
  repeat constructor; cbn; intuition discriminate.
Qed.

