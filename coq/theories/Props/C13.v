(* C13 - Remote and command caches store complete artifacts or nothing.
   This file holds only the statement, the property theorems and their non-vacuity examples. *)
From PlzV Require Import Base.Harness Gen.C13Exits Model.C13 Proof.C13.
Local Open Scope N_scope.

(* For every output directory `root` and every list of declared outputs (files, symlinks,
   directory trees, and outputs that are missing, unarchivable or fail while being read - at any
   position), whose paths are distinct:  *)
Definition C13_statement : Prop :=
  forall (root : str) (files : list tree), NoDup (map fst (all_expected files)) ->
  (* HTTP. A store in which an output cannot be read, or whose PUT does not reach the server
     completely, leaves the server as it was: no entry is left. *)
  (forall server put_ok, all_healthy files && put_ok = false -> http_store server files put_ok = server)
  (* HTTP. Whatever faults hit the store and the retrieve, a retrieve of the key (from an empty
     server, into an empty output directory) is a miss, or a hit after a store in which every
     output was read and that restored every output exactly. *)
  /\ (forall put_ok g, safe files (http_retrieve root (http_store None files put_ok) g []))
  (* HTTP. A response body that ends before the end of the archive, and a non-200 status, are misses. *)
  /\ (forall b k, http_store None files true = Some b -> k < bytes b ->
        fst (http_retrieve root (Some b) (GetCut k) []) = false)
  /\ (forall sv, fst (http_retrieve root sv GetStatus []) = false)
  (* Command cache. Whatever prefix of its input the store command kept under the key (all of
     it, a part - the command failed or was killed partway - or nothing), and whatever prefix of
     the entry the retrieve command emitted with whatever exit status: miss or complete hit. *)
  /\ (forall commit rcut exit_ok, safe files (cmd_retrieve root (cmd_store None files commit) rcut exit_ok []))
  (* Command cache. A retrieve command that exits non-zero, or whose output ends before the end
     of the archive, is a miss. *)
  /\ (forall sv rcut, fst (cmd_retrieve root sv rcut false []) = false)
  /\ (forall commit b k, cmd_store None files commit = Some b -> k < bytes (cmd_sent files) ->
        fst (cmd_retrieve root (Some b) (Some k) true []) = false).

(* The command cache breaks it: after a read error cmd_cache.go's write cancels the command but
   its deferred tw.Close() still appends the end-of-archive marker and the deferred w.Close() ends
   the command's stdin cleanly; cancel() kills only `sh`.  A store command whose work is done by
   a child process (`cat > f`, any pipeline) therefore keeps a well-formed archive without the
   unreadable output and everything after it, and a later retrieve is a hit. *)
Theorem C13_refuted : ~ C13_statement.
Proof.
  intro H. destruct cmd_witness as (Hhit & Hunhealthy & _ & Hnd).
  destruct (H (s "o") witness_files Hnd) as (_ & _ & _ & _ & Hcmd & _).
  destruct (Hcmd (Some 2048) None true) as [Hmiss|[Hh _]].
  - rewrite Hhit in Hmiss. discriminate.
  - rewrite Hunhealthy in Hh. discriminate.
Qed.
Print Assumptions C13_refuted.

(* Everything else holds: the whole statement with the command-cache clause restricted to the
   complement of that one defect class (an output could not be read AND no member was half
   written AND the store command kept every byte it was sent). *)
Definition C13_partial_statement : Prop :=
  forall (root : str) (files : list tree), NoDup (map fst (all_expected files)) ->
  (forall server put_ok, all_healthy files && put_ok = false -> http_store server files put_ok = server)
  /\ (forall put_ok g, safe files (http_retrieve root (http_store None files put_ok) g []))
  /\ (forall b k, http_store None files true = Some b -> k < bytes b ->
        fst (http_retrieve root (Some b) (GetCut k) []) = false)
  /\ (forall sv, fst (http_retrieve root sv GetStatus []) = false)
  /\ (forall commit rcut exit_ok, cmd_defect files commit = false ->
        safe files (cmd_retrieve root (cmd_store None files commit) rcut exit_ok []))
  (* in particular for every store command that keeps nothing when it is killed *)
  /\ (forall commit rcut exit_ok, (all_healthy files = false -> commit = None) ->
        safe files (cmd_retrieve root (cmd_store None files commit) rcut exit_ok []))
  /\ (forall sv rcut, fst (cmd_retrieve root sv rcut false []) = false)
  /\ (forall commit b k, cmd_store None files commit = Some b -> k < bytes (cmd_sent files) ->
        fst (cmd_retrieve root (Some b) (Some k) true []) = false).

Theorem C13_partial : C13_partial_statement.
Proof.
  exact (fun root files Hnd =>
    conj (http_failed_store_leaves_nothing files)
   (conj (http_all_or_nothing root files Hnd)
   (conj (http_short_response_is_miss root files)
   (conj (http_bad_status_is_miss root)
   (conj (cmd_all_or_nothing_but_defect root files Hnd)
   (conj (cmd_atomic_store_command_safe root files Hnd)
   (conj (cmd_failed_command_is_miss root)
         (cmd_short_output_is_miss root files)))))))).
Qed.
Print Assumptions C13_partial.

(* What a failed retrieve leaves behind (it is reported as a miss, the files stay): the members of
   a prefix of the stream received, each complete, and possibly a short copy of the regular
   file being received; and the stream received through a cut transfer is a prefix of the
   members sent followed by nothing, part of a block, or part of the next regular file. *)
Theorem C13_leftover :
  (forall root st clean disk, exists pre rest, st = pre ++ rest /\
     (snd (read_tar root st clean disk) = rev (nodes pre) ++ disk
      \/ exists n sz c rest', rest = CReg n sz c :: rest' /\ len c <> sz /\
           snd (read_tar root st clean disk) = (n, NFile c) :: rev (nodes pre) ++ disk))
  /\ (forall st k, exists pre rest, st = pre ++ rest /\
     (cut k st = pre \/ cut k st = pre ++ [CPartial]
      \/ exists n sz c rest' j, rest = CReg n sz c :: rest' /\ cut k st = pre ++ [CReg n sz (take j c)])).
Proof. exact (conj read_tar_leftover cut_shape). Qed.
Print Assumptions C13_leftover.

(* ---- non-vacuity ---- *)
Definition ex_files : list tree :=
  [TFile (s "o/a.txt") (s "aaa");
   TDir (s "o/d") [TFile (s "o/d/x") (rep 700 120); TLink (s "o/d/z") (s "x")]].

(* a complete store followed by an intact retrieve IS a hit restoring everything (so `safe` is not
   satisfied only by misses), through both caches; cutting the transfer inside the last block
   turns it into a miss; a read fault in the middle leaves nothing on the HTTP server *)
Example C13_partial_nonvacuous :
  NoDup (map fst (all_expected ex_files))
  /\ (let r := http_retrieve (s "o") (http_store None ex_files true) GetOk [] in
      fst r = true /\ lookup (s "o/d/x") (snd r) = Some (NFile (rep 700 120)) /\ lookup (s "o/d/z") (snd r) = Some (NLink (s "x")))
  /\ (let r := cmd_retrieve (s "o") (cmd_store None ex_files (Some 99999)) None true [] in
      fst r = true /\ lookup (s "o/a.txt") (snd r) = Some (NFile (s "aaa")))
  /\ bytes (cmd_sent ex_files) = 4608
  /\ fst (http_retrieve (s "o") (http_store None ex_files true) (GetCut 4607) []) = false
  /\ fst (http_retrieve (s "o") (http_store None ex_files true) (GetCut 4608) []) = true
  /\ http_store None witness_files true = None
  /\ cmd_defect ex_files (Some 99999) = false
  /\ cmd_defect witness_files (Some 1024) = false
  /\ fst (cmd_retrieve (s "o") (cmd_store None witness_files (Some 1024)) None true []) = false.
Proof.
  vm_compute. repeat split; try reflexivity.
  repeat constructor; cbn; intuition discriminate.
Qed.

(* the refutation's witness: hypotheses of the statement hold for it (distinct paths), the
   defect classifier flags exactly it, and the stream the store command was sent ends with the
   end-of-archive marker although b.txt could not be read *)
Example C13_refuted_nonvacuous :
  NoDup (map fst (all_expected witness_files))
  /\ cmd_defect witness_files (Some 2048) = true
  /\ cmd_sent witness_files = [CReg (s "o/a.txt") 1 (s "a"); CZero; CZero]
  /\ fst (cmd_retrieve (s "o") (cmd_store None witness_files (Some 2048)) None true []) = true.
Proof.
  vm_compute. repeat split; try reflexivity.
  repeat constructor; cbn; intuition discriminate.
Qed.

(* a retrieve cut inside a file leaves a short copy of that file, and is a miss *)
Example C13_leftover_nonvacuous :
  http_retrieve (s "o") (http_store None ex_files true) (GetCut 2148) []
  = (false, [(s "o/d/x", NFile (rep 100 120)); (s "o/d", NDir); (s "o/a.txt", NFile (s "aaa"))]).
Proof. vm_compute. reflexivity. Qed.
