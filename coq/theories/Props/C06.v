(* C06 - Cycle detection is sound and complete.
   This file holds only the statement, the property theorem and its non-vacuity examples.

   g : the resolved dependency graph (entry v = Dependencies() of target v, any order, duplicates
   and self references allowed); order : the order in which Check iterates the targets
   (AllTargets()).  wf g: every dependency is a target of the graph.  nodes g: the targets 0..|g|-1.
   is_cycle g c: c is non-empty, each element depends on the next, the last on the first.
   has_cycle g: some c is a cycle of g.  Fuel is the model's out-of-fuel value. *)
From PlzV Require Import Base.Harness Model.C06 Model.C06_Skel Proof.C06 Proof.C06_Skel.
From Coq Require Import Permutation Lia.

(* src_detect (Model/C06_Skel.v) = the control skeleton of Check and of its visit closure as gotrans
   regenerates it from src/core/cycle_detector.go on every run (Gen/CycleVisit.v), run by an
   interpreter; detect (Model/C06.v) = the hand model the correspondence harness compares with the
   implementation on every run. *)
Definition C06_statement : Prop :=
  (* the checker this statement is about is the function that is tied to the implementation *)
  (forall g order, src_detect g order = detect g order)
  /\
  (* every reported cycle is a genuine cycle: each listed target depends on the next and the last
     depends on the first - for every graph and every iteration order, no side condition *)
  (forall g order c, src_detect g order = Found c -> is_cycle g c)
  /\
  (forall g order, wf g -> Permutation order (nodes g) ->
     (* the recursion of the model is never cut short *)
     src_detect g order <> Fuel
     (* whenever the graph contains a cycle, one is reported (and it is genuine) *)
     /\ (has_cycle g -> exists c, src_detect g order = Found c /\ is_cycle g c)
     (* an acyclic graph is never reported as cyclic *)
     /\ (~ has_cycle g -> src_detect g order = Clean)).

Theorem C06_full : C06_statement.
Proof. exact src_detect_correct. Qed.
Print Assumptions C06_full.

(* Non-vacuity.  A cycle (4 -> 2 -> 4) that is reached only after an acyclic part (3, then 1) has been
   completed, and through the completed node 3 again; the same graph without the back edge. *)
Example C06_nonvacuous_cyclic :
  let g := [[1; 2]; [3]; [3; 4]; []; [2]] in
  wf g /\ Permutation [0; 1; 2; 3; 4] (nodes g) /\ has_cycle g
  /\ src_detect g [0; 1; 2; 3; 4] = Found [4; 2]
  /\ src_detect g [3; 4; 0; 2; 1] = Found [2; 4].
Proof.
  cbn zeta. split; [| split; [| split; [| split]]].
  - intros v d. do 5 (destruct v as [|v]; [cbn; intuition lia |]). destruct v; intros [].
  - apply Permutation_refl.
  - exists [4; 2]. split; [discriminate |]. cbn. tauto.
  - vm_compute. reflexivity.
  - vm_compute. reflexivity.
Qed.

Example C06_nonvacuous_acyclic :
  let g := [[1; 2]; [3]; [3; 4]; []; []] in
  wf g /\ Permutation [4; 0; 3; 2; 1] (nodes g) /\ ~ has_cycle g /\ src_detect g [4; 0; 3; 2; 1] = Clean.
Proof.
  cbn zeta.
  assert (Hwf : wf [[1; 2]; [3]; [3; 4]; []; []]).
  { intros v d. do 5 (destruct v as [|v]; [cbn; intuition lia |]). destruct v; intros []. }
  assert (Hperm : Permutation [4; 0; 3; 2; 1] (nodes [[1; 2]; [3]; [3; 4]; []; []])).
  { cbn. apply (perm_trans (l' := [0; 4; 3; 2; 1])); [apply perm_swap |]. apply perm_skip.
    apply (Permutation_rev [4; 3; 2; 1]). }
  split; [exact Hwf |]. split; [exact Hperm |]. split; [| vm_compute; reflexivity].
  eapply clean_acyclic; [exact Hwf | exact Hperm | vm_compute; reflexivity].
Qed.
