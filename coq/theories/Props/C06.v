(* C06 - Cycle detection is sound and complete.
   This file holds only the statement, the property theorem and its non-vacuity examples.

   g : the resolved dependency graph (entry v = Dependencies() of target v, any order, duplicates
   and self references allowed); order : the order in which Check iterates the targets
   (AllTargets()).  wf g: every dependency is a target of the graph.  nodes g: the targets 0..|g|-1.
   is_cycle g c: c is non-empty, each element depends on the next, the last on the first.
   has_cycle g: some c is a cycle of g.  Fuel is the model's out-of-fuel value. *)
From PlzV Require Import Base.Harness Model.C06 Gen.CycleVisit Model.C06_Skel Proof.C06 Proof.C06_Seq Proof.C06_Skel
  Proof.C06_Simple Proof.C06_Kind Proof.C06_Life Proof.C06_Ext.
From Coq Require Import Permutation Lia Relations.

(* src_detect (Model/C06_Skel.v) = the control skeleton of Check and of its visit closure as gotrans
   regenerates it from src/core/cycle_detector.go on every run (Gen/CycleVisit.v), run by an
   interpreter; detect (Model/C06.v) = the hand model the correspondence harness compares with the
   implementation on every run. *)
Definition C06_check_statement : Prop :=
  (* the checker this statement is about is the function that is tied to the implementation *)
  (forall g order, src_detect g order = detect g order)
  /\
  (* every reported cycle is a genuine cycle: each listed target depends on the next and the last
     depends on the first - for every graph and every iteration order, no side condition *)
  (forall g order c, src_detect g order = Found c -> is_cycle g c)
  /\
  (forall g order, wf g -> Permutation order (nodes g) ->
     (* the recursion of the model is never cut short *)
     src_detect g order <> Fuel
     (* whenever the graph contains a cycle, one is reported (and it is genuine) *)
     /\ (has_cycle g -> exists c, src_detect g order = Found c /\ is_cycle g c)
     (* an acyclic graph is never reported as cyclic *)
     /\ (~ has_cycle g -> src_detect g order = Clean)).

(* ONE detector kept between runs, as BuildState keeps state.progress.cycleDetector and runs Check each
   time the build goes idle, while targets are still being added and dependencies resolved.
   world = (resolved edges, declared dependency labels, the detector's stopped flag); a session is a
   list of events EAddTarget / EDeclare a b (declared, not resolved) / EResolve a b pos / EStop /
   ECheck order, run from any world w whose resolved dependencies are targets; valid_events: every
   EResolve resolves to a target that exists at that moment (nothing is asked of declared
   dependencies - they may stay unresolved, or name no target at all - nor of earlier Checks).
   src_session w es = the list of (world, order, result), one per ECheck of es.
   correct_for g o: o is not the out-of-fuel value, a reported cycle is a genuine cycle of g, a cycle
   of g is reported, an acyclic g gives Clean. *)
Definition C06_session_statement : Prop :=
  (* besides the graph pointer, the stopped flag is the only field of type cycleDetector, as
     regenerated from the source on every run: partial/complete are not kept *)
  src_persistent = [DStopped]
  /\
  (* stateless across runs: what the Checks after any point of a session return does not depend on
     whether the Checks before that point ran *)
  (forall w pre post,
     src_session w (pre ++ post) = src_session w pre ++ src_session w (erase_checks pre ++ post))
  /\
  (* every Check of every session is the function check_world of the world at that moment - of the
     edges resolved by then only, not of the declared ones - and is sound and complete for them *)
  (forall w pre order post,
     wf (resolved w) -> valid_events w pre ->
     Permutation order (nodes (resolved (final_world w pre))) ->
     let wk := final_world w pre in
     let o := check_world src_detect wk order in
     nth_error (src_session w (pre ++ ECheck order :: post)) (checks pre) = Some (Ran wk order o)
     /\ final_world w (erase_checks pre) = wk
     /\ wf (resolved wk)
     /\ (stopped wk = false -> correct_for (resolved wk) o)
     (* after Stop() the detector reports nothing any more (assumption "c.stopped is false") *)
     /\ (stopped wk = true -> o = Clean)).

(* EDGES OF EVERY KIND.  The resolved dependency graph is what the build waits for: Dependencies() of every
   target (queueTargetAsync waits for each of them), i.e. every resolved entry of target.dependencies whether it
   was declared through deps, srcs (source), data, as a run-time or as an internal dependency.
   kworld = target.dependencies of every target (label, the four flags, resolved targets); kw_run n ops = the
   world after the history ops of AddMaybeExportedDependency / AddDatum / resolveDependency calls on n targets
   (flags are merged as AddMaybeExportedDependency and AddDatum merge them); kvalid: a dependency is resolved to
   an existing target; wait_graph / build_graph = Dependencies() / BuildDependencies() of every target, sorted by
   label (ranks); kinded_env = those targets, their accessors as regenerated from build_target.go, in ANY states
   (rk); src_detect_env n env = the regenerated Check on them. *)
Definition C06_edges_statement : Prop :=
  (* Check is a function of Dependencies() alone *)
  (forall ranks w rk order,
     src_detect_env (length w) (kinded_env ranks w rk) order = detect (wait_graph ranks w) order)
  /\
  (* after any history: sound and complete for the graph the build waits for - a cycle through an edge of any
     kind is reported *)
  (forall n ranks ops rk order,
     Forall (kvalid n) ops -> Permutation order (seq 0 n) ->
     let w := kw_run n ops in
     length w = n /\ wf (wait_graph ranks w)
     /\ correct_for (wait_graph ranks w) (src_detect_env n (kinded_env ranks w rk) order))
  /\
  (* BuildDependencies() is a sub-graph of it, equal to it when no entry carries a flag ... *)
  (forall ranks w a b, edge (build_graph ranks w) a b -> edge (wait_graph ranks w) a b)
  /\ (forall ranks w, (forall l, In l w -> all_plain l) -> build_graph ranks w = wait_graph ranks w)
  /\
  (* ... and a walk over it alone misses a cycle *)
  (exists n ranks ops order,
     Forall (kvalid n) ops /\ Permutation order (seq 0 n)
     /\ has_cycle (wait_graph ranks (kw_run n ops))
     /\ detect (build_graph ranks (kw_run n ops)) order = Clean).

(* THE REPORTED SLICE is an elementary cycle: besides is_cycle (above) no target is listed twice, so it is
   at most as long as the graph; and it has to be reported whole: dropping members (drop keep c = the members
   satisfying keep, or all of c if none does - e.g. "the label is not hidden") breaks is_cycle. *)
Definition C06_report_statement : Prop :=
  (forall g order c, src_detect g order = Found c -> NoDup c)
  /\ (forall g order c, wf g -> src_detect g order = Found c -> length c <= length g)
  /\ (exists g order c keep,
        wf g /\ src_detect g order = Found c /\ is_cycle g c /\ ~ is_cycle g (drop keep c)).

(* TARGET STATES.  lworld = State() of every target + the successfully built ones in the order they finished;
   events: LQueue t (queueResolvedTarget: Inactive -> Active), LDepFailed t d (queueTargetAsync: d is the first
   dependency of t, in the order of Dependencies(), that is not built, and it finished failed: t :=
   DependencyFailed), LReady t (all dependencies built: Active -> Pending), LBuild t r (the build step ends in a
   built state or in Failed); lrun g w es = the world after attempting es in order (an event that cannot happen
   changes nothing); settled g roots plan = the world the comparison with the real queueing code uses.
   life_env g w = the targets of g in the states of w. *)
Definition C06_states_statement : Prop :=
  (* Check does not look at states: in every world its result is that of the hand model on the graph *)
  (forall g w order, src_detect_env (length g) (life_env g w) order = detect g order)
  /\
  (* invariant over all histories: the built targets form a post-order, built states are final, a Pending
     target has all its dependencies built *)
  (forall g n es, linv g (lrun g (lworld0 n) es))
  /\
  (* "a target only gets built once everything beneath it has been" *)
  (forall g n es v d, let w := lrun g (lworld0 n) es in
     is_built (state_of w v) = true -> edge g v d -> is_built (state_of w d) = true)
  /\
  (* so a target in a built state (Built <= s < DependencyFailed) is on no cycle - but a target in a state
     >= Built can be: members of a cycle do become DependencyFailed *)
  guard_ok is_built
  /\ ~ guard_ok (fun s => N.leb (rank Built) (rank s))
  /\ (forall g roots plan, exists es, settled g roots plan = lrun g (lworld0 (length g)) es).

Definition C06_statement : Prop :=
  C06_check_statement /\ C06_session_statement /\ C06_edges_statement /\ C06_report_statement /\ C06_states_statement.

Theorem C06_full : C06_statement.
Proof.
  exact (conj src_detect_correct (conj src_session_correct (conj src_edges_correct (conj src_report_correct src_states_correct)))).
Qed.
Print Assumptions C06_full.

(* Non-vacuity.  A cycle (4 -> 2 -> 4) that is reached only after an acyclic part (3, then 1) has been
   completed, and through the completed node 3 again; the same graph without the back edge. *)
Example C06_nonvacuous_cyclic :
  let g := [[1; 2]; [3]; [3; 4]; []; [2]] in
  wf g /\ Permutation [0; 1; 2; 3; 4] (nodes g) /\ has_cycle g
  /\ src_detect g [0; 1; 2; 3; 4] = Found [4; 2]
  /\ src_detect g [3; 4; 0; 2; 1] = Found [2; 4].
Proof.
  cbn zeta. split; [| split; [| split; [| split]]].
  - intros v d. do 5 (destruct v as [|v]; [cbn; intuition lia |]). destruct v; intros [].
  - apply Permutation_refl.
  - exists [4; 2]. split; [discriminate |]. cbn. tauto.
  - vm_compute. reflexivity.
  - vm_compute. reflexivity.
Qed.

Example C06_nonvacuous_acyclic :
  let g := [[1; 2]; [3]; [3; 4]; []; []] in
  wf g /\ Permutation [4; 0; 3; 2; 1] (nodes g) /\ ~ has_cycle g /\ src_detect g [4; 0; 3; 2; 1] = Clean.
Proof.
  cbn zeta.
  assert (Hwf : wf [[1; 2]; [3]; [3; 4]; []; []]).
  { intros v d. do 5 (destruct v as [|v]; [cbn; intuition lia |]). destruct v; intros []. }
  assert (Hperm : Permutation [4; 0; 3; 2; 1] (nodes [[1; 2]; [3]; [3; 4]; []; []])).
  { cbn. apply (perm_trans (l' := [0; 4; 3; 2; 1])); [apply perm_swap |]. apply perm_skip.
    apply (Permutation_rev [4; 3; 2; 1]). }
  split; [exact Hwf |]. split; [exact Hperm |]. split; [| vm_compute; reflexivity].
  eapply clean_acyclic; [exact Hwf | exact Hperm | vm_compute; reflexivity].
Qed.

(* One detector, two runs: 0 -> 1 -> 2 is resolved while 0 still has a declared dependency on a label
   (7) that is no target, Check runs (Clean, every target completed); then 2 -> 0 is resolved and the
   same detector runs again: the cycle is reported although every target was completed by the first
   run.  After Stop() nothing is reported. *)
Example C06_nonvacuous_session :
  let pre := [EAddTarget; EAddTarget; EAddTarget; EDeclare 0 7; EResolve 0 1 0; EResolve 1 2 0;
              ECheck [0; 1; 2]; EDeclare 2 0; EResolve 2 0 0] in
  wf (resolved world0) /\ valid_events world0 pre
  /\ Permutation [1; 2; 0] (nodes (resolved (final_world world0 pre)))
  /\ stopped (final_world world0 pre) = false
  /\ has_cycle (resolved (final_world world0 pre))
  /\ map r_out (src_session world0 (pre ++ [ECheck [1; 2; 0]; EStop; ECheck [0; 1; 2]]))
     = [Clean; Found [2; 0; 1]; Clean]
  /\ map (fun r => map (decl_count (declared (r_world r))) [0; 1; 2])
         (src_session world0 (pre ++ [ECheck [1; 2; 0]])) = [[2; 1; 0]; [2; 1; 1]].
Proof.
  cbn zeta. split; [exact world0_wf |]. split; [cbn; lia |]. split.
  - cbn. apply Permutation_sym. apply (Permutation_cons_append [1; 2] 0).
  - split; [reflexivity |]. split; [| split; vm_compute; reflexivity].
    exists [0; 1; 2]. split; [discriminate |]. cbn. tauto.
Qed.

(* Edges of every kind: 0 has 1 in its srcs and 2 in its data, 1 depends on 2 at run time, 2 depends on 0 -
   declared as data first and then as an ordinary dependency, which clears the data flag.  Labels sort 2 < 0 < 1.
   Every cycle goes through a flagged edge; BuildDependencies() keeps only 2 -> 0. *)
Example C06_nonvacuous_edges :
  let ops := [(0, KDeclare 1 true false false); (0, KDatum 2); (1, KDeclare 2 false false true);
              (2, KDatum 0); (2, KDeclare 0 false false false);
              (0, KResolve 2); (0, KResolve 1); (1, KResolve 2); (2, KResolve 0)] in
  let w := kw_run 3 ops in
  Forall (kvalid 3) ops /\ Permutation [2; 0; 1] (seq 0 3)
  /\ wait_graph [1; 2; 0] w = [[2; 1]; [2]; [0]]
  /\ build_graph [1; 2; 0] w = [[]; []; [0]]
  /\ has_cycle (wait_graph [1; 2; 0] w)
  /\ src_detect_env 3 (kinded_env [1; 2; 0] w (fun _ => 0%N)) [2; 0; 1] = Found [0; 2].
Proof.
  cbn zeta. split; [repeat constructor |]. split.
  - apply (Permutation_cons_append [0; 1] 2).
  - split; [vm_compute; reflexivity |]. split; [vm_compute; reflexivity |]. split; [| vm_compute; reflexivity].
    exists [2; 0]. split; [discriminate |]. vm_compute. tauto.
Qed.

(* States: 0 -> {1, 2} and 2 -> 0 with the build of 1 failing: the real queueing code leaves 0 and 2
   DependencyFailed, the cycle 0 <-> 2 is in the graph and Check reports it whatever the states are. *)
Example C06_nonvacuous_states :
  let g := [[1; 2]; []; [0]] in
  let w := settled g [0] [Built; Failed; Built] in
  l_state w = [DependencyFailed; Failed; DependencyFailed]
  /\ clos_trans nat (edge g) 0 0
  /\ src_detect_env (length g) (life_env g w) [0; 1; 2] = Found [2; 0].
Proof.
  cbn zeta. split; [vm_compute; reflexivity |]. split; [| vm_compute; reflexivity].
  apply t_trans with 2; apply t_step; cbn; tauto.
Qed.
