(* C03Ext - three small executable models next to the engine model (Model/Engine.v), each run on a piece of the source
   that gotrans regenerates (Gen/C03Incr.v), and the case type of the C03 harness.

   Link   a filegroup whose source is a plain file of the source tree: its output plz-out/gen/<pkg>/<f> is a HARD LINK to
          the source file (filegroup.go: RecursiveCopyOrLinkFile), so the inode - content AND the xattr user.plz_hash - is
          shared with a file the user edits.  fs.PathHasher (hash.go) keeps a per-process memo and, for paths below
          plz-out, reads / stores the hash as an xattr.  filegroupBuilder.Build tells the hasher "never read or store the
          xattr of this path" (CopyHash with no memo entry for the source: memo[to] = nil) - also on the way out where
          `to` already is the same file.  The model follows one such file through edits in place (same inode), replacements
          (new inode), rm -rf plz-out and builds in fresh processes, and says what a consumer's sourceHash sees.
   Conc   several plz processes building the same target: every process runs the program build_target_program (lock,
          needsBuilding, build, deferred unlock - in the order of the source) under an arbitrary schedule.
   Named  the named-outputs part of ruleHash: the bytes written for outs = {name: [outs]} under an arbitrary iteration
          order of the Go map.
   Hashes are modelled by what they are taken over.  No proofs here. *)
From PlzV Require Gen.C03Incr.
From PlzV Require Import Base.Harness.
From PlzV Require Model.Engine.

(* ------------------------------------------------------------------------------------------ *)
(* Link *)

Definition has_copyhash (l : list C03Incr.fgact) : bool :=
  existsb (fun a => match a with C03Incr.FgCopyHash => true | _ => false end) l.
(* does the "same file, nothing to do" way out of filegroupBuilder.Build call CopyHash?  regenerated from filegroup.go *)
Definition same_copy : bool := has_copyhash C03Incr.fg_same_branch.

Record inode := mkI { i_content : str; i_xattr : option str }.

(* plz-out/gen/<pkg>/<f>: missing, a hard link to the source file, or another inode (the source was replaced) *)
Inductive outst :=
| OAbsent
| OLinked
| OSep (i : inode).

Record lstate := mkL {
  l_src : inode;              (* the source file *)
  l_out : outst;
  l_rec : option str          (* the source hash recorded on the consumer's output; None: the output does not exist *)
}.

Inductive event :=
| EditInPlace (c : str)       (* echo c > f: same inode, the xattr stays *)
| Replace (c : str)           (* write a temporary file, rename it over f: a new inode without xattr *)
| RmOut                       (* rm -rf plz-out *)
| Build.                      (* plz build, a NEW process: empty memo *)

(* the filegroup is built, then the consumer's sourceHash asks the hasher for `to`:
   (source inode, output, the hash the consumer gets).  sc = does the same-file way out call CopyHash.
   OAbsent: isSameFileContent says no without hashing (SfToMissing), the file is linked, the target changed and is
            re-hashed with recalc = true, store = false (outputHash: !IsFilegroup): memo[to] = content.
   OLinked: same inode (SfSameInode), nothing hashed.  With CopyHash memo[to] = nil: Hash re-hashes and neither reads nor
            stores the xattr.  Without it memo[to] is absent: hash(store = true, read = true) returns the xattr when there
            is one and else stores the hash on the inode - the user's file.
   OSep:    both paths are hashed (store = true): `to` through its xattr if it has one, stored otherwise; equal: kept,
            memo[to] = that hash; different: RemoveAll + link, re-hashed as above. *)
Definition fg_build (sc : bool) (src : inode) (out : outst) : inode * outst * str :=
  match out with
  | OAbsent => (src, OLinked, i_content src)
  | OLinked =>
      if sc then (src, OLinked, i_content src)
      else match i_xattr src with
           | Some h => (src, OLinked, h)
           | None => (mkI (i_content src) (Some (i_content src)), OLinked, i_content src)
           end
  | OSep o =>
      let h2 := match i_xattr o with Some h => h | None => i_content o end in
      if str_eqb (i_content src) h2 then (src, OSep (mkI (i_content o) (Some h2)), h2)
      else (src, OLinked, i_content src)
  end.

(* one event; a Build reports (the hash the consumer saw, did its command run: needsBuilding compares the recorded
   source hash with the new one and wants the output to exist) *)
Definition lstep (sc : bool) (st : lstate) (e : event) : lstate * option (str * bool) :=
  match e with
  | EditInPlace c => (mkL (mkI c (i_xattr (l_src st))) (l_out st) (l_rec st), None)
  | Replace c => (mkL (mkI c None) (match l_out st with OLinked => OSep (l_src st) | o => o end) (l_rec st), None)
  | RmOut => (mkL (l_src st) OAbsent None, None)
  | Build =>
      match fg_build sc (l_src st) (l_out st) with
      | (src, out, seen) =>
          (mkL src out (Some seen), Some (seen, negb (option_eqb str_eqb (l_rec st) (Some seen))))
      end
  end.

Fixpoint lrun (sc : bool) (st : lstate) (evs : list event) : list (str * bool) :=
  match evs with
  | [] => []
  | e :: r => match lstep sc st e with
              | (st', Some ob) => ob :: lrun sc st' r
              | (st', None) => lrun sc st' r
              end
  end.

Definition linit (c0 : str) : lstate := mkL (mkI c0 None) OAbsent None.

(* the specification: the content of the source at every Build, and "the command runs iff the content is not the one
   of the previous build or plz-out was deleted since" *)
Fixpoint spec_runs (cur : str) (last : option str) (evs : list event) : list (str * bool) :=
  match evs with
  | [] => []
  | EditInPlace c :: r => spec_runs c last r
  | Replace c :: r => spec_runs c last r
  | RmOut :: r => spec_runs cur None r
  | Build :: r => (cur, negb (option_eqb str_eqb last (Some cur))) :: spec_runs cur (Some cur) r
  end.

(* ------------------------------------------------------------------------------------------ *)
(* Conc *)

Record proc := mkP { p_rest : list C03Incr.pstep; p_need : bool }.

Record cstate := mkC {
  c_lock : option nat;        (* who holds the flock on the target's lock file *)
  c_built : bool;             (* needsBuilding would say no *)
  c_count : nat;              (* how often the command ran *)
  c_procs : nat -> proc
}.

Definition cinit (prog : list C03Incr.pstep) (b0 : bool) : cstate := mkC None b0 0 (fun _ => mkP prog false).
Definition setp (f : nat -> proc) (i : nat) (p : proc) : nat -> proc := fun j => if Nat.eqb j i then p else f j.
Definition holds (st : cstate) (i : nat) : bool := match c_lock st with Some j => Nat.eqb j i | None => false end.

(* process i takes one step of its program; a process waiting for the lock does nothing *)
Definition cstep (st : cstate) (i : nat) : cstate :=
  let p := c_procs st i in
  match p_rest p with
  | [] => st
  | C03Incr.PLock :: r =>
      match c_lock st with
      | None => mkC (Some i) (c_built st) (c_count st) (setp (c_procs st) i (mkP r (p_need p)))
      | Some _ => st
      end
  | C03Incr.PCheck :: r =>
      if c_built st
      then (* "Unchanged": return nil; the deferred release runs when the lock was already taken *)
        mkC (c_lock st) (c_built st) (c_count st)
            (setp (c_procs st) i (mkP (if holds st i then [C03Incr.PUnlock] else []) false))
      else mkC (c_lock st) (c_built st) (c_count st) (setp (c_procs st) i (mkP r true))
  | C03Incr.PBuild :: r =>
      mkC (c_lock st) true (S (c_count st)) (setp (c_procs st) i (mkP r false))
  | C03Incr.PUnlock :: r =>
      mkC (if holds st i then None else c_lock st) (c_built st) (c_count st) (setp (c_procs st) i (mkP r (p_need p)))
  end.

Definition crun (st : cstate) (sched : list nat) : cstate := fold_left cstep sched st.

(* a fair schedule for n processes, long enough for all of them to finish *)
Definition round_robin (n : nat) : list nat := concat (repeat (seq 0 n) (4 * n + 4)).

(* ------------------------------------------------------------------------------------------ *)
(* Named *)

(* the map in the order THIS process iterates it *)
Definition groups := list (str * list str).

Definition group_stream (name : str) (outs : list str) : str := name ++ concat outs.

(* ruleHash: h.Write(name), h.Write(out)... per group; over the sorted names, or over the map as it comes *)
Definition named_stream (it : C03Incr.iteration) (m : groups) : str :=
  match it with
  | C03Incr.ItSortedNames =>
      flat_map (fun name => group_stream name (match Engine.alookup name m with Some o => o | None => [] end))
               (Engine.sort_str (map fst m))
  | C03Incr.ItMapRange => flat_map (fun g => group_stream (fst g) (snd g)) m
  end.

(* ------------------------------------------------------------------------------------------ *)
(* cases of the C03 harness *)

Inductive case :=
| Eng (c : Engine.case)                                      (* a history replayed in the engine model *)
| LinkHist (c0 : str) (evs : list event) (obs : list bool)   (* did the consumer's command run, per Build *)
| ConcRuns (b0 : bool) (procs : nat) (obs : nat)             (* executions of one command by `procs` concurrent plz build *)
| NamedNoop (m : groups) (reruns : nat).                     (* no-op builds that re-ran a target with outs = m *)

Definition check (c : case) : bool :=
  match c with
  | Eng e => Engine.check e
  | LinkHist c0 evs obs => list_eqb Bool.eqb (map snd (lrun same_copy (linit c0) evs)) obs
  | ConcRuns b0 procs obs =>
      Nat.eqb (c_count (crun (cinit C03Incr.build_target_program b0) (round_robin procs))) obs
  | NamedNoop m reruns =>
      Bool.eqb (Nat.eqb reruns 0)
               (str_eqb (named_stream C03Incr.named_outs_iteration (rev m)) (named_stream C03Incr.named_outs_iteration m))
  end.
