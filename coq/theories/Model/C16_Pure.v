(* C16 - the PURE fragment of the BUILD language.  No proofs here.

   1. `in_pure_subset prog`: the executable, purely syntactic description of the fragment: integer / string / bool /
      None literals, variables, assignments and += , operator chains that satisfy ops_safe (without is / | / "/"),
      comparisons, inline if, list literals, if / elif / else, for loops with one loop variable, assert, pass, and
      break / continue inside a loop.  Nothing in it mutates an object: no index assignment, no slices, no dicts, no
      comprehension (a filtered one has spare capacity), no calls.
   2. `pure_run`: a REFERENCE evaluator of that fragment over mathematical values (trees: no heap, no slices, no
      dialect).  It is parametrised by the integer operators; `pure_run` runs it with the CHECKED operators, which
      refuse as soon as Go's 64-bit operator and CPython's unbounded one differ on the operands at hand.  It also
      refuses every type-dependent trigger of a known difference: += on a list variable (rebinding in asp, in place in
      CPython), == between int and bool (DeepEqual) and == of lists, ordering of bools,
      `in` on anything but strings, * on strings and lists, % formatting.
      `pure_run fuel p = Ok g` is the formal reading of "p is in the pure subset, and integer arithmetic is safe
      along the run".  Proof/C16_Pure.v proves that then BOTH dialects of Model/C16_Eval.v compute exactly g. *)
From Coq Require Import String.
From PlzV Require Import Base.Harness Model.C16_Syntax Model.C16_Ops Model.C16_Prim Model.C16_Eval Model.C16.
Local Open Scope Z_scope.

(* ---------------------------------------------------------------- values of the reference evaluator *)
Inductive pval :=
| PInt (z : Z) | PStr (x : str) | PBool (b : bool) | PNone
| PList (l : list pval)
| PFunc (id : nat).

Definition penv := list (str * pval).
Inductive pdefault := PDNo | PDConst (p : pval).
Record pfunc := PFn { pf_name : str; pf_args : list (str * pdefault); pf_body : list stmt }.
(* globals of the file, local scopes (innermost first), function table *)
Record pstate := PS { pg : penv; pl : list penv; pfs : list pfunc }.

Fixpoint penv_get (n : str) (e : penv) : option pval :=
  match e with [] => None | (k, v) :: r => if str_eqb n k then Some v else penv_get n r end.
Fixpoint penv_set (n : str) (v : pval) (e : penv) : penv :=
  match e with
  | [] => [(n, v)]
  | (k, w) :: r => if str_eqb n k then (k, v) :: r else (k, w) :: penv_set n v r
  end.
Fixpoint penvs_get (n : str) (l : list penv) : option pval :=
  match l with [] => None | e :: r => match penv_get n e with Some v => Some v | None => penvs_get n r end end.

Definition plookup (n : str) (ps : pstate) : option pval :=
  match penvs_get n (pl ps) with Some v => Some v | None => penv_get n (pg ps) end.
Definition pset_var (n : str) (v : pval) (ps : pstate) : pstate :=
  match pl ps with
  | e :: r => PS (pg ps) (penv_set n v e :: r) (pfs ps)
  | [] => PS (penv_set n v (pg ps)) [] (pfs ps)
  end.

Definition ptruthy (p : pval) : bool :=
  match p with
  | PInt z => negb (z =? 0)
  | PStr x => match x with [] => false | _ => true end
  | PBool b => b
  | PNone => false
  | PList l => match l with [] => false | _ => true end
  | PFunc _ => true
  end.

(* == on scalars; None: outside the fragment (int against bool: DeepEqual; containers; functions) *)
Definition peq (a b : pval) : option bool :=
  match a, b with
  | PInt x, PInt y => Some (x =? y)
  | PStr x, PStr y => Some (str_eqb x y)
  | PBool x, PBool y => Some (Bool.eqb x y)
  | PNone, PNone => Some true
  | PInt _, PBool _ | PBool _, PInt _ => None
  | (PList _ | PFunc _), _ | _, (PList _ | PFunc _) => None
  | _, _ => Some false
  end.

(* < > <= >= on two ints or two strings *)
Definition pcmp (o : binop) (a b : pval) : option bool :=
  match a, b with
  | PInt x, PInt y => Some (cmp_by o (Z.compare x y))
  | PStr x, PStr y => Some (cmp_by o (str_cmp x y))
  | _, _ => None
  end.

(* str() of a scalar *)
Definition pstr (p : pval) : option str :=
  match p with
  | PInt z => Some (z_to_str z)
  | PStr x => Some x
  | PBool b => Some (if b then s "True" else s "False")
  | PNone => Some (s "None")
  | _ => None
  end.

Definition of_ires (r : ires) : res pval :=
  match r with
  | IOk z => Ok (PInt z) | IBool b => Ok (PBool b)
  | IErr => Err EType | IUnsup => Err EUnsupported | IFloat => Err EFloat
  end.

Definition is_int_arith (o : binop) : bool :=
  match o with Add | Sub | Mul | Div | FloorDiv | Mod | C16_Syntax.Lt | C16_Syntax.Gt | Le | Ge => true | _ => false end.

Fixpoint pmapR {A B} (g : A -> res B) (l : list A) : res (list B) :=
  match l with
  | [] => Ok []
  | x :: r => do y <- g x; do ys <- pmapR g r; Ok (y :: ys)
  end.

Inductive psres := PRNone | PRRet (v : pval) | PRBreak | PRContinue.

Definition pfn_default : pfunc := PFn [] [] [].

Section Ref.
Variable iop : binop -> Z -> Z -> ires.     (* the integer operators *)
Variable ineg : Z -> option Z.              (* unary minus *)

Definition papply_bin (fuel : nat) (o : binop) (a b : pval) : res pval :=
  match fuel with
  | O => OutOfFuel
  | S _ =>
      match o with
      | C16_Syntax.Eq => match peq a b with Some e => Ok (PBool e) | None => Err EUnsupported end
      | Ne => match peq a b with Some e => Ok (PBool (negb e)) | None => Err EUnsupported end
      | In | NotIn =>
          match a, b with
          | PStr x, PStr y => Ok (PBool (xorb (match o with NotIn => true | _ => false end) (str_contains x y)))
          | _, _ => Err EUnsupported
          end
      | _ =>
          match a, b with
          | PInt x, PInt y => if is_int_arith o then of_ires (iop o x y) else Err EUnsupported
          | PStr x, PStr y =>
              match o with
              | Add => Ok (PStr (x ++ y))
              | C16_Syntax.Lt | C16_Syntax.Gt | Le | Ge => Ok (PBool (cmp_by o (str_cmp x y)))
              | _ => Err EUnsupported
              end
          | PList x, PList y =>
              match o with
              | Add => Ok (PList (x ++ y))
              | _ => Err EUnsupported
              end
          | _, _ => Err EUnsupported
          end
      end
  end.

Definition papply_un (u : unop) (v : pval) : res pval :=
  match u with
  | Not => Ok (PBool (negb (ptruthy v)))
  | Neg => match v with
           | PInt z => match ineg z with Some z' => Ok (PInt z') | None => Err EUnsupported end
           | _ => Err EUnsupported
           end
  end.

(* evaluation of a grouped chain: state-free *)
Fixpoint pteval (ev : vexpr -> res pval) (fuel : nat) (t : tree vexpr pval) : res pval :=
  match t with
  | TLeaf x => ev x
  | TVal v => Ok v
  | TUn u t1 => do v <- pteval ev fuel t1; papply_un u v
  | TBin o l r =>
      do a <- pteval ev fuel l;
      match o with
      | And | Or => if Bool.eqb (ptruthy a) (binop_eqb o And) then pteval ev fuel r else Ok a
      | _ => do b <- pteval ev fuel r; papply_bin fuel o a b
      end
  end.

(* the iterable of a for loop: a list value *)
Definition iter_with (ev : nat -> expr -> pstate -> res pval) (fuel : nat) (it : expr) (ps : pstate) : res (list pval) :=
  do p <- ev fuel it ps; match p with PList l => Ok l | _ => Err EType end.

Fixpoint peval_expr (fuel : nat) (e : expr) (ps : pstate) {struct fuel} : res pval :=
  match fuel with
  | O => OutOfFuel
  | S f =>
      match e with
      | Ex v ops iff =>
          let main :=
            do obj <- peval_vexpr f v ps;
            match ops with
            | [] => Ok obj
            | _ => if ops_safe (items_of ops)
                   then pteval (fun x => peval_vexpr f x ps) f (asp_tree (TVal obj) (items_of ops))
                   else Err EUnsupported     (* interpretOps and CPython group the chain differently *)
            end in
          match iff with
          | Some (c, e2) => do cv <- peval_expr f c ps; if ptruthy cv then main else peval_expr f e2 ps
          | None => main
          end
      end
  end

with peval_vexpr (fuel : nat) (x : vexpr) (ps : pstate) {struct fuel} : res pval :=
  match fuel with
  | O => OutOfFuel
  | S f =>
      match x with
      | XInt z => Ok (PInt z)
      | XStr x0 => Ok (PStr x0)
      | XTrue => Ok (PBool true)
      | XFalse => Ok (PBool false)
      | XNone => Ok PNone
      | XIdent n => match plookup n ps with Some v => Ok v | None => Err EType end
      | XParen e => peval_expr f e ps
      | XList es => do vs <- pmapR (fun e => peval_expr f e ps) es; Ok (PList vs)
      | _ => Err EUnsupported
      end
  end.

Fixpoint pexec_block (fuel : nat) (ss : list stmt) (ps : pstate) {struct fuel} : res (psres * pstate) :=
  match fuel with
  | O => OutOfFuel
  | S f =>
      match ss with
      | [] => Ok (PRNone, ps)
      | s0 :: r =>
          do '(res0, ps1) <- pexec_stmt f s0 ps;
          match res0 with
          | PRNone => pexec_block f r ps1
          | _ => Ok (res0, ps1)
          end
      end
  end

with pexec_stmt (fuel : nat) (s0 : stmt) (ps : pstate) {struct fuel} : res (psres * pstate) :=
  match fuel with
  | O => OutOfFuel
  | S f =>
      match s0 with
      | SPass => Ok (PRNone, ps)
      | SBreak => Ok (PRBreak, ps)
      | SContinue => Ok (PRContinue, ps)
      | SAssign n e => do v <- peval_expr f e ps; Ok (PRNone, pset_var n v ps)
      | SAug n e =>
          match plookup n ps with
          | None => Err EType
          | Some old =>
              do v <- peval_expr f e ps;
              match old with
              | PList _ => Err EUnsupported        (* += on a list: rebinding in asp, in-place in CPython *)
              | _ => do r <- papply_bin f Add old v; Ok (PRNone, pset_var n r ps)
              end
          end
      | SAssert e => do v <- peval_expr f e ps; if ptruthy v then Ok (PRNone, ps) else Err EType
      | SReturn None => Ok (PRRet PNone, ps)
      | SReturn (Some e) => do v <- peval_expr f e ps; Ok (PRRet v, ps)
      | SIf c body elifs els =>
          do cv <- peval_expr f c ps;
          if ptruthy cv then pexec_block f body ps
          else (fix go (l : list (expr * list stmt)) : res (psres * pstate) :=
                  match l with
                  | [] => pexec_block f els ps
                  | (c1, b1) :: r => do v1 <- peval_expr f c1 ps;
                                     if ptruthy v1 then pexec_block f b1 ps else go r
                  end) elifs
      | SFor [n] it body =>
          do items <- iter_with peval_expr f it ps;
          (fix go (l : list pval) (ps0 : pstate) : res (psres * pstate) :=
             match l with
             | [] => Ok (PRNone, ps0)
             | li :: r =>
                 do '(r0, ps'') <- pexec_block f body (pset_var n li ps0);
                 match r0 with
                 | PRBreak => Ok (PRNone, ps'')
                 | PRRet v => Ok (PRRet v, ps'')
                 | _ => go r ps''
                 end
             end) items ps
      | _ => Err EUnsupported
      end
  end.

Fixpoint pexec_top (fuel : nat) (ss : list stmt) (ps : pstate) : res pstate :=
  match ss with
  | [] => Ok ps
  | s0 :: r =>
      match pexec_stmt fuel s0 ps with
      | Ok (PRNone, ps1) => pexec_top fuel r ps1
      | Ok (_, ps1) => Ok ps1
      | Err k => Err k
      | OutOfFuel => OutOfFuel
      end
  end.

End Ref.

(* ---------------------------------------------------------------- the checked integer operators *)
Definition ires_eqb (a b : ires) : bool :=
  match a, b with
  | IOk x, IOk y => x =? y
  | IBool x, IBool y => Bool.eqb x y
  | _, _ => false
  end.

(* the operator's result when Go's 64-bit operator and CPython's agree on THESE operands (and it is a value);
   a refusal otherwise: overflow, / , % with operands of different sign and a non-zero remainder, // by zero ... *)
Definition checked_op (o : binop) (a b : Z) : ires :=
  if ires_eqb (asp_int_op o a b) (py_int_op o a b) then py_int_op o a b else IUnsup.
Definition checked_neg (z : Z) : option Z := if wrap64 (- z) =? - z then Some (- z) else None.

(* the reference run of a program: its globals *)
Definition pure_run (fuel : nat) (p : prog) : res pstate := pexec_top checked_op checked_neg fuel p (PS [] [] []).

(* ---------------------------------------------------------------- rendering *)
Fixpoint prender (fuel : nat) (fns : list pfunc) (p : pval) : obs :=
  match fuel with
  | O => OOther
  | S f =>
      match p with
      | PInt z => OInt z
      | PStr x => OStr x
      | PBool b => OBool b
      | PNone => ONone
      | PList l => OList false 0%nat (map (prender f fns) l)
      | PFunc i => OFunc (pf_name (nth i fns pfn_default))
      end
  end.

Fixpoint ginsert {A} (kv : str * A) (l : list (str * A)) : list (str * A) :=
  match l with
  | [] => [kv]
  | x :: r => if str_leb (fst kv) (fst x) then kv :: l else x :: ginsert kv r
  end.
Definition gsort {A} (l : list (str * A)) : list (str * A) := fold_right ginsert [] l.

(* what the hook / python3 would print for the globals of the reference run *)
Definition pure_obs (ps : pstate) : list (str * obs) :=
  gsort (map (fun kv => (fst kv, prender 64%nat (pfs ps) (snd kv))) (pg ps)).

(* ---------------------------------------------------------------- the syntactic fragment *)
Definition plain_name (m : str) : bool := negb (existsb (str_eqb m) builtin_names).

Fixpoint pure_expr (n : nat) (e : expr) : bool :=
  match n with
  | O => false
  | S k =>
      match e with
      | Ex v ops iff =>
          pure_vexpr k v
          && forallb (fun i => match i with
                               | OBin o x => pure_vexpr k x
                                             && negb (match o with Is | IsNot | Union | Div => true | _ => false end)
                               | OUn _ => true
                               end) ops
          && ops_safe (items_of ops)
          && match iff with None => true | Some (c, e2) => pure_expr k c && pure_expr k e2 end
      end
  end
with pure_vexpr (n : nat) (x : vexpr) : bool :=
  match n with
  | O => false
  | S k =>
      match x with
      | XInt _ | XStr _ | XTrue | XFalse | XNone => true
      | XIdent m => plain_name m
      | XParen e => pure_expr k e
      | XList es => forallb (pure_expr k) es
      | _ => false
      end
  end.

(* inloop: break / continue are allowed *)
Fixpoint pure_stmt (n : nat) (inloop : bool) (st : stmt) : bool :=
  match n with
  | O => false
  | S k =>
      match st with
      | SPass => true
      | SBreak | SContinue => inloop
      | SAssign m e | SAug m e => plain_name m && pure_expr k e
      | SAssert e => pure_expr k e
      | SIf c body elifs els =>
          pure_expr k c && forallb (pure_stmt k inloop) body
          && forallb (fun cb => pure_expr k (fst cb) && forallb (pure_stmt k inloop) (snd cb)) elifs
          && forallb (pure_stmt k inloop) els
      | SFor [m] it body => plain_name m && pure_expr k it && forallb (pure_stmt k true) body
      | _ => false
      end
  end.

Definition PURE_DEPTH : nat := 40.
Definition in_pure_subset (p : prog) : bool := forallb (pure_stmt PURE_DEPTH false) p.

(* ---------------------------------------------------------------- correspondence cases of the C16 harness *)
(* PBase: a case of Model/C16.v.  PPure: a generated program with the harness' own verdict `flag` on membership in the
   fragment (computed on the Go AST), whether the real interpreter ran it without error (`asp_ok`), whether python3
   then printed the same globals (`agree`), and the globals the real interpreter printed. *)
Inductive case :=
| PBase (c : C16.case)
| PPure (flag : bool) (p : prog) (asp_ok agree : bool) (globals : list (str * obs)).

Definition is_ok {A} (r : res A) : bool := match r with Ok _ => true | _ => false end.

Definition check (c : case) : bool :=
  match c with
  | PBase c0 => C16.check c0
  | PPure flag p asp_ok agree globals =>
      Bool.eqb (in_pure_subset p) flag
      && (if flag then
            match pure_run FUEL p with
            | Ok ps =>
                (* the theorem's hypotheses hold on the model: the real runs must agree, with exactly these globals *)
                asp_ok && agree && kvobs_eqb obs_plain_eqb (drop_funcs (pure_obs ps)) (drop_funcs globals)
            | _ => true
            end
          else true)
  end.
