(* C16/C17/C18 - correspondence cases for the BUILD language model.  No proofs here.
   A case carries the input (the files of one interpreter run, as ASTs) AND what the real interpreter
   (or python3) produced on their printed text. *)
From PlzV Require Import Base.Harness Model.C16_Syntax Model.C16_Ops Model.C16_Prim Model.C16_Eval.

Definition FUEL : nat := 400.

Definition asp_run (defs : list (str * prog)) (builds : list prog) : list outcome := run Asp defs FUEL builds.
Definition py_run (p : prog) : outcome :=
  match run Py [] FUEL [p] with [o] => o | _ => OUnsup end.

Inductive case :=
| CAsp (loose : bool) (defs : list (str * prog)) (builds : list prog) (observed : list outcome)
    (* real asp: the packages `builds` interpreted in order on one interpreter; subinclude(name) finds `defs` *)
| CPy (loose : bool) (p : prog) (observed : outcome).
    (* python3 on the printed text of p: its JSON-able globals (functions dropped), or an exception.
       loose: the program contains integers beyond 2^31 (or the like), for which the model is allowed to
       refuse (EUnsupported: float rounding of //, ...); a refusal is then not counted as a disagreement *)

Definition drop_funcs (l : list (str * obs)) : list (str * obs) :=
  filter (fun kv => match snd kv with OFunc _ => false | _ => true end) l.

Definition check (c : case) : bool :=
  match c with
  | CAsp loose defs builds obs =>
      list_eqb (fun a b => outcome_eqb a b || (loose && match a with OUnsup => true | _ => false end)) (asp_run defs builds) obs
  | CPy loose p obs =>
      match py_run p, obs with
      | OErr, OErr => true
      | OGlobals _ fin, OGlobals _ ofin => kvobs_eqb obs_plain_eqb (drop_funcs fin) ofin
      | OUnsup, _ => loose
      | _, _ => false
      end
  end.
