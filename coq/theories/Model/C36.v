(* C36 - label include/exclude filters.  Executable model of
     src/core/build_target.go : match, HasLabel, HasAllLabels, BuildTarget.ShouldInclude
     src/core/state.go        : SetIncludeAndExclude, BuildState.ShouldInclude, AddOriginalTarget (its exclusion test),
                                expandLabels, expandOriginalPseudoTarget
     src/core/build_label.go  : Includes, IsAllTargets, IsAllSubpackages, IsPseudoTarget, Less, LooksLikeABuildLabel,
                                and the `//pkg:name`, `//pkg`, `//pkg/...` forms of ParseBuildLabelParts with
                                validatePackageName / validateTargetName.
                                parseMaybeRelativeBuildLabel (relative `:name` exclude expressions are resolved against
                                core.InitialPackagePath, here the input `cur`; the filepath.Join fall-back of `@` forms),
                                parseBuildLabelSubrepo (`@sub//pkg:name`, `///sub//pkg:name`), packageKey.String
     src/core/graph.go        : PackageByLabel (keyed by package name AND subrepo), PackageMap (keyed by packageKey.String())
     src/core/target_set.go   : TargetSet.Add / Match / MatchExact / AllTargets
     src/core/state.go        : AddOriginalTarget on the TargetSet, isOriginalTarget (its returned condition is TRANSLATED
                                from the source: Gen.is_original_cond), the :all loop of ActivateTarget, queueTargetAsync's
                                queueing of declared dependencies;  src/plz/plz.go : the condition under which a built
                                target is handed to QueueTestTarget
   Every string literal of the filter functions comes from Gen/LabelFilter.v (regenerated from the source by gotrans,
   which also pins the statement shape of each function).  Labels, targets and packages carry their Subrepo.
   No proofs here. *)
From Coq Require Import String.
From PlzV Require Import Base.Harness Gen.LabelFilter.
Local Open Scope list_scope.

Definition lit (x : string) : str := s x.

(* ---- package strings --------------------------------------------------------------------------------- *)

(* strings.HasPrefix(x, pre) *)
Fixpoint has_prefix (pre x : str) : bool :=
  match pre, x with
  | [], _ => true
  | a :: pre', b :: x' => N.eqb a b && has_prefix pre' x'
  | _ :: _, [] => false
  end.

(* strings.HasSuffix(x, suf) *)
Definition has_suffix (x suf : str) : bool := has_prefix (rev suf) (rev x).

(* strings.Contains(x, sub) *)
Fixpoint contains (x sub : str) : bool :=
  has_prefix sub x || match x with [] => false | _ :: r => contains r sub end.

(* strings.ContainsAny(x, chars), chars ASCII *)
Definition contains_any (x chars : str) : bool := existsb (fun c => existsb (N.eqb c) chars) x.

(* strings.IndexRune / LastIndexByte for an ASCII byte *)
Fixpoint index_byte (c : N) (x : str) : option nat :=
  match x with
  | [] => None
  | b :: r => if N.eqb b c then Some 0 else option_map S (index_byte c r)
  end.

Fixpoint last_index_byte (c : N) (x : str) : option nat :=
  match x with
  | [] => None
  | b :: r => match last_index_byte c r with
              | Some i => Some (S i)
              | None => if N.eqb b c then Some 0 else None
              end
  end.

(* strings.Index(x, sub) *)
Fixpoint index_sub (sub x : str) : option nat :=
  if has_prefix sub x then Some 0
  else match x with [] => None | _ :: r => option_map S (index_sub sub r) end.

(* strings.Join(comps, "/") *)
Fixpoint join_slash (comps : list str) : str :=
  match comps with
  | [] => []
  | [c] => c
  | c :: r => c ++ 47%N :: join_slash r
  end.

(* strings.TrimRight(x, "/") *)
Fixpoint trim_right (c : N) (x : str) : str :=
  match x with
  | [] => []
  | b :: r => match trim_right c r with
              | [] => if N.eqb b c then [] else [b]
              | r' => b :: r'
              end
  end.

(* strings.Split(x, sep) for a one-byte separator: never empty *)
Fixpoint split_on (sep : N) (x : str) : list str :=
  match x with
  | [] => [[]]
  | c :: r => if N.eqb c sep then [] :: split_on sep r
              else match split_on sep r with
                   | [] => [[c]]
                   | h :: t => (c :: h) :: t
                   end
  end.

Definition is_nil {A} (l : list A) : bool := match l with [] => true | _ => false end.

(* path/filepath.Clean on unix: the loop over the path elements.  `stack` is the output so far, last element first;
   `..` elements are only ever at its bottom (the `dotdot` mark of the Go code). *)
Definition dot : str := [46%N].
Definition dotdot : str := [46%N; 46%N].
Fixpoint clean_comps (rooted : bool) (comps stack : list str) : list str :=
  match comps with
  | [] => rev stack
  | c :: r =>
      if is_nil c || str_eqb c dot then clean_comps rooted r stack
      else if str_eqb c dotdot then
        match stack with
        | top :: rest => if str_eqb top dotdot then clean_comps rooted r (c :: stack) else clean_comps rooted r rest
        | [] => if rooted then clean_comps rooted r [] else clean_comps rooted r [c]
        end
      else clean_comps rooted r (c :: stack)
  end.

Definition clean (path : str) : str :=
  let rooted := match path with 47%N :: _ => true | _ => false end in
  let body := join_slash (clean_comps rooted (split_on 47%N path) []) in
  let out := if rooted then 47%N :: body else body in
  if is_nil out then dot else out.

(* filepath.Join(a, b) *)
Definition path_join (a b : str) : str :=
  if negb (is_nil a) then clean (a ++ 47%N :: b)
  else if negb (is_nil b) then clean b else [].

(* ---- build_target.go --------------------------------------------------------------------------------- *)

(* func match(pattern, s string) bool *)
Definition match_ (pattern x : str) : bool :=
  if str_eqb pattern x then true
  else if has_suffix pattern [wildcard_byte] && has_prefix (removelast pattern) x then true
  else false.

Record target := { t_sub : str (* target.Label.Subrepo *); t_pkg : str; t_name : str; t_labels : list str;
                   t_test : bool (* target.Test != nil *) }.

(* the loop of HasLabel *)
Fixpoint any_match (label : str) (ls : list str) : bool :=
  match ls with
  | [] => false
  | l :: r => if match_ label l then true else any_match label r
  end.

Definition has_label (t : target) (label : str) : bool :=
  if any_match label (t_labels t) then true
  else t_test t && match_ label (lit implicit_test_label).

Fixpoint has_all_labels (t : target) (labels : list str) : bool :=
  match labels with
  | [] => true
  | l :: r => if negb (has_label t l) then false else has_all_labels t r
  end.

Definition group (g : str) : list str := split_on group_separator_byte g.

(* `for _, x := range xs { if target.HasAllLabels(strings.Split(x, ",")) { ...; break } }` : did the loop fire? *)
Fixpoint some_group (t : target) (groups : list str) : bool :=
  match groups with
  | [] => false
  | g :: r => if has_all_labels t (group g) then true else some_group t r
  end.

(* func (target *BuildTarget) ShouldInclude(includes, excludes []string) bool *)
Definition target_should_include (t : target) (includes excludes : list str) : bool :=
  if is_nil includes && is_nil excludes then true
  else
    let should0 := is_nil includes in
    let should1 := if some_group t includes then true else should0 in
    if some_group t excludes then false else should1.

(* ---- build_label.go ---------------------------------------------------------------------------------- *)

Record label := { l_sub : str (* Subrepo *); l_pkg : str; l_name : str }.

Definition label_eqb (a b : label) : bool :=
  str_eqb (l_sub a) (l_sub b) && str_eqb (l_pkg a) (l_pkg b) && str_eqb (l_name a) (l_name b).

Definition is_all_subpackages (l : label) : bool := str_eqb (l_name l) (lit all_subpackages_name).
Definition is_all_targets (l : label) : bool := str_eqb (l_name l) (lit all_targets_name).
Definition is_pseudo (l : label) : bool := is_all_subpackages l || is_all_targets l.

(* func (label BuildLabel) Includes(that BuildLabel) bool   (Subrepo is not looked at by the code) *)
Definition includes (e that : label) : bool :=
  if (str_eqb (l_pkg e) [] && is_all_subpackages e)
     || str_eqb (l_pkg that) (l_pkg e)
     || has_prefix (l_pkg e ++ [package_separator_byte]) (l_pkg that)
  then
    if is_all_subpackages e then true
    else if str_eqb (l_pkg e) (l_pkg that)
         then (if str_eqb (l_name e) (l_name that) || is_all_targets e then true else false)
         else false
  else false.

(* func (label BuildLabel) Less(other BuildLabel) bool *)
Definition label_less (a b : label) : bool :=
  if negb (str_eqb (l_sub a) (l_sub b)) then str_ltb (l_sub a) (l_sub b)
  else if negb (str_eqb (l_pkg a) (l_pkg b)) then str_ltb (l_pkg a) (l_pkg b)
  else str_ltb (l_name a) (l_name b).

Definition looks_like_label (x : str) : bool :=
  existsb (fun p => has_prefix (lit p) x) looks_like_prefixes
  || (has_prefix (lit looks_like_subrepo_prefix) x
      && (contains x (lit looks_like_subrepo_rune) || contains x (lit looks_like_subrepo_infix))).

Definition validate_package_name (name : str) : bool :=
  match name with
  | [] => true
  | c :: _ => negb (N.eqb c package_edge_byte) && negb (N.eqb (last name 0%N) package_edge_byte)
              && negb (contains_any name (lit package_bad_chars)) && negb (contains name (lit package_bad_infix))
  end.

Definition validate_target_name (name : str) : bool :=
  negb (is_nil name) && negb (contains_any name (lit name_bad_chars))
  && (negb (N.eqb (hd 0%N name) name_hidden_byte) || str_eqb name (lit name_hidden_exception))
  && forallb (fun suf => negb (has_suffix name (lit suf))) reserved_suffixes.

(* ParseBuildLabelParts(target, currentPath, "").  POk pkg name subrepo is the Go result triple (name may be empty:
   TryParseBuildLabel turns that into the error), PErr the ("","","") result.  parseBuildLabelSubrepo calls back into
   ParseBuildLabelParts on a strictly shorter string: recursion on fuel, PFuel = out of fuel (proved unreachable with
   fuel > length target in Proof/C36_parse.v). *)
Inductive pres := POk (pkg name sub : str) | PErr | PFuel.

(* func parseBuildLabelSubrepo(target, currentPath string), `rec` = ParseBuildLabelParts(_, currentPath, "") *)
Definition parse_subrepo (rec : str -> pres) (target : str) : pres :=
  let found := match index_sub (lit "//") target with
               | Some i => Some i
               | None => index_byte 58%N target
               end in
  match found with
  | None => match last_index_byte 47%N target with
            | Some i => POk [] (skipn (S i) target) target
            | None => POk [] target target
            end
  | Some idx => if existsb (N.eqb 58%N) (firstn idx target) then PErr
                else match rec (skipn idx target) with
                     | POk p n _ => POk p n (firstn idx target)
                     | r => r
                     end
  end.

(* the `//pkg:name`, `//pkg/...`, `//pkg` forms; rest = target[2:] *)
Definition host_parts (target rest : str) : pres :=
  match index_byte 58%N target with
  | Some idx =>
      let pkg := firstn (idx - 2) rest in
      let name := skipn (idx + 1) target in
      if negb (validate_package_name pkg) || negb (validate_target_name name) || str_eqb name (lit "...")
      then PErr else POk pkg name []
  | None =>
      if negb (validate_package_name rest) then PErr
      else if has_suffix target (lit "/...")
           then POk (trim_right 47%N (firstn (length target - 3 - 2) rest)) (lit "...") []
           else match last_index_byte 47%N target with
                | Some idx => POk rest (skipn (idx + 1) target) []
                | None => POk rest rest []
                end
  end.

Fixpoint parse_parts (fuel : nat) (target cur : str) : pres :=
  match fuel with
  | O => PFuel
  | S fuel' =>
      match target with
      | c0 :: c1 :: rest =>
          if N.eqb c0 58%N then (if validate_target_name (c1 :: rest) then POk cur (c1 :: rest) [] else PErr)
          else if N.eqb c0 64%N then parse_subrepo (fun t => parse_parts fuel' t cur) (c1 :: rest)
          else if N.eqb c0 47%N && N.eqb c1 47%N
               then match rest with
                    | c2 :: rest3 => if N.eqb c2 47%N then parse_subrepo (fun t => parse_parts fuel' t cur) rest3
                                     else host_parts target rest
                    | [] => host_parts target rest
                    end
               else PErr
      | _ => PErr       (* len(target) < 2 *)
      end
  end.

(* TryParseBuildLabel(target, currentPath, "") *)
Definition try_parse (cur target : str) : option label :=
  match parse_parts (S (length target)) target cur with
  | POk pkg name sub => if is_nil name then None else Some {| l_sub := sub; l_pkg := pkg; l_name := name |}
  | _ => None
  end.

(* parseMaybeRelativeBuildLabel(e, "") with core.InitialPackagePath = cur (the package plz was started in).
   `:name` is resolved against cur; anything that parses as it stands, and every `//` form, is absolute; what
   remains (an `@` form that does not parse) is looked for underneath cur. *)
Definition parse_exclude (cur e : str) : option label :=
  if has_prefix (lit ":") e then try_parse cur e
  else
    let e' := if negb (has_prefix (lit "//") e) && has_prefix (lit "/") e then 47%N :: e else e in
    match try_parse [] e' with
    | Some l => Some l
    | None => if has_prefix (lit "//") e' then None
              else try_parse [] (lit "//" ++ path_join cur e')
    end.

(* ---- state.go ---------------------------------------------------------------------------------------- *)

Record state := { st_include : list str; st_exclude : list str; st_exclude_targets : list label }.

Definition empty_state : state := {| st_include := []; st_exclude := []; st_exclude_targets := [] |}.

(* the loop of SetIncludeAndExclude, run in a process started in package `cur`; None = log.Fatalf *)
Fixpoint set_exclude_loop (cur : str) (exclude : list str) (exc : list str) (ets : list label)
  : option (list str * list label) :=
  match exclude with
  | [] => Some (exc, ets)
  | e :: r => if looks_like_label e
              then match parse_exclude cur e with
                   | None => None
                   | Some l => set_exclude_loop cur r exc (ets ++ [l])
                   end
              else set_exclude_loop cur r (exc ++ [e]) ets
  end.

(* func (state *BuildState) SetIncludeAndExclude(include, exclude []string): Exclude is reset, ExcludeTargets is not *)
Definition set_include_and_exclude (cur : str) (st : state) (include exclude : list str) : option state :=
  match set_exclude_loop cur exclude [] (st_exclude_targets st) with
  | None => None
  | Some (exc, ets) => Some {| st_include := include; st_exclude := exc; st_exclude_targets := ets |}
  end.

Definition t_label (t : target) : label := {| l_sub := t_sub t; l_pkg := t_pkg t; l_name := t_name t |}.

Fixpoint any_includes (ets : list label) (l : label) : bool :=
  match ets with
  | [] => false
  | e :: r => if includes e l then true else any_includes r l
  end.

(* func (state *BuildState) ShouldInclude(target *BuildTarget) bool *)
Definition state_should_include (st : state) (t : target) : bool :=
  if any_includes (st_exclude_targets st) (t_label t) then false
  else target_should_include t (st_include st) (st_exclude st).

(* the graph: packages by (name, subrepo), each with its targets (pkg.AllTargets() enumerates a Go map: any order) *)
Record package := { p_sub : str (* pkg.SubrepoName *); p_name : str; p_targets : list target }.
Definition graph := list package.

(* graph.PackageByLabel(label) = graph.packages.Get(packageKey{Name: label.PackageName, Subrepo: label.Subrepo}) *)
Definition package_by_label (g : graph) (l : label) : option package :=
  find (fun p => str_eqb (p_name p) (l_pkg l) && str_eqb (p_sub p) (l_sub l)) g.

(* func (key packageKey) String() string : the key of graph.PackageMap() *)
Definition pkg_key (p : package) : str :=
  if negb (is_nil (p_sub p)) then lit package_key_prefix ++ p_sub p ++ lit package_key_infix ++ p_name p
  else p_name p.

(* addPackage inside expandOriginalPseudoTarget *)
Definition add_package (st : state) (just_tests : bool) (p : package) : list label :=
  map t_label (filter (fun t => state_should_include st t && (negb just_tests || t_test t)) (p_targets p)).

Fixpoint insert (l : label) (sorted : list label) : list label :=
  match sorted with
  | [] => [l]
  | h :: r => if label_less l h then l :: h :: r else h :: insert l r
  end.
Definition sort_labels (ls : list label) : list label := fold_right insert [] ls.

(* func (state *BuildState) expandOriginalPseudoTarget(label BuildLabel, justTests bool) BuildLabels *)
Definition expand_pseudo (st : state) (g : graph) (l : label) (just_tests : bool) : list label :=
  sort_labels
    (if is_all_targets l
     then match package_by_label g l with Some p => add_package st just_tests p | None => [] end
     else flat_map (fun p => if includes l {| l_sub := []; l_pkg := pkg_key p; l_name := [] |}
                             then add_package st just_tests p else []) g).

(* func (state *BuildState) expandLabels(labels []BuildLabel, justTests bool) BuildLabels *)
Definition expand_labels (st : state) (g : graph) (ls : list label) (just_tests : bool) : list label :=
  flat_map (fun l => if is_pseudo l then expand_pseudo st g l just_tests else [l]) ls.

(* AddOriginalTarget(label, true): dropped when an exclude pattern includes the label itself, else appended to
   originalTargets; ExpandOriginalLabels() = expandLabels(originalTargets, NeedTests) *)
Definition add_original (st : state) (originals : list label) (l : label) : list label :=
  if any_includes (st_exclude_targets st) l then originals else originals ++ [l].

Definition expand_originals (st : state) (g : graph) (requested : list label) (need_tests : bool) : list label :=
  expand_labels st g (fold_left (add_original st) requested []) need_tests.

(* ---- target_set.go, original targets (round-2 follow-up) ---------------------------------------------- *)

(* packageKey{Name, Subrepo};  label.packageKey() *)
Definition pkey := (str * str)%type.
Definition pkey_eqb (a b : pkey) : bool := str_eqb (fst a) (fst b) && str_eqb (snd a) (snd b).
Definition label_key (l : label) : pkey := (l_pkg l, l_sub l).

(* type TargetSet struct { targets map[BuildLabel]struct{}; packages map[packageKey]struct{}; everything []BuildLabel }
   the two maps as lists looked up by existsb (sets) *)
Record target_set := { ts_targets : list label; ts_packages : list pkey; ts_everything : list label }.
Definition empty_ts : target_set := {| ts_targets := []; ts_packages := []; ts_everything := [] |}.

(* func (ts *TargetSet) Add(label BuildLabel);  None = the panic on a `...` label *)
Definition ts_add (ts : target_set) (l : label) : option target_set :=
  if is_all_subpackages l then None
  else if is_all_targets l
       then Some {| ts_targets := ts_targets ts; ts_packages := label_key l :: ts_packages ts;
                    ts_everything := ts_everything ts ++ [l] |}
       else Some {| ts_targets := l :: ts_targets ts; ts_packages := ts_packages ts;
                    ts_everything := ts_everything ts ++ [l] |}.

Definition mem_label (l : label) (ls : list label) : bool := existsb (label_eqb l) ls.

(* func (ts *TargetSet) Match(label BuildLabel) (bool, bool) : (matched, wasExact) *)
Definition ts_match (ts : target_set) (l : label) : bool * bool :=
  if mem_label l (ts_targets ts) then (true, true)
  else (existsb (pkey_eqb (label_key l)) (ts_packages ts), false).

(* func (ts *TargetSet) MatchExact(label BuildLabel) bool *)
Definition ts_match_exact (ts : target_set) (l : label) : bool := mem_label l (ts_targets ts).

(* AddOriginalTarget(label, true) on state.progress.originalTargets *)
Definition add_original_ts (st : state) (ts : target_set) (l : label) : option target_set :=
  if any_includes (st_exclude_targets st) l then Some ts else ts_add ts l.

Fixpoint originals (st : state) (ts : target_set) (requested : list label) : option target_set :=
  match requested with
  | [] => Some ts
  | l :: r => match add_original_ts st ts l with None => None | Some ts' => originals st ts' r end
  end.

(* func (state *BuildState) isOriginalTarget(target, false): the returned condition is Gen.is_original_cond, translated
   from the source; its arguments are Match's two results, state.ShouldInclude(target) and - should the source ever
   use it - target.ShouldInclude(state.Include, state.Exclude) *)
Definition is_original (st : state) (ts : target_set) (t : target) : bool :=
  let '(matched, was_exact) := ts_match ts (t_label t) in
  is_original_cond matched was_exact (state_should_include st t)
                   (target_should_include t (st_include st) (st_exclude st)).

(* ---- which tests a `plz test` run executes (plz.Run + ActivateTarget + queueTargetAsync) ------------------- *)

(* the declared dependencies of the graph's targets *)
Definition depmap := list (label * list label).
Definition deps_of (dm : depmap) (l : label) : list label :=
  match find (fun x => label_eqb (fst x) l) dm with Some x => snd x | None => [] end.

Definition all_targets (g : graph) : list target := flat_map p_targets g.

(* ActivateTarget(pkg, label, OriginalTarget, _) for one original label: the members of a requested :all that
   state.ShouldInclude accepts (only the tests when NeedTests), or the named target itself *)
Definition activate (st : state) (g : graph) (need_tests : bool) (l : label) : list label :=
  if is_all_targets l
  then match package_by_label g l with Some p => add_package st need_tests p | None => [] end
  else [l].

Definition roots (st : state) (g : graph) (need_tests : bool) (ts : target_set) : list label :=
  flat_map (activate st g need_tests) (ts_everything ts).

(* queueTargetAsync: every declared dependency of a queued target is queued too.  One round over the targets of the
   graph (`universe`), iterated; the queued - and therefore built - targets are a sublist of the universe. *)
Definition queue_step (dm : depmap) (universe queued : list label) : list label :=
  filter (fun l => mem_label l queued || existsb (fun q => mem_label l (deps_of dm q)) queued) universe.

Fixpoint queued_after (n : nat) (dm : depmap) (universe queued : list label) : list label :=
  match n with
  | O => queued
  | S n' => let next := queue_step dm universe queued in
            if Nat.eqb (length next) (length queued) then queued   (* nothing new was queued: done *)
            else queued_after n' dm universe next
  end.

Definition built (st : state) (g : graph) (dm : depmap) (need_tests : bool) (ts : target_set) : list label :=
  let universe := map t_label (all_targets g) in
  let rs := roots st g need_tests ts in
  queued_after (length universe) dm universe (filter (fun l => mem_label l rs) universe).

(* plz.Run, completeAction: `if state.NeedTests && task.Target.IsTest() && state.IsOriginalTarget(task.Target)
   { state.QueueTestTarget(task.Target) }` for every built target; NeedTests = true *)
Definition tests_run (st : state) (g : graph) (dm : depmap) (ts : target_set) : list label :=
  let b := built st g dm true ts in
  map t_label (filter (fun t => mem_label (t_label t) b && t_test t && is_original st ts t) (all_targets g)).

(* ---- correspondence cases ------------------------------------------------------------------------------ *)

Definition tgt := (str * list str * bool)%type.            (* name, labels, is a test *)
Definition pkg := (str * str * list tgt)%type.             (* subrepo, package name, targets *)
Definition lab := (str * str * str)%type.                  (* subrepo, package name, name *)

Definition mk_target (sub p : str) (x : tgt) : target :=
  let '(n, ls, tst) := x in {| t_sub := sub; t_pkg := p; t_name := n; t_labels := ls; t_test := tst |}.
Definition mk_graph (g : list pkg) : graph :=
  map (fun x => let '(sub, p, ts) := x in {| p_sub := sub; p_name := p; p_targets := map (mk_target sub p) ts |}) g.
Definition mk_label (x : lab) : label := let '(sub, p, n) := x in {| l_sub := sub; l_pkg := p; l_name := n |}.
Definition un_label (l : label) : lab := (l_sub l, l_pkg l, l_name l).
Definition bare (ls : list str) (tst : bool) : target :=
  {| t_sub := []; t_pkg := []; t_name := []; t_labels := ls; t_test := tst |}.

(* `cur` is core.InitialPackagePath while the implementation ran *)
Inductive case :=
| CHas (labels : list str) (is_test : bool) (label : str) (out : bool)
| CTarget (labels : list str) (is_test : bool) (includes excludes : list str) (out : bool)
| CIncl (e that : lab) (out : bool)
| CLooks (x : str) (out : bool)
| CParse (cur x : str) (out : option lab)                     (* TryParseBuildLabel(x, cur, "") *)
| CRel (cur x : str) (out : option lab)                       (* parseMaybeRelativeBuildLabel(x, "") *)
| CJoin (a b out : str)                                       (* filepath.Join(a, b) *)
| CKey (sub name out : str)                                   (* the PackageMap key of a package *)
| CSet (cur : str) (before : list lab) (include exclude : list str)
       (obs_include obs_exclude : list str) (obs_targets : list lab)
| CState (cur sub p : str) (t : tgt) (include exclude : list str) (out : bool)
| CExpand (cur : str) (g : list pkg) (include exclude : list str) (labels : list lab) (need_tests : bool)
          (out : list lab)
| COrig (cur : str) (g : list pkg) (include exclude : list str) (requested : list lab) (need_tests : bool)
        (out : list lab)
(* AddOriginalTarget for every requested label, then IsOriginalTarget of every target of the graph: those it accepts *)
| CIsOrig (cur : str) (g : list pkg) (include exclude : list str) (requested : list lab) (out : list lab)
(* a `plz test` run over the graph with dependency edges (the real state's queues, driven as plz.Run drives them):
   the targets handed to QueueTestTarget, in graph order *)
| CTested (cur : str) (g : list pkg) (deps : list (lab * list lab)) (include exclude : list str)
          (requested : list lab) (out : list lab).

Definition lab_eqb (a b : lab) : bool :=
  str_eqb (fst (fst a)) (fst (fst b)) && str_eqb (snd (fst a)) (snd (fst b)) && str_eqb (snd a) (snd b).
Definition strs_eqb := list_eqb str_eqb.
Definition labs_eqb := list_eqb lab_eqb.

Definition check (c : case) : bool :=
  match c with
  | CHas ls tst l out => Bool.eqb (has_label (bare ls tst) l) out
  | CTarget ls tst incs excs out => Bool.eqb (target_should_include (bare ls tst) incs excs) out
  | CIncl e that out => Bool.eqb (includes (mk_label e) (mk_label that)) out
  | CLooks x out => Bool.eqb (looks_like_label x) out
  | CParse cur x out => option_eqb lab_eqb (option_map un_label (try_parse cur x)) out
  | CRel cur x out => option_eqb lab_eqb (option_map un_label (parse_exclude cur x)) out
  | CJoin a b out => str_eqb (path_join a b) out
  | CKey sub name out => str_eqb (pkg_key {| p_sub := sub; p_name := name; p_targets := [] |}) out
  | CSet cur before inc exc oi oe ot =>
      match set_include_and_exclude cur {| st_include := []; st_exclude := [s "stale"]; st_exclude_targets := map mk_label before |} inc exc with
      | None => false
      | Some st => strs_eqb (st_include st) oi && strs_eqb (st_exclude st) oe
                   && labs_eqb (map un_label (st_exclude_targets st)) ot
      end
  | CState cur sub p t inc exc out =>
      match set_include_and_exclude cur empty_state inc exc with
      | None => false
      | Some st => Bool.eqb (state_should_include st (mk_target sub p t)) out
      end
  | CExpand cur g inc exc ls nt out =>
      match set_include_and_exclude cur empty_state inc exc with
      | None => false
      | Some st => labs_eqb (map un_label (expand_labels st (mk_graph g) (map mk_label ls) nt)) out
      end
  | COrig cur g inc exc req nt out =>
      match set_include_and_exclude cur empty_state inc exc with
      | None => false
      | Some st => labs_eqb (map un_label (expand_originals st (mk_graph g) (map mk_label req) nt)) out
      end
  | CIsOrig cur g inc exc req out =>
      match set_include_and_exclude cur empty_state inc exc with
      | None => false
      | Some st => match originals st empty_ts (map mk_label req) with
                   | None => false
                   | Some ts => labs_eqb (map un_label (map t_label (filter (is_original st ts) (all_targets (mk_graph g))))) out
                   end
      end
  | CTested cur g deps inc exc req out =>
      match set_include_and_exclude cur empty_state inc exc with
      | None => false
      | Some st => match originals st empty_ts (map mk_label req) with
                   | None => false
                   | Some ts => labs_eqb (map un_label (tests_run st (mk_graph g)
                                                         (map (fun x => (mk_label (fst x), map mk_label (snd x))) deps) ts)) out
                   end
      end
  end.
