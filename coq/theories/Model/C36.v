(* C36 - label include/exclude filters.  Executable model of
     src/core/build_target.go : match, HasLabel, HasAllLabels, BuildTarget.ShouldInclude
     src/core/state.go        : SetIncludeAndExclude, BuildState.ShouldInclude, AddOriginalTarget (its exclusion test),
                                expandLabels, expandOriginalPseudoTarget
     src/core/build_label.go  : Includes, IsAllTargets, IsAllSubpackages, IsPseudoTarget, Less, LooksLikeABuildLabel,
                                and the `//pkg:name`, `//pkg`, `//pkg/...` forms of ParseBuildLabelParts with
                                validatePackageName / validateTargetName.
   Every string literal of those functions comes from Gen/LabelFilter.v (regenerated from the source by gotrans,
   which also pins the statement shape of each function).  Labels of the host repository only (Subrepo = "").
   No proofs here. *)
From Coq Require Import String.
From PlzV Require Import Base.Harness Gen.LabelFilter.
Local Open Scope list_scope.

Definition lit (x : string) : str := s x.

(* ---- package strings --------------------------------------------------------------------------------- *)

(* strings.HasPrefix(x, pre) *)
Fixpoint has_prefix (pre x : str) : bool :=
  match pre, x with
  | [], _ => true
  | a :: pre', b :: x' => N.eqb a b && has_prefix pre' x'
  | _ :: _, [] => false
  end.

(* strings.HasSuffix(x, suf) *)
Definition has_suffix (x suf : str) : bool := has_prefix (rev suf) (rev x).

(* strings.Contains(x, sub) *)
Fixpoint contains (x sub : str) : bool :=
  has_prefix sub x || match x with [] => false | _ :: r => contains r sub end.

(* strings.ContainsAny(x, chars), chars ASCII *)
Definition contains_any (x chars : str) : bool := existsb (fun c => existsb (N.eqb c) chars) x.

(* strings.IndexRune / LastIndexByte for an ASCII byte *)
Fixpoint index_byte (c : N) (x : str) : option nat :=
  match x with
  | [] => None
  | b :: r => if N.eqb b c then Some 0 else option_map S (index_byte c r)
  end.

Fixpoint last_index_byte (c : N) (x : str) : option nat :=
  match x with
  | [] => None
  | b :: r => match last_index_byte c r with
              | Some i => Some (S i)
              | None => if N.eqb b c then Some 0 else None
              end
  end.

(* strings.TrimRight(x, "/") *)
Fixpoint trim_right (c : N) (x : str) : str :=
  match x with
  | [] => []
  | b :: r => match trim_right c r with
              | [] => if N.eqb b c then [] else [b]
              | r' => b :: r'
              end
  end.

(* strings.Split(x, sep) for a one-byte separator: never empty *)
Fixpoint split_on (sep : N) (x : str) : list str :=
  match x with
  | [] => [[]]
  | c :: r => if N.eqb c sep then [] :: split_on sep r
              else match split_on sep r with
                   | [] => [[c]]
                   | h :: t => (c :: h) :: t
                   end
  end.

Definition is_nil {A} (l : list A) : bool := match l with [] => true | _ => false end.

(* ---- build_target.go --------------------------------------------------------------------------------- *)

(* func match(pattern, s string) bool *)
Definition match_ (pattern x : str) : bool :=
  if str_eqb pattern x then true
  else if has_suffix pattern [wildcard_byte] && has_prefix (removelast pattern) x then true
  else false.

Record target := { t_pkg : str; t_name : str; t_labels : list str; t_test : bool (* target.Test != nil *) }.

(* the loop of HasLabel *)
Fixpoint any_match (label : str) (ls : list str) : bool :=
  match ls with
  | [] => false
  | l :: r => if match_ label l then true else any_match label r
  end.

Definition has_label (t : target) (label : str) : bool :=
  if any_match label (t_labels t) then true
  else t_test t && match_ label (lit implicit_test_label).

Fixpoint has_all_labels (t : target) (labels : list str) : bool :=
  match labels with
  | [] => true
  | l :: r => if negb (has_label t l) then false else has_all_labels t r
  end.

Definition group (g : str) : list str := split_on group_separator_byte g.

(* `for _, x := range xs { if target.HasAllLabels(strings.Split(x, ",")) { ...; break } }` : did the loop fire? *)
Fixpoint some_group (t : target) (groups : list str) : bool :=
  match groups with
  | [] => false
  | g :: r => if has_all_labels t (group g) then true else some_group t r
  end.

(* func (target *BuildTarget) ShouldInclude(includes, excludes []string) bool *)
Definition target_should_include (t : target) (includes excludes : list str) : bool :=
  if is_nil includes && is_nil excludes then true
  else
    let should0 := is_nil includes in
    let should1 := if some_group t includes then true else should0 in
    if some_group t excludes then false else should1.

(* ---- build_label.go ---------------------------------------------------------------------------------- *)

Record label := { l_pkg : str; l_name : str }.

Definition label_eqb (a b : label) : bool := str_eqb (l_pkg a) (l_pkg b) && str_eqb (l_name a) (l_name b).

Definition is_all_subpackages (l : label) : bool := str_eqb (l_name l) (lit all_subpackages_name).
Definition is_all_targets (l : label) : bool := str_eqb (l_name l) (lit all_targets_name).
Definition is_pseudo (l : label) : bool := is_all_subpackages l || is_all_targets l.

(* func (label BuildLabel) Includes(that BuildLabel) bool   (Subrepo is not looked at by the code) *)
Definition includes (e that : label) : bool :=
  if (str_eqb (l_pkg e) [] && is_all_subpackages e)
     || str_eqb (l_pkg that) (l_pkg e)
     || has_prefix (l_pkg e ++ [package_separator_byte]) (l_pkg that)
  then
    if is_all_subpackages e then true
    else if str_eqb (l_pkg e) (l_pkg that)
         then (if str_eqb (l_name e) (l_name that) || is_all_targets e then true else false)
         else false
  else false.

(* func (label BuildLabel) Less(other BuildLabel) bool, equal (empty) subrepos *)
Definition label_less (a b : label) : bool :=
  if negb (str_eqb (l_pkg a) (l_pkg b)) then str_ltb (l_pkg a) (l_pkg b)
  else str_ltb (l_name a) (l_name b).

Definition looks_like_label (x : str) : bool :=
  existsb (fun p => has_prefix (lit p) x) looks_like_prefixes
  || (has_prefix (lit looks_like_subrepo_prefix) x
      && (contains x (lit looks_like_subrepo_rune) || contains x (lit looks_like_subrepo_infix))).

Definition validate_package_name (name : str) : bool :=
  match name with
  | [] => true
  | c :: _ => negb (N.eqb c package_edge_byte) && negb (N.eqb (last name 0%N) package_edge_byte)
              && negb (contains_any name (lit package_bad_chars)) && negb (contains name (lit package_bad_infix))
  end.

Definition validate_target_name (name : str) : bool :=
  negb (is_nil name) && negb (contains_any name (lit name_bad_chars))
  && (negb (N.eqb (hd 0%N name) name_hidden_byte) || str_eqb name (lit name_hidden_exception))
  && forallb (fun suf => negb (has_suffix name (lit suf))) reserved_suffixes.

(* ParseBuildLabelParts(target, "", "") for the host-repository forms.  None = the ("","","") error result, or a
   form outside this model (':' relative labels need the working directory, '@' and '///' are subrepo labels). *)
Definition parse_parts (target : str) : option (str * str) :=
  if Nat.ltb (length target) 2 then None
  else match target with
  | 58%N :: _ => None
  | 64%N :: _ => None
  | 47%N :: 47%N :: 47%N :: _ => None
  | 47%N :: 47%N :: rest =>
      match index_byte 58%N target with
      | Some idx =>
          let pkg := firstn (idx - 2) rest in
          let name := skipn (idx + 1) target in
          if negb (validate_package_name pkg) || negb (validate_target_name name) || str_eqb name (lit "...")
          then None else Some (pkg, name)
      | None =>
          if negb (validate_package_name rest) then None
          else if has_suffix target (lit "/...")
               then Some (trim_right 47%N (firstn (length target - 3 - 2) rest), lit "...")
               else match last_index_byte 47%N target with
                    | Some idx => Some (rest, skipn (idx + 1) target)
                    | None => Some (rest, rest)
                    end
      end
  | _ => None
  end.

(* TryParseBuildLabel(target, "", "") *)
Definition try_parse (target : str) : option label :=
  match parse_parts target with
  | Some (pkg, name) => if is_nil name then None else Some {| l_pkg := pkg; l_name := name |}
  | None => None
  end.

(* parseMaybeRelativeBuildLabel(e, "") for an e that LooksLikeABuildLabel: `//` forms return straight from
   TryParseBuildLabel; the others are outside the model *)
Definition parse_exclude (e : str) : option label :=
  if has_prefix (lit "//") e then try_parse e else None.

(* ---- state.go ---------------------------------------------------------------------------------------- *)

Record state := { st_include : list str; st_exclude : list str; st_exclude_targets : list label }.

Definition empty_state : state := {| st_include := []; st_exclude := []; st_exclude_targets := [] |}.

(* the loop of SetIncludeAndExclude; None = log.Fatalf (or a label form outside the model) *)
Fixpoint set_exclude_loop (exclude : list str) (exc : list str) (ets : list label) : option (list str * list label) :=
  match exclude with
  | [] => Some (exc, ets)
  | e :: r => if looks_like_label e
              then match parse_exclude e with
                   | None => None
                   | Some l => set_exclude_loop r exc (ets ++ [l])
                   end
              else set_exclude_loop r (exc ++ [e]) ets
  end.

(* func (state *BuildState) SetIncludeAndExclude(include, exclude []string): Exclude is reset, ExcludeTargets is not *)
Definition set_include_and_exclude (st : state) (include exclude : list str) : option state :=
  match set_exclude_loop exclude [] (st_exclude_targets st) with
  | None => None
  | Some (exc, ets) => Some {| st_include := include; st_exclude := exc; st_exclude_targets := ets |}
  end.

Definition t_label (t : target) : label := {| l_pkg := t_pkg t; l_name := t_name t |}.

Fixpoint any_includes (ets : list label) (l : label) : bool :=
  match ets with
  | [] => false
  | e :: r => if includes e l then true else any_includes r l
  end.

(* func (state *BuildState) ShouldInclude(target *BuildTarget) bool *)
Definition state_should_include (st : state) (t : target) : bool :=
  if any_includes (st_exclude_targets st) (t_label t) then false
  else target_should_include t (st_include st) (st_exclude st).

(* the graph: packages by name, each with its targets (pkg.AllTargets() enumerates a Go map: any order) *)
Record package := { p_name : str; p_targets : list target }.
Definition graph := list package.

Definition package_by_label (g : graph) (l : label) : option package :=
  find (fun p => str_eqb (p_name p) (l_pkg l)) g.

(* addPackage inside expandOriginalPseudoTarget *)
Definition add_package (st : state) (just_tests : bool) (p : package) : list label :=
  map t_label (filter (fun t => state_should_include st t && (negb just_tests || t_test t)) (p_targets p)).

Fixpoint insert (l : label) (sorted : list label) : list label :=
  match sorted with
  | [] => [l]
  | h :: r => if label_less l h then l :: h :: r else h :: insert l r
  end.
Definition sort_labels (ls : list label) : list label := fold_right insert [] ls.

(* func (state *BuildState) expandOriginalPseudoTarget(label BuildLabel, justTests bool) BuildLabels *)
Definition expand_pseudo (st : state) (g : graph) (l : label) (just_tests : bool) : list label :=
  sort_labels
    (if is_all_targets l
     then match package_by_label g l with Some p => add_package st just_tests p | None => [] end
     else flat_map (fun p => if includes l {| l_pkg := p_name p; l_name := [] |}
                             then add_package st just_tests p else []) g).

(* func (state *BuildState) expandLabels(labels []BuildLabel, justTests bool) BuildLabels *)
Definition expand_labels (st : state) (g : graph) (ls : list label) (just_tests : bool) : list label :=
  flat_map (fun l => if is_pseudo l then expand_pseudo st g l just_tests else [l]) ls.

(* AddOriginalTarget(label, true): dropped when an exclude pattern includes the label itself, else appended to
   originalTargets; ExpandOriginalLabels() = expandLabels(originalTargets, NeedTests) *)
Definition add_original (st : state) (originals : list label) (l : label) : list label :=
  if any_includes (st_exclude_targets st) l then originals else originals ++ [l].

Definition expand_originals (st : state) (g : graph) (requested : list label) (need_tests : bool) : list label :=
  expand_labels st g (fold_left (add_original st) requested []) need_tests.

(* ---- correspondence cases ------------------------------------------------------------------------------ *)

Definition tgt := (str * list str * bool)%type.            (* name, labels, is a test *)
Definition pkg := (str * list tgt)%type.

Definition mk_target (p : str) (x : tgt) : target :=
  let '(n, ls, tst) := x in {| t_pkg := p; t_name := n; t_labels := ls; t_test := tst |}.
Definition mk_graph (g : list pkg) : graph :=
  map (fun p => {| p_name := fst p; p_targets := map (mk_target (fst p)) (snd p) |}) g.
Definition mk_label (x : str * str) : label := {| l_pkg := fst x; l_name := snd x |}.
Definition un_label (l : label) : str * str := (l_pkg l, l_name l).

Inductive case :=
| CHas (labels : list str) (is_test : bool) (label : str) (out : bool)
| CTarget (labels : list str) (is_test : bool) (includes excludes : list str) (out : bool)
| CIncl (e that : str * str) (out : bool)
| CLooks (x : str) (out : bool)
| CParse (x : str) (out : option (str * str))
| CSet (before : list (str * str)) (include exclude : list str)
       (obs_include obs_exclude : list str) (obs_targets : list (str * str))
| CState (p : str) (t : tgt) (include exclude : list str) (out : bool)
| CExpand (g : list pkg) (include exclude : list str) (labels : list (str * str)) (need_tests : bool)
          (out : list (str * str))
| COrig (g : list pkg) (include exclude : list str) (requested : list (str * str)) (need_tests : bool)
        (out : list (str * str)).

Definition pair_eqb (a b : str * str) : bool := str_eqb (fst a) (fst b) && str_eqb (snd a) (snd b).
Definition strs_eqb := list_eqb str_eqb.
Definition pairs_eqb := list_eqb pair_eqb.

Definition check (c : case) : bool :=
  match c with
  | CHas ls tst l out =>
      Bool.eqb (has_label {| t_pkg := []; t_name := []; t_labels := ls; t_test := tst |} l) out
  | CTarget ls tst incs excs out =>
      Bool.eqb (target_should_include {| t_pkg := []; t_name := []; t_labels := ls; t_test := tst |} incs excs) out
  | CIncl e that out => Bool.eqb (includes (mk_label e) (mk_label that)) out
  | CLooks x out => Bool.eqb (looks_like_label x) out
  | CParse x out => option_eqb pair_eqb (option_map un_label (try_parse x)) out
  | CSet before inc exc oi oe ot =>
      match set_include_and_exclude {| st_include := []; st_exclude := [s "stale"]; st_exclude_targets := map mk_label before |} inc exc with
      | None => false
      | Some st => strs_eqb (st_include st) oi && strs_eqb (st_exclude st) oe
                   && pairs_eqb (map un_label (st_exclude_targets st)) ot
      end
  | CState p t inc exc out =>
      match set_include_and_exclude empty_state inc exc with
      | None => false
      | Some st => Bool.eqb (state_should_include st (mk_target p t)) out
      end
  | CExpand g inc exc ls nt out =>
      match set_include_and_exclude empty_state inc exc with
      | None => false
      | Some st => pairs_eqb (map un_label (expand_labels st (mk_graph g) (map mk_label ls) nt)) out
      end
  | COrig g inc exc req nt out =>
      match set_include_and_exclude empty_state inc exc with
      | None => false
      | Some st => pairs_eqb (map un_label (expand_originals st (mk_graph g) (map mk_label req) nt)) out
      end
  end.
