(* C37 - command location expansions.  Executable model of
     src/core/command_replacements.go : replaceSequencesInternal (the ordered regex passes and the final unescape),
                                        ReplaceTestSequences (empty command / plain command), splitEntryPoint,
                                        replaceSequence, sourcesOrTools, replaceSequenceLabel, checkAndReplaceSequence,
                                        fileDestination, quote, handleDir
     src/core/utils.go               : IterSources / IterInputs (which files are linked into the build directory)
     src/core/build_target.go        : OutDir, DependenciesFor, IsTool, BuildDependencies (through the flag merging of
                                        AddSource / AddTool / AddDependency)
   The label parser is the one of property C20 (Model/C20.v, tied to core.TryParseBuildLabel by C20's own
   correspondence).  The character set of `quote`, the entry point separator, the list of passes (keyword, slice
   offset, the five flags) and the final unescape come from Gen/CmdReplTables.v, regenerated from the source.

   World: one current target (sources, unnamed tools, deps) and the targets it may name, in the main repository or
   in subrepos (a label is package, name AND subrepo; the current target itself is in the main repository, so the
   implicit-subrepo retry of dependenciesFor never fires); the order of dependency lookups of replaceSequenceLabel
   comes from Gen/CmdReplTables.v (dep_lookup).  No require/provide, no data/runtime/exported/internal dependencies, no named source or tool groups, no filegroups, no
   remote execution, no Bazel compatibility, no $(worker).  filepath.Join is modelled on clean components (it is
   `a/b`, dropping empty components; the path cleaning of ., .. and // is not modelled).  $(hash) is modelled with
   the hash text as a function of the world.  log.Fatalf (unknown entry point) is the result RFatal.
   No proofs here. *)
From Coq Require Import String.
From PlzV Require Import Base.Harness Gen.CmdReplTables.
From PlzV Require Model.C20.
Local Open Scope list_scope.

Definition is_nil {A} (l : list A) : bool := match l with [] => true | _ => false end.
Definition has_prefix := C20.has_prefix.            (* strings.HasPrefix(x, pre) = has_prefix pre x *)

(* ---- results ------------------------------------------------------------------------------------------------- *)

Inductive res (A : Type) := ROk (a : A) | RErr | RFatal | RFuel.
Arguments ROk {A} a. Arguments RErr {A}. Arguments RFatal {A}. Arguments RFuel {A}.

Definition bind {A B} (r : res A) (f : A -> res B) : res B :=
  match r with ROk a => f a | RErr => RErr | RFatal => RFatal | RFuel => RFuel end.

(* ---- the world ------------------------------------------------------------------------------------------------ *)

Definition lbl := (str * str * str)%type.      (* package name, target name, subrepo ("" = the main repository) *)
Definition lb_pkg (l : lbl) : str := fst (fst l).
Definition lb_name (l : lbl) : str := snd (fst l).
Definition lb_sub (l : lbl) : str := snd l.
Definition lbl_eqb (a b : lbl) : bool :=
  str_eqb (lb_pkg a) (lb_pkg b) && str_eqb (lb_name a) (lb_name b) && str_eqb (lb_sub a) (lb_sub b).

Record tgt := T {
  t_lbl : lbl;
  t_outs : list str;                  (* Outputs(): declared and named outputs, sorted *)
  t_named : list (str * list str);    (* namedOutputs *)
  t_eps : list (str * str);           (* EntryPoints *)
  t_binary : bool }.

Inductive input :=
| IFile (f : str)                     (* FileLabel: String() = f, Paths = [pkg/f] *)
| ILabel (l : lbl)                    (* BuildLabel *)
| IAnnot (l : lbl) (ann : str)        (* AnnotatedOutputLabel //p:n|ann *)
| ISys (p : str).                     (* SystemFileLabel / SystemPathLabel: String() = p *)

Record world := W {
  w_self : tgt;                       (* the target whose command is expanded *)
  w_srcs : list input;                (* AllSources() *)
  w_tools : list input;               (* Tools *)
  w_deps : list lbl;                  (* deps *)
  w_graph : list tgt;                 (* the other targets *)
  w_root : str;                       (* working directory of plz = repository root (filepath.Abs) *)
  w_hash : lbl -> str;                (* base64 of TargetHasher.OutputHash(dep) *)
  w_fhash : str -> str }.             (* base64 of PathHasher.MustHash(path) *)

Definition w_pkg (w : world) : str := lb_pkg (t_lbl (w_self w)).

Definition input_label (i : input) : option lbl :=
  match i with ILabel l => Some l | IAnnot l _ => Some l | _ => None end.
Definition has_label (l : lbl) (i : input) : bool :=
  match input_label i with Some k => lbl_eqb k l | None => false end.

(* dependencyInfo(label) != nil: AddSource, AddTool and deps all add an entry *)
Definition declared (w : world) (l : lbl) : bool :=
  existsb (has_label l) (w_srcs w) || existsb (has_label l) (w_tools w) || existsb (lbl_eqb l) (w_deps w).
(* IsTool *)
Definition is_tool (w : world) (l : lbl) : bool := existsb (has_label l) (w_tools w).

Fixpoint lookup_tgt (l : lbl) (g : list tgt) : option tgt :=
  match g with
  | [] => None
  | d :: r => if lbl_eqb (t_lbl d) l then Some d else lookup_tgt l r
  end.

Fixpoint assoc {B} (k : str) (m : list (str * B)) : option B :=
  match m with
  | [] => None
  | (a, b) :: r => if str_eqb a k then Some b else assoc k r
  end.

(* ---- paths ---------------------------------------------------------------------------------------------------- *)

(* filepath.Join(a, b) on clean components *)
Definition join (a b : str) : str := if is_nil a then b else if is_nil b then a else a ++ 47%N :: b.

Definition gen_dir : str := s "plz-out/gen".
Definition bin_dir : str := s "plz-out/bin".
(* OutDir(): filepath.Join(GenDir | BinDir, Label.Subrepo, Label.PackageName) *)
Definition out_dir (d : tgt) : str :=
  join (if t_binary d then bin_dir else gen_dir) (join (lb_sub (t_lbl d)) (lb_pkg (t_lbl d))).
Definition handle_dir (outdir out : str) (dir : bool) : str := if dir then outdir else join outdir out.

(* ---- quote ---------------------------------------------------------------------------------------------------- *)

Definition quote_set : str := s quote_chars.
Definition needs_quote (x : str) : bool := C20.contains_any x quote_set.
Definition quote (x : str) : str := if needs_quote x then 34%N :: x ++ [34%N] else x.

(* ---- pieces: what one sequence expands to ------------------------------------------------------------------------ *)

Inductive base := InTmp | InRepo | InAbs.       (* relative to $TMP_DIR (the cwd) / to the repo root / absolute *)
Inductive piece := PFile (b : base) (p : str) | PDir (b : base) (p : str) | PRaw (t : str).

Definition piece_word (p : piece) : str := match p with PFile _ x => x | PDir _ x => x | PRaw t => t end.
Definition piece_text (p : piece) : str := match p with PFile _ x => quote x | PDir _ x => quote x | PRaw t => t end.
Definition mk_piece (dir : bool) (b : base) (x : str) : piece := if dir then PDir b x else PFile b x.

Definition flags := (bool * bool * bool * bool * bool)%type.    (* runnable, multiple, dir, outPrefix, hash *)

Definition file_destination (is_self test : bool) (d : tgt) (out : str) (dir outp : bool) : piece :=
  if outp then mk_piece dir InRepo (handle_dir (out_dir d) out dir)
  else if test && is_self then PFile InTmp (s "./" ++ out)
  else mk_piece dir InTmp (handle_dir (lb_pkg (t_lbl d)) out dir).

Definition one_out (w : world) (test is_self tool : bool) (d : tgt) (dir outp : bool) (out : str) : piece :=
  if tool then mk_piece dir InAbs (join (w_root w) (handle_dir (out_dir d) out dir))    (* !WillRunRemotely *)
  else file_destination is_self test d out dir outp.

Definition trim_right_sp (x : str) : str := C20.trim_right 32%N x.

Definition check_and_replace (w : world) (test : bool) (fl : flags) (is_self tool all_outputs : bool)
           (d : tgt) (ep inp : str) : res (str * list piece) :=
  let '(runnable, multiple, dir, outp, hash) := fl in
  let outs := t_outs d in
  if all_outputs && negb multiple && Nat.ltb 1 (length outs) && is_nil ep then RErr
  else if runnable && negb (t_binary d) then RErr
  else if runnable && is_nil outs then RErr
  else if test && tool then RErr
  else if hash then ROk (w_hash w (t_lbl d), [PRaw (w_hash w (t_lbl d))])
  else if is_nil ep then
    let sel := filter (fun o => all_outputs || str_eqb o inp) outs in
    let sel := if dir then firstn 1 sel else sel in
    let ps := map (one_out w test is_self tool d dir outp) sel in
    ROk (trim_right_sp (concat (map (fun p => piece_text p ++ [32%N]) ps)), ps)
  else match assoc ep (t_eps d) with
       | None => RFatal
       | Some out => let p := file_destination is_self test d out dir outp in ROk (piece_text p, [p])
       end.

(* one dependency lookup of replaceSequenceLabel: the key handed to target.DependenciesFor *)
Definition lookup_key (st : lookup_step) (k : lbl) : option lbl :=
  match st with
  | LookupExact => Some k
  | LookupStripSubrepo => if is_nil (lb_sub k) then None else Some (lb_pkg k, lb_name k, [])
  end.

(* deps := DependenciesFor(label); [if len(deps) == 0 && ... { retry }]*: the first key that is a dependency *)
Fixpoint find_dep (w : world) (steps : list lookup_step) (k : lbl) : option lbl :=
  match steps with
  | [] => None
  | st :: r =>
      match lookup_key st k with
      | Some k' => if declared w k' then Some k' else find_dep w r k
      | None => find_dep w r k
      end
  end.

Definition label_key (l : C20.label) : lbl := (C20.l_pkg l, C20.l_name l, C20.l_sub l).

Definition replace_label (w : world) (test : bool) (fl : flags) (l : C20.label) (ep inp : str)
           (all_outputs : bool) : res (str * list piece) :=
  let k := label_key l in
  if lbl_eqb k (t_lbl (w_self w)) then check_and_replace w test fl true false all_outputs (w_self w) ep inp
  else match find_dep w dep_lookup k with
       | Some k' =>
           match lookup_tgt k' (w_graph w) with
           (* a retry assigns label.Subrepo, so IsTool(label) is asked about the key that was found *)
           | Some d => check_and_replace w test fl false (is_tool w k') all_outputs d ep inp
           | None => RErr
           end
       | None => RErr
       end.

Definition looks_like_label (x : str) : bool :=
  has_prefix (s "//") x || has_prefix (s ":") x
  || (has_prefix (s "@") x && (C20.mem_byte 58%N x || C20.contains_dslash x)).

Definition ep_sep : N := match s entry_point_sep with c :: _ => c | [] => 124%N end.

(* if Contains(label, "|") { parts := Split(label, "|"); return parts[0], parts[1] } return label, "" *)
Definition split_entry_point (x : str) : str * str :=
  match C20.split_byte ep_sep x with
  | None => (x, [])
  | Some (a, rest) => (a, match C20.split_byte ep_sep rest with Some (b, _) => b | None => rest end)
  end.

Definition input_string_is (inp : str) (i : input) : bool :=
  match i with IFile f => str_eqb f inp | ISys p => str_eqb p inp | _ => false end.

Definition replace_sequence (w : world) (test : bool) (fl : flags) (inp : str) : res (str * list piece) :=
  let '(runnable, multiple, dir, outp, hash) := fl in
  if looks_like_label inp then
    let (lbl_s, ep) := split_entry_point inp in
    match C20.try_parse lbl_s (w_pkg w) [] with
    | C20.OutOfFuel => RFuel
    | C20.Invalid => RErr
    | C20.Parsed l => replace_label w test fl l ep lbl_s true
    end
  else
    (* the loop over sourcesOrTools: an input with a label prints as //..., which looks like a label, so its
       first branch cannot fire here; a tool without a label whose String() is `in` is returned as it is *)
    if runnable && existsb (input_string_is inp) (w_tools w) then ROk (inp, [PRaw inp])
    else if hash then ROk (w_fhash w (join (w_pkg w) inp), [PRaw (w_fhash w (join (w_pkg w) inp))])
    else if has_prefix (s "/") inp then ROk (inp, [PRaw inp])
    else let p := PFile InTmp (join (w_pkg w) inp) in ROk (piece_text p, [p]).

(* ---- the passes ----------------------------------------------------------------------------------------------- *)

(* number of bytes before the first ')' *)
Fixpoint span_arg (x : str) : option nat :=
  match x with
  | [] => None
  | c :: r => if N.eqb c 41 then Some O else match span_arg r with Some n => Some (S n) | None => None end
  end.

(* does \$\(KW ([^\)]+)\) match at the start of x?  Some (the whole match) *)
Definition match_at (pre x : str) : option str :=
  if has_prefix pre x then
    match span_arg (skipn (length pre) x) with
    | Some (S n) => Some (firstn (length pre + S n + 1) x)
    | _ => None
    end
  else None.

(* Re.ReplaceAllStringFunc(x, func(in) { f(in[off:len(in)-1]) }): leftmost non-overlapping matches;
   `skip` = bytes of the current match still to be dropped *)
Fixpoint scan (pre : str) (off : nat) (f : str -> res (str * list piece)) (x : str) (skip : nat) : res str :=
  match x with
  | [] => ROk []
  | c :: r =>
      match skip with
      | S k => scan pre off f r k
      | O =>
          match match_at pre x with
          | Some whole =>
              bind (f (C20.drop_last 1 (skipn off whole))) (fun tp =>
              bind (scan pre off f r (length whole - 1)) (fun o => ROk (fst tp ++ o)))
          | None => bind (scan pre off f r 0) (fun o => ROk (c :: o))
          end
      end
  end.

Definition pass_prefix (kw : string) : str := s "$(" ++ s kw ++ [32%N].

Fixpoint run_passes (w : world) (test : bool) (ps : list (string * nat * flags)) (cmd : str) : res str :=
  match ps with
  | [] => ROk cmd
  | (kw, off, fl) :: r =>
      bind (scan (pass_prefix kw) off (replace_sequence w test fl) cmd 0) (run_passes w test r)
  end.

(* strings.ReplaceAll(x, from, to), from non-empty *)
Fixpoint replace_all (from to x : str) (skip : nat) : str :=
  match x with
  | [] => []
  | c :: r =>
      match skip with
      | S k => replace_all from to r k
      | O => if has_prefix from x then to ++ replace_all from to r (length from - 1)
             else c :: replace_all from to r 0
      end
  end.

Definition expand_cmd (w : world) (test : bool) (cmd : str) : res str :=
  bind (run_passes w test passes cmd) (fun c => ROk (replace_all (s unescape_from) (s unescape_to) c 0)).

(* ReplaceTestSequences (the $(worker form is not modelled) *)
Definition expand_test_cmd (w : world) (cmd : str) : res str :=
  if is_nil cmd then expand_cmd w true (s "$(exe :" ++ lb_name (t_lbl (w_self w)) ++ s ")")
  else expand_cmd w true cmd.

(* ---- the build directory (IterSources with includeTools = false) ------------------------------------------------ *)

Definition prefixed (d : tgt) (outs : list str) : list str := map (join (lb_pkg (t_lbl d))) outs.

Definition all_outs_of (w : world) (l : lbl) : list str :=
  match lookup_tgt l (w_graph w) with Some d => prefixed d (t_outs d) | None => [] end.

Definition input_paths (w : world) (i : input) : list str :=
  match i with
  | IFile f => [join (w_pkg w) f]
  | ILabel l => all_outs_of w l
  | IAnnot l ann =>
      match lookup_tgt l (w_graph w) with
      | Some d => match assoc ann (t_eps d) with
                  | Some _ => prefixed d (t_outs d)
                  | None => prefixed d (match assoc ann (t_named d) with Some os => os | None => [] end)
                  end
      | None => []
      end
  | ISys p => [C20.trim_left 47%N p]
  end.

(* the sources, then inner(target): every BuildDependency that is not a tool, with all its outputs *)
Definition tmp_layout (w : world) : list str :=
  flat_map (input_paths w) (w_srcs w)
  ++ flat_map (fun l => if is_tool w l then [] else all_outs_of w l) (w_deps w).

(* plz-out: the outputs of every declared dependency have been built before the command runs *)
Definition out_layout (w : world) : list str :=
  flat_map (fun d => if declared w (t_lbl d) then map (join (out_dir d)) (t_outs d) else []) (w_graph w).

Definition covers (r p : str) : bool := str_eqb r p || has_prefix (r ++ [47%N]) p.
Definition dir_of (x r : str) : bool := has_prefix (x ++ [47%N]) r.

Definition present (w : world) (p : piece) : bool :=
  match p with
  | PFile InTmp x => existsb (fun r => covers r x) (tmp_layout w)
  | PDir InTmp x => negb (is_nil x) && existsb (dir_of x) (tmp_layout w)
  | PFile InRepo x => existsb (fun r => covers r x) (out_layout w)
  | PDir InRepo x => existsb (dir_of x) (out_layout w)
  | PFile InAbs x => existsb (fun r => covers (join (w_root w) r) x) (out_layout w)
  | PDir InAbs x => existsb (fun r => dir_of x (join (w_root w) r)) (out_layout w)
  | PRaw _ => true
  end.

(* entry points name files of the rule's output (moveOutputs checks that they exist after the build) *)
Definition wf_tgt (d : tgt) : bool :=
  forallb (fun o => negb (is_nil o)) (t_outs d)       (* BuildTarget.insert refuses "" *)
  && forallb (fun e => existsb (fun o => covers o (snd e)) (t_outs d)) (t_eps d).
(* the current target is in the main repository (labels of its command are parsed with subrepo "") *)
Definition wf_world (w : world) : bool := is_nil (lb_sub (t_lbl (w_self w))) && forallb wf_tgt (w_graph w).

(* ---- a conservative shell word splitter ------------------------------------------------------------------------- *)

(* space and tab separate words; a newline ends the command, so it is treated as unsafe *)
Definition is_blank (c : N) : bool := N.eqb c 32 || N.eqb c 9.
(* the shell metacharacters of the task statement: a word containing one of them unquoted is not known to be one word *)
Definition unsafe_set : str := s "|&;()<>$`\""'*?[#~=%{}".
Definition unsafe (c : N) : bool := C20.mem_byte c unsafe_set || N.eqb c 10.
(* inside double quotes: dollar, backquote, backslash and the double quote stay active *)
Definition dq_active (c : N) : bool := C20.mem_byte c (s "$`\""").

(* None = not known to be safe.  cur = the word being read, started = a word is in progress, inq = inside "..." *)
Fixpoint sw (x cur : str) (started inq : bool) : option (list str) :=
  match x with
  | [] => if inq then None else Some (if started then [cur] else [])
  | c :: r =>
      if inq then
        if N.eqb c 34 then sw r cur true false
        else if dq_active c then None
        else sw r (cur ++ [c]) true true
      else if is_blank c then
        match sw r [] false false with
        | Some ws => Some (if started then cur :: ws else ws)
        | None => None
        end
      else if N.eqb c 34 then sw r cur true true
      else if unsafe c then None
      else sw r (cur ++ [c]) true false
  end.
Definition shell_words (x : str) : option (list str) := sw x [] false false.

Definition plain_safe (x : str) : bool := forallb (fun c => negb (is_blank c) && negb (unsafe c)) x.
Definition dq_safe (x : str) : bool := forallb (fun c => negb (dq_active c)) x.
(* the expansion of this piece is one shell word whose value is the path *)
Definition piece_ok (p : piece) : bool :=
  match p with
  | PRaw t => negb (is_nil t) && plain_safe t
  | PFile _ x | PDir _ x => negb (is_nil x) && (if needs_quote x then dq_safe x else plain_safe x)
  end.

(* ---- defect classes (KNOWN_FINDINGS.jsonl) ---------------------------------------------------------------------- *)

Inductive defect :=
| DUndeclaredFile      (* undeclared-file-not-rejected *)
| DNamedOnly           (* named-output-source-lists-all-outputs *)
| DToolEntryPoint      (* tool-entry-point-relative-path *)
| DRootDir             (* dir-of-root-package-empty *)
| DSelf.               (* self-reference-in-build-command *)

(* all outputs of l are linked into the build directory *)
Definition placed_whole (w : world) (l : lbl) (d : tgt) : bool :=
  existsb (fun i => match i with
                    | ILabel k => lbl_eqb k l
                    | IAnnot k ann => lbl_eqb k l && match assoc ann (t_eps d) with Some _ => true | None => false end
                    | _ => false
                    end) (w_srcs w)
  || (existsb (lbl_eqb l) (w_deps w) && negb (is_tool w l)).

Definition file_declared (w : world) (inp : str) : bool :=
  existsb (fun i => match i with IFile f => covers (join (w_pkg w) f) (join (w_pkg w) inp) | _ => false end) (w_srcs w).

(* of a sequence of a BUILD command (test = false) *)
Definition defect_class (w : world) (fl : flags) (inp : str) : option defect :=
  let '(runnable, multiple, dir, outp, hash) := fl in
  if looks_like_label inp then
    let (lbl_s, ep) := split_entry_point inp in
    match C20.try_parse lbl_s (w_pkg w) [] with
    | C20.Parsed l =>
        let k := label_key l in
        if lbl_eqb k (t_lbl (w_self w)) then Some DSelf
        else match lookup_tgt k (w_graph w) with
             | Some d =>
                 let tool := is_tool w k in
                 if outp || hash then None
                 else if negb (is_nil ep) then
                   if tool then Some DToolEntryPoint
                   else if negb (placed_whole w k d) then Some DNamedOnly
                   else if dir && is_nil (lb_pkg (t_lbl d)) then Some DRootDir
                   else None
                 else if tool then None
                 else if negb (placed_whole w k d) then Some DNamedOnly
                 else if dir && is_nil (lb_pkg (t_lbl d)) && negb (is_nil (t_outs d)) then Some DRootDir
                 else None
             | None => None
             end
    | _ => None
    end
  else if runnable && existsb (input_string_is inp) (w_tools w) then None
  else if hash then None
  else if has_prefix (s "/") inp then None
  else if file_declared w inp then None else Some DUndeclaredFile.

(* ---- correspondence cases ---------------------------------------------------------------------------------------- *)

Inductive outcome := OText (t : str) | OErr | OFatal.

Definition outcome_eqb (r : res str) (o : outcome) : bool :=
  match r, o with
  | ROk t, OText u => str_eqb t u
  | RErr, OErr => true
  | RFatal, OFatal => true
  | _, _ => false
  end.

Fixpoint subset (a b : list str) : bool :=
  match a with [] => true | x :: r => existsb (str_eqb x) b && subset r b end.
Definition set_eqb (a b : list str) : bool := subset a b && subset b a.

Definition mk_world (self : tgt) (srcs tools : list input) (deps : list lbl) (graph : list tgt) (root : str) : world :=
  W self srcs tools deps graph root (fun _ => []) (fun _ => []).

Inductive case :=
| CCmd (w : world) (test : bool) (cmd : str) (o : outcome)     (* ReplaceSequences / ReplaceTestSequences *)
| CLayout (w : world) (tmp_paths : list str)                    (* IterSources: tmp paths relative to TmpDir() *)
| CWords (text : str) (safe : bool) (words : list str).         (* bash on a text the splitter accepts *)

Definition check (c : case) : bool :=
  match c with
  | CCmd w test cmd o => outcome_eqb (if test then expand_test_cmd w cmd else expand_cmd w false cmd) o
  | CLayout w ps => set_eqb (tmp_layout w) ps
  | CWords text safe ws =>
      match shell_words text with
      | Some m => list_eqb str_eqb m ws      (* whenever the splitter answers, bash agrees *)
      | None => negb safe                     (* the harness marks texts it built from safe words *)
      end
  end.
