(* C16 - sorted(seq, key=, reverse=) and the dict union `|`, written against the definitions gotrans regenerates from
   builtins.go sorted() and objects.go pyDict.Operator (Gen/C16Builtins.v).  No proofs here.

   sorted(): sort.SliceStable (since /repo 62283f2) is a STABLE sort: insertion sort on blocks of 20 elements, then
   symMerge.  A stable sort with a strict weak `less` has exactly one result (Proof/C16_Sort.v stable_sorted_unique), so
   the model computes it with the simplest stable sort there is, insertionSortLessFunc
       for i := a + 1; i < b; i++ { for j := i; j > a && less(j, j-1); j-- { swap(j, j-1) } }
   (which is also literally what sort.Slice AND sort.SliceStable run on at most 12 elements).  When the source calls
   sort.Slice (pdqsort beyond 12 elements, not stable) the model refuses longer lists.  less(i, j) = s.operator(OP, key(l[i]), key(l[j])).IsTruthy(), OP = Gen.sorted_op_key reverse; whatever stands
   between the sort and the return (Gen.sorted_post_reverse) is applied afterwards.  The keys are what the key function
   returned (the harness reads them off the real interpreter), an element is identified by its position in the input.

   dict union: the steps of the `case Union:` clause are interpreted one by one on the heap of Model/C16_Prim.v. *)
From Coq Require Import String.
From PlzV Require Import Base.Harness Gen.C16Builtins.
From PlzV Require Import Model.C16_Syntax Model.C16_Ops Model.C16_Prim Model.C16_Eval Model.C16 Model.C16_Pure.
Local Open Scope Z_scope.

(* ---------------------------------------------------------------- keys *)
Inductive skey := KInt (z : Z) | KStr (x : str).

(* a total order on keys: ints by value, strings bytewise (Go's <), ints before strings (never used: a list with
   keys of both kinds makes the interpreter panic and the model refuse) *)
Definition key_cmp (a b : skey) : comparison :=
  match a, b with
  | KInt x, KInt y => Z.compare x y
  | KStr x, KStr y => str_cmp x y
  | KInt _, KStr _ => Datatypes.Lt
  | KStr _, KInt _ => Datatypes.Gt
  end.
Definition key_lt (a b : skey) : bool := match key_cmp a b with Datatypes.Lt => true | _ => false end.
Definition key_eqb (a b : skey) : bool := match key_cmp a b with Datatypes.Eq => true | _ => false end.

Definition same_kind (l : list skey) : bool :=
  forallb (fun k => match k with KInt _ => true | _ => false end) l
  || forallb (fun k => match k with KStr _ => true | _ => false end) l.

(* the operators sorted() may hand to s.operator *)
Inductive sort_op := SLt | SGt.
Definition sort_op_of (name : string) : option sort_op :=
  if String.eqb name "LessThan"%string then Some SLt else if String.eqb name "GreaterThan"%string then Some SGt else None.
Definition key_less (o : sort_op) (a b : skey) : bool :=
  match o with SLt => key_lt a b | SGt => key_lt b a end.

(* ---------------------------------------------------------------- insertionSortLessFunc *)
(* rs: the sorted prefix a[0..i-1], LAST element first; x = a[i] moves left while less(x, its left neighbour) *)
Fixpoint ins_r {A} (less : A -> A -> bool) (x : A) (rs : list A) : list A :=
  match rs with
  | [] => [x]
  | y :: r => if less x y then y :: ins_r less x r else x :: rs
  end.
Definition go_isort {A} (less : A -> A -> bool) (l : list A) : list A :=
  rev (fold_left (fun acc x => ins_r less x acc) l []).

(* an element of the list being sorted: its key and its position in the input *)
Definition keyed := (skey * nat)%type.
Definition tag (keys : list skey) : list keyed := combine keys (seq 0 (length keys)).

(* which lengths the sort function sorts stably: None - a function the model does not know *)
Inductive sort_fn := FStable | FSlice.
Definition sort_fn_of (name : string) : option sort_fn :=
  if String.eqb name "sort.SliceStable"%string then Some FStable else if String.eqb name "sort.Slice"%string then Some FSlice else None.
Definition modelled_length (f : sort_fn) (n : nat) : bool := match f with FStable => true | FSlice => Nat.leb n 12 end.

(* sorted() after the argument checks and the clone: THE stable sort of l by `less` *)
Definition sorted_by (o : sort_op) (post_reverse : bool) (rv : bool) (l : list keyed) : list keyed :=
  let r := go_isort (fun a b => key_less o (fst a) (fst b)) l in
  if post_reverse && rv then rev r else r.

(* ... with the operator and the post-processing of the CURRENT source; None: outside the modelled fragment *)
Definition asp_sorted (rv : bool) (l : list keyed) : option (list keyed) :=
  match sort_op_of (sorted_op_key rv) with
  | Some o => Some (sorted_by o sorted_post_reverse rv l)
  | None => None
  end.

(* the permutation sorted(seq, key=f, reverse=rv) applies to seq, given the keys f returns *)
Definition asp_sorted_perm (keys : list skey) (rv : bool) : option (list nat) :=
  match sort_fn_of sorted_fn_key with
  | None => None
  | Some f =>
      if negb (modelled_length f (length keys)) || negb (same_kind keys) then None
      else match asp_sorted rv (tag keys) with Some r => Some (map (@snd _ _) r) | None => None end
  end.

(* CPython (Objects/listobject.c list_sort_impl): a STABLE ascending sort; for reverse=True the list is reversed before
   and after, "to keep stability".  The reference sort is the textbook insertion sort: an element is put in front of
   the first element that is not smaller. *)
Fixpoint ins_l (x : keyed) (l : list keyed) : list keyed :=
  match l with
  | [] => [x]
  | y :: r => if key_lt (fst y) (fst x) then y :: ins_l x r else x :: l
  end.
Definition stable_sort (l : list keyed) : list keyed := fold_right ins_l [] l.
Definition py_sorted (rv : bool) (l : list keyed) : list keyed :=
  if rv then rev (stable_sort (rev l)) else stable_sort l.

(* ---------------------------------------------------------------- dict union, step by step *)
Definition uside_dict (sd : uside) (i j : nat) : nat := match sd with ULeft => i | URight => j end.

Definition dict_merge_into (m src : list (str * value)) : list (str * value) :=
  fold_left (fun acc kv => env_set (fst kv) (snd kv) acc) src m.

(* i = the receiver d, j = the operand d2, ret = the map under construction (None before the make) *)
Fixpoint run_union (steps : list ustep) (i j : nat) (ret : option (list (str * value))) (st : state) : res (value * state) :=
  match steps with
  | [] => Err EUnsupported                    (* fell off the end of the clause *)
  | UCheckDict :: r => run_union r i j ret st (* the operand is a pyDict here *)
  | UReturnIfEmpty t rt :: r =>
      match dict_of st (uside_dict t i j) with
      | [] => Ok (VDict (uside_dict rt i j), st)
      | _ => run_union r i j ret st
      end
  | UMake :: r => run_union r i j (Some []) st
  | UCopy sd :: r =>
      match ret with
      | None => Err EUnsupported
      | Some m => run_union r i j (Some (dict_merge_into m (dict_of st (uside_dict sd i j)))) st
      end
  | UReturnRet :: _ =>
      match ret with
      | None => Err EUnsupported
      | Some m => let '(n, st1) := alloc_dict m st in Ok (VDict n, st1)
      end
  end.

Definition union_translated (i j : nat) (st : state) : res (value * state) := run_union dict_union_steps i j None st.

Definition nodup_keys (l : list (str * value)) : Prop := NoDup (map (@fst _ _) l).

(* ---------------------------------------------------------------- correspondence cases of the C16 harness *)
(* SSort: one call sorted(seq, key=f, reverse=rv) of the real interpreter on pairwise different elements: the keys f
   returned (read off the same run), and the positions (in seq) of the elements of the result.
   SUnion: d | e on the real interpreter for two dict literals, with what the run printed for d, e and the result after
   the statement `r[k] = v`: the translated steps, run on the model heap and followed by the store, must print the same. *)
Inductive case :=
| SBase (c : C16_Pure.case)
| SSort (keys : list skey) (rv : bool) (observed : list nat)
| SUnion (d e : list (str * Z)) (k : str) (v : Z) (into_result : bool) (obs_d obs_e obs_r : list (str * Z)).

Definition zdict (l : list (str * Z)) : list (str * value) :=
  fold_left (fun acc kv => env_set (fst kv) (VInt (snd kv)) acc) l [].
Definition zobs (l : list (str * value)) : list (str * Z) :=
  map (fun kv => (fst kv, match snd kv with VInt z => z | _ => 0 end)) (sort_kvs l).
Definition zkv_eqb (a b : list (str * Z)) : bool :=
  list_eqb (fun x y => str_eqb (fst x) (fst y) && Z.eqb (snd x) (snd y)) a b.

Definition check (c : case) : bool :=
  match c with
  | SBase c0 => C16_Pure.check c0
  | SSort keys rv observed =>
      match asp_sorted_perm keys rv with
      | Some r => list_eqb Nat.eqb r observed
      | None => false
      end
  | SUnion d e k v into_result od oe or =>
      let '(i, st1) := alloc_dict (zdict d) empty_state in
      let '(j, st2) := alloc_dict (zdict e) st1 in
      match union_translated i j st2 with
      | Ok (VDict n, st3) =>
          let st4 := dict_store (if into_result then n else i) k (VInt v) st3 in
          zkv_eqb (zobs (dict_of st4 i)) od && zkv_eqb (zobs (dict_of st4 j)) oe && zkv_eqb (zobs (dict_of st4 n)) or
      | _ => false
      end
  end.
