(* C08 - sources as BuildInputs (not only their String()) and the guards of ruleHash's loop over target.AllSources().
   Definitions only.  `srcs_skip` (Gen/RuleHashProg.v) is the disjunction of the `continue` guards gotrans found at the
   head of that loop (BConst false: none). *)
From PlzV Require Import Base.Harness Model.C08 Model.C08_Cache.

(* core.BuildInput, the kinds a source can be *)
Inductive input :=
| IFile (f : str)                  (* FileLabel / SubrepoFileLabel: String() = File *)
| ILabel (l : label)               (* BuildLabel *)
| IAnn (l : label) (a : str)       (* AnnotatedOutputLabel //pkg:name|annotation *)
| ISys (path : str).               (* SystemFileLabel *)

Definition input_string (i : input) : str :=
  match i with
  | IFile f => f
  | ILabel l => label_string l
  | IAnn l a => if is_nil a then label_string l else label_string l ++ s "|" ++ a
  | ISys x => x
  end.

(* BuildInput.Label(): the target the input depends on *)
Definition input_label (i : input) : option label :=
  match i with ILabel l | IAnn l _ => Some l | _ => None end.

Definition ivar_val (i : input) (v : ivar) : bool :=
  match v with IVIsLabel => match input_label i with Some _ => true | None => false end end.

Definition igroups := list (str * list input).

(* what the loop `for _, source := range target.AllSources() { <guards>; h.Write([]byte(source.String())) }` writes *)
Definition written_inputs (skip : bexp ivar) (ins : list input) : list str :=
  map input_string (filter (fun i => negb (beval (ivar_val i) skip)) ins).

Definition all_inputs (sorted : bool) (ins : list input) (named : igroups) : list input :=
  ins ++ flat_map snd (order_of sorted named).

(* the stored state of a target whose sources are these inputs *)
Definition strs_of (named : igroups) : groups := map (fun kv => (fst kv, map input_string (snd kv))) named.
Definition stores (t : target) (ins : list input) (named : igroups) : Prop :=
  t_srcs t = map input_string ins /\ t_named_srcs t = strs_of named.

(* the stream of ruleHash with the sources given as inputs: the items before the loop over AllSources(), the loop with its
   guards, the items after it.  [] if the program has no single `EInputs _ FSrcs FNamedSrcs` item. *)
Definition ser_srcs (p : program) (skip : bexp ivar) (rt : bool) (t : target) (ins : list input) (named : igroups) : str :=
  match locate FSrcs p with
  | Some (pre, (cs, EInputs sorted FSrcs FNamedSrcs), post) =>
      ser pre rt t
      ++ (if forallb (cond_holds rt t) cs then concat (written_inputs skip (all_inputs sorted ins named)) else [])
      ++ ser post rt t
  | _ => []
  end.
