(* C35 - declared output hashes are enforced exactly.
   Executable model of
     core.BuildTarget.UnprefixedHashes                         (src/core/build_target.go)
     build.targetHasher.outputHash / build.outputHash          (src/build/build_step.go)
     build.checkRuleHashes / checkRuleHashesOfType             (src/build/build_step.go)
     build.calculateAndCheckRuleHash, the part of buildTarget / Build / retrieveArtifacts /
     needsBuilding / buildFilegroup that decides what is left in plz-out and in the cache
     after a verification                                       (src/build/*.go)
   The hash functions themselves are a parameter `H : algo -> bytes -> digest bytes`
   (a Section variable in the proofs; a finite table computed by Go's crypto libraries in the
   correspondence cases).  No proofs here. *)
From PlzV Require Import Base.Harness.

(* ------------------------------------------------------------------------------------------ *)
(* Algorithms: the keys of BuildState.hashers (src/core/state.go).  Size() in bytes. *)
Inductive algo := Sha1 | Sha256 | Blake3 | XXHash | Crc32 | Crc64.

Definition algo_eqb (a b : algo) : bool :=
  match a, b with
  | Sha1, Sha1 | Sha256, Sha256 | Blake3, Blake3 | XXHash, XXHash | Crc32, Crc32 | Crc64, Crc64 => true
  | _, _ => false
  end.

Definition algo_size (a : algo) : nat :=
  match a with Sha1 => 20 | Sha256 => 32 | Blake3 => 32 | XXHash => 8 | Crc32 => 4 | Crc64 => 8 end.

Definition algo_name (a : algo) : str :=
  match a with
  | Sha1 => s "sha1" | Sha256 => s "sha256" | Blake3 => s "blake3"
  | XXHash => s "xxhash" | Crc32 => s "crc32" | Crc64 => s "crc64"
  end.

Definition hashfun := algo -> str -> str.

(* [build] hashfunction (state.PathHasher) and hashcheckers (state.OutputHashCheckers(), in order) *)
Record config := { hashfn : algo; checkers : list algo }.

(* ------------------------------------------------------------------------------------------ *)
(* hex.EncodeToString *)
Definition hexdigit (n : N) : N := if N.ltb n 10 then (48 + n)%N else (87 + n)%N.
Definition hex (b : str) : str := flat_map (fun x => [hexdigit (N.div x 16); hexdigit (N.modulo x 16)]) b.

(* ------------------------------------------------------------------------------------------ *)
(* UnprefixedHashes: for every entry independently,
     if index := strings.LastIndexByte(h, ':'); index != -1 { h = strings.TrimSpace(h[index+1:]) }   *)

(* h[LastIndexByte(h, ':')+1:], None when there is no ':' *)
Fixpoint after_last_colon (h : str) : option str :=
  match h with
  | [] => None
  | c :: r =>
      match after_last_colon r with
      | Some t => Some t
      | None => if N.eqb c 58 then Some r else None
      end
  end.

(* strings.TrimSpace removes leading and trailing runes with unicode.IsSpace; these are their UTF-8
   encodings (U+0009..U+000D, U+0020, U+0085, U+00A0, U+1680, U+2000..U+200A, U+2028, U+2029, U+202F,
   U+205F, U+3000).  A prefix (suffix) of the string is the encoding of a space exactly when the first
   (last) decoded rune is that space: encodings are unique and self-synchronising. *)
Definition space_seqs : list str :=
  [[9]; [10]; [11]; [12]; [13]; [32]; [194; 133]; [194; 160]; [225; 154; 128];
   [226; 128; 128]; [226; 128; 129]; [226; 128; 130]; [226; 128; 131]; [226; 128; 132]; [226; 128; 133];
   [226; 128; 134]; [226; 128; 135]; [226; 128; 136]; [226; 128; 137]; [226; 128; 138];
   [226; 128; 168]; [226; 128; 169]; [226; 128; 175]; [226; 129; 159]; [227; 128; 128]]%N.

Fixpoint strip_prefix (p x : str) : option str :=
  match p, x with
  | [], _ => Some x
  | a :: p', b :: x' => if N.eqb a b then strip_prefix p' x' else None
  | _ :: _, [] => None
  end.

Fixpoint strip_any (seqs : list str) (x : str) : option str :=
  match seqs with
  | [] => None
  | p :: r => match strip_prefix p x with Some y => Some y | None => strip_any r x end
  end.

(* every step removes at least one byte, so `length x` steps of fuel always suffice *)
Fixpoint trim_left_fuel (seqs : list str) (fuel : nat) (x : str) : str :=
  match fuel with
  | O => x
  | S f => match strip_any seqs x with Some y => trim_left_fuel seqs f y | None => x end
  end.

Definition trim_left (x : str) : str := trim_left_fuel space_seqs (length x) x.
Definition trim_right (x : str) : str :=
  rev (trim_left_fuel (map (@rev N) space_seqs) (length x) (rev x)).
Definition trim_space (x : str) : str := trim_right (trim_left x).

Definition unprefix (h : str) : str :=
  match after_last_colon h with
  | Some t => trim_space t
  | None => h
  end.

Definition unprefixed (hs : list str) : list str := map unprefix hs.

(* ------------------------------------------------------------------------------------------ *)
(* Outputs.  PathHasher.Hash of a file hashes its bytes; of a directory, the bytes of its regular
   files in walk order, nothing else (C09 models that walk; here a directory is given by the
   contents of its files in walk order).  Symlink outputs are not modelled. *)
Inductive out := OFile (content : str) | ODir (leaves : list str).

Definition leaf_bytes (o : out) : str :=
  match o with OFile c => c | ODir l => concat l end.

Definition is_file (o : out) : bool := match o with OFile _ => true | ODir _ => false end.

Definition path_hash (H : hashfun) (a : algo) (o : out) : str := H a (leaf_bytes o).

(* outputHash(target, outputs, hasher, hasher.NewHash) for a target WITH declared hashes: the
   per-output hashes are written to a fresh hash, the file names are not (len(target.Hashes) != 0). *)
Definition combined (H : hashfun) (a : algo) (outs : list out) : str :=
  H a (concat (map (path_hash H a) outs)).

(* targetHasher.outputHash: if len(outs) == 1 && fs.FileExists(outs[0]) then direct else combined,
   always with state.PathHasher *)
Definition primary_hash (H : hashfun) (fn : algo) (outs : list out) : str :=
  match outs with
  | [o] => if is_file o then path_hash H fn o else combined H fn outs
  | _ => combined H fn outs
  end.

(* checkRuleHashes: combine := len(outputs) != 1 *)
Definition checker_hash (H : hashfun) (a : algo) (outs : list out) : str :=
  match outs with
  | [o] => path_hash H a o
  | _ => combined H a outs
  end.

Inductive verdict := Accept | Reject (but_was : list str).

Definition accepted (v : verdict) : bool := match v with Accept => true | Reject _ => false end.

Definition valid_line (a : algo) (hx : str) : str := algo_name a ++ s ": " ++ hx.

(* checkRuleHashesOfType: for each checker in order; a declared value is compared only if its
   length is hasher.Size()*2; the first match returns; otherwise the "algo: hex" lines are returned *)
Fixpoint check_of_type (H : hashfun) (hs : list str) (outs : list out) (cs : list algo) (acc : list str) : verdict :=
  match cs with
  | [] => Reject (rev acc)
  | a :: r =>
      let hx := hex (checker_hash H a outs) in
      if existsb (fun h => Nat.eqb (length h) (2 * algo_size a) && str_eqb hx h) hs then Accept
      else check_of_type H hs outs r (valid_line a hx :: acc)
  end.

(* checkRuleHashes(state, target, hash): `hash` is what state.TargetHasher.OutputHash returned.  That
   function memoises per target for the life of the process, so `hash` is NOT always the hash of the
   outputs that are checked now (see build_genrule); the per-checker hashes are always recomputed. *)
Definition check_rule_hashes_with (H : hashfun) (cfg : config) (primary : str) (outs : list out) (declared : list str) : verdict :=
  match declared with
  | [] => Accept
  | _ =>
      let hs := unprefixed declared in
      let hx := hex primary in
      if existsb (fun h => str_eqb h hx) hs then Accept
      else check_of_type H hs outs (checkers cfg) []
  end.

(* calculateAndCheckRuleHash on a target whose output hash has not been memoised yet *)
Definition check_rule_hashes (H : hashfun) (cfg : config) (outs : list out) (declared : list str) : verdict :=
  check_rule_hashes_with H cfg (primary_hash H (hashfn cfg) outs) outs declared.

(* ------------------------------------------------------------------------------------------ *)
(* What a verification leaves behind: one target through a history of builds.

   The record that makes a later build trust the outputs is the xattr user.plz_build on every output
   (rule hash, config hash, source hash, secret hash).  Its rule-hash part is a SHA-1 over the fields
   of the target; the declared hashes enter it as `for _, h := range target.Hashes { w.Write(h) }`,
   i.e. as their concatenation.  Everything else (command, sources and their contents, output names,
   configuration) is the abstract number k_rest. *)
Record key := { k_hashes : str; k_rest : N }.

Definition key_eqb (a b : key) : bool := str_eqb (k_hashes a) (k_hashes b) && N.eqb (k_rest a) (k_rest b).

Inductive kind := Genrule | Filegroup.

Record def := {
  d_declared : list str;      (* hashes = [...] *)
  d_rest : N;                 (* the rest of the definition and its inputs *)
  d_produce : list out        (* what the command produces (filegroup: its sources), in the sorted order of the output names *)
}.

Definition key_of (d : def) : key := {| k_hashes := concat (d_declared d); k_rest := d_rest d |}.

(* an output in plz-out/gen together with its user.plz_build xattr *)
Record file := { f_out : out; f_rec : option key }.

Record state := {
  disk : list file;                   (* [] = the outputs are absent *)
  meta : bool;                        (* .target_build_metadata_<name> exists *)
  cache : list (key * list file)      (* dir cache: the files are hard links, so they carry xattrs *)
}.

Definition empty_state : state := {| disk := []; meta := false; cache := [] |}.

Definition outs_of (fs : list file) : list out := map f_out fs.
Definition fresh (o : out) : file := {| f_out := o; f_rec := None |}.
Definition stamp (k : key) (fs : list file) : list file := map (fun f => {| f_out := f_out f; f_rec := Some k |}) fs.

Definition rec_is (k : key) (f : file) : bool :=
  match f_rec f with Some k' => key_eqb k' k | None => false end.

(* needsBuilding: metadata file present, every output present and carrying the current hashes *)
Definition needs_building (st : state) (d : def) : bool :=
  negb (meta st) ||
  match disk st with
  | [] => true
  | fs => negb (forallb (rec_is (key_of d)) fs)
  end.

Fixpoint cache_lookup (k : key) (c : list (key * list file)) : option (list file) :=
  match c with
  | [] => None
  | (k', fs) :: r => if key_eqb k' k then Some fs else cache_lookup k r
  end.

Fixpoint cache_store (k : key) (fs : list file) (c : list (key * list file)) : list (key * list file) :=
  match c with
  | [] => [(k, fs)]
  | (k', fs') :: r => if key_eqb k' k then (k, fs) :: r else (k', fs') :: cache_store k fs r
  end.

(* moveOutput / filegroupBuilder.Build: an output that is already in place with an equal
   PathHasher hash is left alone (it keeps its xattrs); otherwise it is replaced by the new file.
   The boolean says "changed". *)
Fixpoint move_outputs (H : hashfun) (fn : algo) (old : list file) (new : list out) : list (file * bool) :=
  match new with
  | [] => []
  | n :: nr =>
      match old with
      | o :: orest =>
          (if str_eqb (path_hash H fn (f_out o)) (path_hash H fn n) then (o, false) else (fresh n, true))
            :: move_outputs H fn orest nr
      | [] => (fresh n, true) :: move_outputs H fn [] nr
      end
  end.

(* seen: the outputs the last hash verification of this step looked at ([] when none ran) *)
Record result := { ok : bool; ran : bool; restored : bool; seen : list out }.

(* the build proper: run the command, StoreTargetMetadata, moveOutputs, calculateAndCheckRuleHash;
   success: writeRuleHash on every output, then storeInCache;  failure: Build() calls RemoveOutputs.
   memo: the output hash memoised earlier in this process by a rejected cache restore, if any. *)
Definition build_fresh (H : hashfun) (cfg : config) (memo : option str) (st : state) (d : def) : state * result :=
  let placed := map fst (move_outputs H (hashfn cfg) (disk st) (d_produce d)) in
  let primary := match memo with Some m => m | None => primary_hash H (hashfn cfg) (outs_of placed) end in
  if accepted (check_rule_hashes_with H cfg primary (outs_of placed) (d_declared d)) then
    let fs := stamp (key_of d) placed in
    ({| disk := fs; meta := true; cache := cache_store (key_of d) fs (cache st) |},
     {| ok := true; ran := true; restored := false; seen := outs_of placed |})
  else
    ({| disk := []; meta := true; cache := cache st |},
     {| ok := false; ran := true; restored := false; seen := outs_of placed |}).

Definition build_genrule (H : hashfun) (cfg : config) (st : state) (d : def) : state * result :=
  if negb (needs_building st d) then (st, {| ok := true; ran := false; restored := false; seen := [] |})
  else
    match cache_lookup (key_of d) (cache st) with
    | Some cfs =>
        (* retrieveArtifacts: the entry is linked into plz-out, then calculateAndCheckRuleHash *)
        if accepted (check_rule_hashes H cfg (outs_of cfs) (d_declared d)) then
          ({| disk := stamp (key_of d) cfs; meta := true; cache := cache st |},
           {| ok := true; ran := false; restored := true; seen := outs_of cfs |})
        else
          (* RemoveOutputs(target); return false -> falls through to the real build, in which
             state.TargetHasher.OutputHash still returns the hash of the rejected artifacts *)
          build_fresh H cfg (Some (primary_hash H (hashfn cfg) (outs_of cfs)))
                      {| disk := []; meta := true; cache := cache st |} d
    | None => build_fresh H cfg None st d
    end.

(* filegroups: no record, no cache; the hash check runs only when some file was (re)linked *)
Definition build_filegroup (H : hashfun) (cfg : config) (st : state) (d : def) : state * result :=
  let moved := move_outputs H (hashfn cfg) (disk st) (d_produce d) in
  let placed := map fst moved in
  if existsb snd moved then
    if accepted (check_rule_hashes H cfg (outs_of placed) (d_declared d)) then
      ({| disk := placed; meta := meta st; cache := cache st |},
       {| ok := true; ran := false; restored := false; seen := outs_of placed |})
    else
      ({| disk := []; meta := meta st; cache := cache st |},
       {| ok := false; ran := false; restored := false; seen := outs_of placed |})
  else
    ({| disk := placed; meta := meta st; cache := cache st |}, {| ok := true; ran := false; restored := false; seen := [] |}).

Definition build_one (H : hashfun) (cfg : config) (k : kind) (st : state) (d : def) : state * result :=
  match k with
  | Genrule => build_genrule H cfg st d
  | Filegroup => build_filegroup H cfg st d
  end.

(* the environment between builds: plz-out is deleted; a cache entry is replaced by arbitrary files
   (with arbitrary xattrs) *)
Inductive step :=
| SBuild (d : def)
| SRmOut
| SPoison (k : key) (fs : list file).

Record event := { e_before : state; e_def : def; e_res : result; e_after : state }.

Fixpoint run (H : hashfun) (cfg : config) (k : kind) (st : state) (steps : list step) : list event :=
  match steps with
  | [] => []
  | SBuild d :: r =>
      let '(st', res) := build_one H cfg k st d in
      {| e_before := st; e_def := d; e_res := res; e_after := st' |} :: run H cfg k st' r
  | SRmOut :: r => run H cfg k {| disk := []; meta := false; cache := cache st |} r
  | SPoison kk fs :: r => run H cfg k {| disk := disk st; meta := meta st; cache := cache_store kk fs (cache st) |} r
  end.

(* ------------------------------------------------------------------------------------------ *)
(* Known defect classes of histories (executable; see Props/C35.v). *)
Inductive defect := HashListResplit | FilegroupUncheckedInPlace | StaleHashAfterRejectedRestore.

Fixpoint defs_of (steps : list step) : list def :=
  match steps with
  | [] => []
  | SBuild d :: r => d :: defs_of r
  | _ :: r => defs_of r
  end.

Definition declared_eqb := list_eqb str_eqb.

(* two definitions of the history have the same record key but different hash lists *)
Definition resplit (ds : list def) : bool :=
  existsb (fun d => existsb (fun d' => key_eqb (key_of d) (key_of d') && negb (declared_eqb (d_declared d) (d_declared d'))) ds) ds.

(* a filegroup with declared hashes was built while all its outputs were already in place *)
Definition fg_unchecked (H : hashfun) (cfg : config) (e : event) : bool :=
  match d_declared (e_def e) with
  | [] => false
  | _ => negb (existsb snd (move_outputs H (hashfn cfg) (disk (e_before e)) (d_produce (e_def e))))
  end.

(* a build that followed a rejected cache restore failed although the rebuilt outputs match *)
Definition stale_reject (H : hashfun) (cfg : config) (e : event) : bool :=
  negb (ok (e_res e)) && accepted (check_rule_hashes H cfg (seen (e_res e)) (d_declared (e_def e))).

Definition defect_class (H : hashfun) (cfg : config) (k : kind) (steps : list step) : option defect :=
  match k with
  | Genrule => if resplit (defs_of steps) then Some HashListResplit
               else if existsb (stale_reject H cfg) (run H cfg k empty_state steps) then Some StaleHashAfterRejectedRestore
               else None
  | Filegroup => if existsb (fg_unchecked H cfg) (run H cfg k empty_state steps) then Some FilegroupUncheckedInPlace else None
  end.

(* ------------------------------------------------------------------------------------------ *)
(* Filegroups of ONE PACKAGE within ONE plz invocation (src/build/filegroup.go, and the filegroup branch of
   buildTarget).  Several filegroups may export the same file; the singleton filegroupBuilder keeps, for
   the life of the process, the memo `built : map[string]bool` (output path -> did putting it in place
   change the file), and a later filegroup that exports a file already in the memo is handed the
   RECORDED verdict.  A filegroup is verified (calculateAndCheckRuleHash) only `if changed`, where
   changed = some file verdict is true, or some source is a target of the same package (source path ==
   output path, so the file comparison always says "same") whose State() < core.Unchanged, i.e. which
   was Built or restored from the cache (Cached) in this invocation.  *)

(* the states a finished source target can be in (core.BuildTargetState, local builds) *)
Inductive tstate := TBuilt | TCached | TUnchanged | TReused.

Definition tstate_name (t : tstate) : str :=
  match t with TBuilt => s "Built" | TCached => s "Cached" | TUnchanged => s "Unchanged" | TReused => s "Reused" end.

(* `state.Graph.TargetOrDie(l).State() < core.Unchanged` *)
Definition triggers (t : tstate) : bool :=
  match t with TBuilt | TCached => true | TUnchanged | TReused => false end.

(* a source of a filegroup: a plain file of the source tree or an output of a target of another package
   (from <> to), or an output of a target of the same package (from = to) *)
Inductive origin := FromFile | FromTarget (st : tstate).

Record fsrc := { s_path : N; s_out : out; s_origin : origin }.   (* s_out: what `from` holds *)
Record fgdef := { g_declared : list str; g_srcs : list fsrc }.   (* sources in the sorted order of the output names *)

Definition fdisk := list (N * out).     (* plz-out/gen/<pkg>: output path -> content; the first binding counts *)
Definition fmemo := list (N * bool).    (* filegroupBuilder.built *)

Fixpoint flookup {A : Type} (p : N) (l : list (N * A)) : option A :=
  match l with
  | [] => None
  | (q, a) :: r => if N.eqb q p then Some a else flookup p r
  end.

Definition fset (p : N) (o : out) (d : fdisk) : fdisk := (p, o) :: d.
Definition fremove (p : N) (d : fdisk) : fdisk := filter (fun kv => negb (N.eqb (fst kv) p)) d.

(* the memo hit of filegroupBuilder.Build: `if changed, present := builder.built[to]; present { return changed, nil }` *)
Definition memo_hit (recorded : bool) : bool := recorded.
(* the two stores: `builder.built[to] = false` (same file) and `builder.built[to] = true` (file put in place) *)
Definition memo_store_same : bool := false.
Definition memo_store_built : bool := true.

(* isSameFileContent(from, to): `to` exists and (from == to, or the PathHasher hashes are equal) *)
Definition fg_same (H : hashfun) (fn : algo) (d : fdisk) (sr : fsrc) : bool :=
  match flookup (s_path sr) d with
  | None => false
  | Some o =>
      match s_origin sr with
      | FromTarget _ => true
      | FromFile => str_eqb (path_hash H fn o) (path_hash H fn (s_out sr))
      end
  end.

(* `from` exists: a source file always does; an output of a same-package target is the file at `to` itself *)
Definition fg_from_exists (d : fdisk) (sr : fsrc) : bool :=
  match s_origin sr with
  | FromFile => true
  | FromTarget _ => match flookup (s_path sr) d with Some _ => true | None => false end
  end.

(* filegroupBuilder.Build for one file: new memo, new disk, changed, error *)
Definition fg_file (H : hashfun) (fn : algo) (m : fmemo) (d : fdisk) (sr : fsrc) : fmemo * fdisk * bool * bool :=
  if negb (fg_from_exists d sr) then (m, d, true, true)
  else
    match flookup (s_path sr) m with
    | Some b => (m, d, memo_hit b, false)
    | None =>
        if fg_same H fn d sr then ((s_path sr, memo_store_same) :: m, d, false, false)
        else ((s_path sr, memo_store_built) :: m, fset (s_path sr) (s_out sr) d, true, false)
    end.

(* the first loop of buildFilegroup; an error returns at once *)
Fixpoint fg_place (H : hashfun) (fn : algo) (m : fmemo) (d : fdisk) (srcs : list fsrc) : fmemo * fdisk * bool * bool :=
  match srcs with
  | [] => (m, d, false, false)
  | sr :: r =>
      match fg_file H fn m d sr with
      | (m1, d1, c, true) => (m1, d1, true, true)
      | (m1, d1, c, false) =>
          match fg_place H fn m1 d1 r with
          | (m2, d2, c2, e2) => (m2, d2, c || c2, e2)
          end
      end
  end.

(* the second loop of buildFilegroup *)
Definition src_triggers (sr : fsrc) : bool :=
  match s_origin sr with FromFile => false | FromTarget st => triggers st end.

Fixpoint fg_outs (d : fdisk) (srcs : list fsrc) : option (list out) :=
  match srcs with
  | [] => Some []
  | sr :: r =>
      match flookup (s_path sr) d, fg_outs d r with
      | Some o, Some os => Some (o :: os)
      | _, _ => None
      end
  end.

(* RemoveOutputs(target) *)
Fixpoint fg_remove (srcs : list fsrc) (d : fdisk) : fdisk :=
  match srcs with
  | [] => d
  | sr :: r => fremove (s_path sr) (fg_remove r d)
  end.

(* fr_seen: the outputs the verification looked at (None: it did not run, or an input/output was missing) *)
Record fres := { fr_ok : bool; fr_checked : bool; fr_seen : option (list out) }.

Definition fg_build (H : hashfun) (cfg : config) (m : fmemo) (d : fdisk) (g : fgdef) : fmemo * fdisk * fres :=
  match fg_place H (hashfn cfg) m d (g_srcs g) with
  | (m1, d1, changed, err) =>
      if err then (m1, fg_remove (g_srcs g) d1, {| fr_ok := false; fr_checked := false; fr_seen := None |})
      else if changed || existsb src_triggers (g_srcs g) then
        match fg_outs d1 (g_srcs g) with
        | None => (m1, fg_remove (g_srcs g) d1, {| fr_ok := false; fr_checked := true; fr_seen := None |})
        | Some outs =>
            if accepted (check_rule_hashes H cfg outs (g_declared g))
            then (m1, d1, {| fr_ok := true; fr_checked := true; fr_seen := Some outs |})
            else (m1, fg_remove (g_srcs g) d1, {| fr_ok := false; fr_checked := true; fr_seen := Some outs |})
        end
      else (m1, d1, {| fr_ok := true; fr_checked := false; fr_seen := None |})
  end.

Record fevent := { fe_def : fgdef; fe_res : fres; fe_after : fdisk }.

(* the filegroups of one invocation, in the order in which they are built *)
Fixpoint fg_run (H : hashfun) (cfg : config) (m : fmemo) (d : fdisk) (gs : list fgdef) : list fevent * fdisk :=
  match gs with
  | [] => ([], d)
  | g :: r =>
      match fg_build H cfg m d g with
      | (m1, d1, res) =>
          let '(evs, d2) := fg_run H cfg m1 d1 r in
          ({| fe_def := g; fe_res := res; fe_after := d1 |} :: evs, d2)
      end
  end.

(* between and before invocations: plz-out is deleted; a generating target of the package puts (built,
   restored from the cache, or left) its output in place before the filegroups over it are built; an
   invocation starts with an empty memo *)
Inductive hstep :=
| HWipe
| HPut (p : N) (o : out)
| HRun (gs : list fgdef).

(* per invocation: the disk it started from, its events *)
Fixpoint fg_hist (H : hashfun) (cfg : config) (d : fdisk) (steps : list hstep) : list (fdisk * list fevent * fdisk) :=
  match steps with
  | [] => []
  | HWipe :: r => fg_hist H cfg [] r
  | HPut p o :: r => fg_hist H cfg (fset p o d) r
  | HRun gs :: r =>
      let '(evs, d') := fg_run H cfg [] d gs in (d, evs, d') :: fg_hist H cfg d' r
  end.

(* the one known defect class, stated on the disk the INVOCATION started from (no memo involved): every
   output was already in place with the content of its source, and no same-package source was built or
   restored in this invocation *)
Definition fg_in_place (H : hashfun) (cfg : config) (d0 : fdisk) (g : fgdef) : bool :=
  forallb (fun sr => fg_same H (hashfn cfg) d0 sr && negb (src_triggers sr)) (g_srcs g).

Definition origin_eqb (a b : origin) : bool :=
  match a, b with
  | FromFile, FromFile => true
  | FromTarget x, FromTarget y => str_eqb (tstate_name x) (tstate_name y)
  | _, _ => false
  end.

Definition out_eqb (a b : out) : bool :=
  match a, b with
  | OFile x, OFile y => str_eqb x y
  | ODir x, ODir y => list_eqb str_eqb x y
  | _, _ => false
  end.

Definition fsrc_eqb (a b : fsrc) : bool :=
  N.eqb (s_path a) (s_path b) && out_eqb (s_out a) (s_out b) && origin_eqb (s_origin a) (s_origin b).

(* within one invocation a path has one source *)
Definition run_consistent (gs : list fgdef) : bool :=
  let all := flat_map g_srcs gs in
  forallb (fun a => forallb (fun b => negb (N.eqb (s_path a) (s_path b)) || fsrc_eqb a b) all) all.

Fixpoint hist_consistent (steps : list hstep) : bool :=
  match steps with
  | [] => true
  | HRun gs :: r => run_consistent gs && hist_consistent r
  | _ :: r => hist_consistent r
  end.

(* ------------------------------------------------------------------------------------------ *)
(* Correspondence cases *)
Definition table := list ((algo * str) * str).

Fixpoint H_of (t : table) (a : algo) (x : str) : str :=
  match t with
  | [] => []
  | ((a', x'), d) :: r => if algo_eqb a a' && str_eqb x x' then d else H_of r a x
  end.

Definition verdict_eqb (a b : verdict) : bool :=
  match a, b with
  | Accept, Accept => true
  | Reject x, Reject y => list_eqb str_eqb x y
  | _, _ => false
  end.

(* what the harness sees of one build step: exit status of the target, whether its command ran,
   and the outputs in plz-out afterwards ([] = absent) *)
Record obs := { o_ok : bool; o_ran : bool; o_disk : list out }.

Definition obs_eqb (e : event) (o : obs) : bool :=
  Bool.eqb (ok (e_res e)) (o_ok o) && Bool.eqb (ran (e_res e)) (o_ran o)
  && list_eqb out_eqb (outs_of (disk (e_after e))) (o_disk o).

Fixpoint all2 {A B} (f : A -> B -> bool) (a : list A) (b : list B) : bool :=
  match a, b with
  | [], [] => true
  | x :: a', y :: b' => f x y && all2 f a' b'
  | _, _ => false
  end.

(* what the harness sees of one invocation: per filegroup built, whether it succeeded; and afterwards the
   content of the given output paths (None = absent) *)
Record robs := { ro_ok : list bool; ro_disk : list (N * option out) }.

Definition robs_eqb (r : fdisk * list fevent * fdisk) (o : robs) : bool :=
  let '(_, evs, d') := r in
  list_eqb Bool.eqb (map (fun e => fr_ok (fe_res e)) evs) (ro_ok o)
  && forallb (fun po => option_eqb out_eqb (flookup (fst po) d') (snd po)) (ro_disk o).

Inductive case :=
| CCheck (cfg : config) (outs : list out) (declared : list str) (tbl : table) (observed : verdict)
| CUnprefix (declared : list str) (observed : list str)
| CHist (cfg : config) (k : kind) (steps : list step) (tbl : table) (observed : list obs)
| CFg (cfg : config) (steps : list hstep) (tbl : table) (observed : list robs).

Definition check (c : case) : bool :=
  match c with
  | CCheck cfg outs declared tbl v => verdict_eqb (check_rule_hashes (H_of tbl) cfg outs declared) v
  | CUnprefix declared observed => list_eqb str_eqb (unprefixed declared) observed
  | CHist cfg k steps tbl observed => all2 obs_eqb (run (H_of tbl) cfg k empty_state steps) observed
  | CFg cfg steps tbl observed => all2 robs_eqb (fg_hist (H_of tbl) cfg [] steps) observed
  end.
