(* C23 - dependency queries.  Executable model of
     src/query/somepath.go      (SomePath, somepath.SomePath, somePath with the shared `seen` set)
     src/query/deps.go          (Deps, deps with the shared `done` map and the level cut-off)
     src/query/reverse_deps.go  (FindRevdeps, buildRevdeps, openSet, isSameTarget, findRevdeps)
   over a build graph given as an association list in graph.AllTargets() order.  No proofs here.

   Labels are numbers: the harness numbers every label that occurs (targets and their Label.Parent()
   labels) in BuildLabel.Less order.  What the model takes from core as given input, per target:
     t_deps    DeclaredDependencies() (already sorted by core)
     t_parent  Label.Parent()   (the label itself when it has no parent - exactly as core returns it)
     t_hidden  Label.IsHidden() (name starts with '_'; NOT the same as having a parent)
     t_req     Requires, t_prov  Provides (map language -> labels; a map has unique keys)
   Not modelled: subrepo targets (Subrepo.Target), subincludes, data/tool exemptions of provideFor,
   --include/--exclude filtering (ShouldInclude = true), ":all" expansion, dot output. *)
From PlzV Require Import Base.Harness.

Definition label := N.

Record tinfo := mkT {
  t_deps : list label;
  t_parent : label;
  t_hidden : bool;
  t_req : list N;
  t_prov : list (N * list label)
}.

Definition graph := list (label * tinfo).

Fixpoint find (g : graph) (l : label) : option tinfo :=
  match g with
  | [] => None
  | (k, v) :: r => if N.eqb l k then Some v else find r l
  end.

Definition mem (l : label) (xs : list label) : bool := existsb (N.eqb l) xs.

Fixpoint lookup_prov (r : N) (m : list (N * list label)) : option (list label) :=
  match m with
  | [] => None
  | (k, v) :: m' => if N.eqb r k then Some v else lookup_prov r m'
  end.

(* BuildTarget.ProvideFor: for each require of `other` (in order) that is a key of Provides, append
   the provided labels; if none was found, the label itself.  (found with an empty list => nothing.) *)
Definition provide_hits (it other : tinfo) : list (list label) :=
  flat_map (fun r => match lookup_prov r (t_prov it) with Some ls => [ls] | None => [] end) (t_req other).

Definition provide_for (l : label) (it other : tinfo) : list label :=
  match provide_hits it other with
  | [] => [l]
  | hs => concat hs
  end.

(* Label.HasParent(): Parent() != label *)
Definition has_parent (l : label) (it : tinfo) : bool := negb (N.eqb (t_parent it) l).

(* for _, dep := range t.DeclaredDependencies() { if t := graph.Target(dep); t != nil {
     if except[t.Label] continue; for _, l := range t.ProvideFor(target) { ... } } }
   flattened into the list of labels the inner body sees, in order. *)
Definition succs (g : graph) (ex : list label) (it : tinfo) : list label :=
  flat_map (fun d => match find g d with
                     | Some id => if mem d ex then [] else provide_for d id it
                     | None => []
                     end) (t_deps it).

(* ------------------------------------------------------------------------------------------- *)
(* somepath.go *)

(* the loop body `if path := somePath(...); len(path) != 0 { return append([t1], path...) }` over the
   successor labels, threading the shared `seen` map.  None = out of fuel. *)
Fixpoint first_path (rec : label -> list label -> option (list label * list label))
         (t1 : label) (ls : list label) (seen : list label) : option (list label * list label) :=
  match ls with
  | [] => Some ([], seen)
  | l :: ls' =>
      match rec l seen with
      | None => None
      | Some ([], seen') => first_path rec t1 ls' seen'
      | Some (p, seen') => Some (t1 :: p, seen')
      end
  end.

(* func somePath(graph, target1, target2, seen, except) []BuildLabel *)
Fixpoint somePath (fuel : nat) (g : graph) (ex : list label) (t2 : label) (t1 : label) (seen : list label)
  : option (list label * list label) :=
  match fuel with
  | O => None
  | S f =>
      match find g t1 with
      | None => Some ([], seen)                      (* TargetOrDie would die; never generated *)
      | Some i1 =>
          if N.eqb t1 t2 then Some ([t1], seen)
          else if has_parent t1 i1 && N.eqb (t_parent i1) t2 then Some ([t1], seen)   (* target1.Parent(graph) == target2 *)
          else if mem t1 seen then Some ([], seen)
          else first_path (somePath f g ex t2) t1 (succs g ex i1) (t1 :: seen)
      end
  end.

Definition fuel_of (g : graph) : nat := S (length g).

(* memo : target2 label -> seen set *)
Fixpoint memo_get (m : list (label * list label)) (k : label) : list label :=
  match m with
  | [] => []
  | (k', v) :: r => if N.eqb k k' then v else memo_get r k
  end.

Fixpoint memo_set (m : list (label * list label)) (k : label) (v : list label) : list (label * list label) :=
  match m with
  | [] => [(k, v)]
  | (k', w) :: r => if N.eqb k k' then (k', v) :: r else (k', w) :: memo_set r k v
  end.

(* func (s *somepath) SomePath(target1, target2): one direction, then the other; each direction uses the
   memo entry of ITS second argument. *)
Definition some_path_pair (g : graph) (ex : list label) (memo : list (label * list label)) (a b : label)
  : option (list label * list (label * list label)) :=
  match somePath (fuel_of g) g ex b a (memo_get memo b) with
  | None => None
  | Some (p, seen') =>
      let memo1 := memo_set memo b seen' in
      match p with
      | _ :: _ => Some (p, memo1)
      | [] =>
          match somePath (fuel_of g) g ex a b (memo_get memo1 a) with
          | None => None
          | Some (p2, seen2) => Some (p2, memo_set memo1 a seen2)
          end
      end
  end.

(* slices.Compact *)
Fixpoint compact (p : list label) : list label :=
  match p with
  | [] => []
  | x :: r => match r with
              | y :: _ => if N.eqb x y then compact r else x :: compact r
              | [] => [x]
              end
  end.

Definition parent_of (g : graph) (l : label) : label :=
  match find g l with Some i => t_parent i | None => l end.

Definition show (g : graph) (show_hidden : bool) (p : list label) : list label :=
  if show_hidden then p else compact (map (parent_of g) p).

(* func SomePath(graph, from, to, except, showHidden): first pair with a path, in from-major order. *)
Fixpoint sp_to (g : graph) (ex : list label) (memo : list (label * list label)) (a : label) (tos : list label)
  : option (list label * list (label * list label)) :=
  match tos with
  | [] => Some ([], memo)
  | b :: r =>
      match some_path_pair g ex memo a b with
      | None => None
      | Some ((_ :: _) as p, memo') => Some (p, memo')
      | Some ([], memo') => sp_to g ex memo' a r
      end
  end.

Fixpoint sp_from (g : graph) (ex : list label) (memo : list (label * list label)) (froms tos : list label)
  : option (list label) :=
  match froms with
  | [] => Some []
  | a :: r =>
      match sp_to g ex memo a tos with
      | None => None
      | Some ((_ :: _) as p, _) => Some p
      | Some ([], memo') => sp_from g ex memo' r tos
      end
  end.

(* the raw path (before the showHidden filter); [] = "Couldn't find any dependency path" *)
Definition some_path_raw (g : graph) (ex froms tos : list label) : option (list label) :=
  sp_from g ex [] froms tos.

Definition some_path_query (g : graph) (ex froms tos : list label) (show_hidden : bool) : option (list label) :=
  match some_path_raw g ex froms tos with
  | None => None
  | Some p => Some (show g show_hidden p)
  end.

(* ------------------------------------------------------------------------------------------- *)
(* deps.go *)

Definition dstate := (list label * list (Z * label))%type.   (* done, printed (indent level, label) *)

(* the body of the two nested loops for one provided label l, then the rest *)
Fixpoint deps_loop (rec : label -> Z -> dstate -> option dstate)
         (g : graph) (hidden : bool) (it : tinfo) (cur : Z) (ls : list label) (st : dstate) : option dstate :=
  match ls with
  | [] => Some st
  | l :: ls' =>
      if mem l (fst st) then deps_loop rec g hidden it cur ls' st
      else
        match find g l with
        | None => deps_loop rec g hidden it cur ls' (l :: fst st, snd st)      (* TargetOrDie dies; never generated *)
        | Some il =>
            let r :=
              if hidden || negb (has_parent l il)
              then rec l (cur + 1)%Z (l :: fst st, snd st ++ [(cur, l)])
              else if N.eqb (t_parent il) (t_parent it)
                   then rec l cur (l :: fst st, snd st)
                   else rec l (cur + 1)%Z (l :: fst st, snd st) in
            match r with
            | None => None
            | Some st' => deps_loop rec g hidden it cur ls' st'
            end
        end
  end.

(* func deps(out, state, target, done, targetLevel, currentLevel, hidden, formatdot) *)
Fixpoint deps (fuel : nat) (g : graph) (hidden : bool) (lim : Z) (t : label) (cur : Z) (st : dstate) : option dstate :=
  match fuel with
  | O => None
  | S f =>
      if Z.eqb cur lim then Some st
      else match find g t with
           | None => Some st
           | Some it => deps_loop (deps f g hidden lim) g hidden it cur (succs g [] it) st
           end
  end.

(* func Deps(out, state, labels, hidden, targetLevel, formatdot): one `done` map for all labels *)
Fixpoint deps_roots (g : graph) (hidden : bool) (lim : Z) (roots : list label) (st : dstate) : option dstate :=
  match roots with
  | [] => Some st
  | r :: rs =>
      match deps (fuel_of g) g hidden lim r 0%Z st with
      | None => None
      | Some st' => deps_roots g hidden lim rs st'
      end
  end.

Definition deps_query (g : graph) (roots : list label) (hidden : bool) (lim : Z) : option (list (Z * label)) :=
  match deps_roots g hidden lim roots ([], []) with
  | None => None
  | Some st => Some (snd st)
  end.

(* ------------------------------------------------------------------------------------------- *)
(* reverse_deps.go *)

(* buildRevdeps: revdeps[p] = the targets t (AllTargets order), once per (declared dep, provided label = p) *)
Definition rev_of (g : graph) (p : label) : list label :=
  flat_map (fun kv => map (fun _ => fst kv) (filter (N.eqb p) (succs g [] (snd kv)))) g.

(* target.Parent(graph): nil when parentless or when the parent label is not in the graph *)
Definition parent_target (g : graph) (l : label) : option label :=
  match find g l with
  | None => None
  | Some i => if has_parent l i then (match find g (t_parent i) with Some _ => Some (t_parent i) | None => None end)
              else None
  end.

Definition is_hidden (g : graph) (l : label) : bool :=
  match find g l with Some i => t_hidden i | None => false end.

(* func isSameTarget(graph, lhs, rhs) *)
Definition same_target (g : graph) (lhs rhs : label) : bool :=
  if N.eqb lhs rhs then true
  else
    let l' := if is_hidden g lhs then parent_target g lhs else Some lhs in
    let r' := if is_hidden g rhs then parent_target g rhs else Some rhs in
    match l', r' with
    | Some a, Some b => N.eqb a b
    | _, _ => false
    end.

Definition add (x : label) (s : list label) : list label := if mem x s then s else s ++ [x].

Record rstate := mkR { r_q : list (label * Z); r_done : list label; r_ret : list label }.

(* openSet.Push *)
Definition push (n : label * Z) (st : rstate) : rstate :=
  if mem (fst n) (r_done st) then st
  else mkR (r_q st ++ [n]) (fst n :: r_done st) (r_ret st).

(* the body of `for _, t := range ts` *)
Definition rev_step (g : graph) (hidden : bool) (maxd : Z) (nt : label) (nd : Z) (st : rstate) (t : label) : rstate :=
  let depth := if hidden || negb (same_target g nt t) then (nd + 1)%Z else nd in
  if Z.ltb nd maxd || Z.eqb maxd (-1) then
    let ret' :=
      if Z.ltb 0 depth then
        (if hidden || negb (is_hidden g t) then add t (r_ret st)
         else match parent_target g t with Some p => add p (r_ret st) | None => r_ret st end)
      else r_ret st in
    push (t, depth) (mkR (r_q st) (r_done st) ret')
  else st.

(* func (r *revdeps) findRevdeps *)
Fixpoint rev_loop (fuel : nat) (g : graph) (hidden : bool) (maxd : Z) (st : rstate) : option (list label) :=
  match fuel with
  | O => None
  | S f =>
      match r_q st with
      | [] => Some (r_ret st)
      | (nt, nd) :: q' =>
          rev_loop f g hidden maxd
                   (fold_left (rev_step g hidden maxd nt nd) (rev_of g nt) (mkR q' (r_done st) (r_ret st)))
      end
  end.

(* children of a label: the targets whose Parent(graph) is it, in graph order.  Go enumerates them in
   map order (Package.AllTargets), i.e. in SOME order: FindRevdeps takes that order as `chs`. *)
Definition children (g : graph) (l : label) : list label :=
  flat_map (fun kv => match parent_target g (fst kv) with
                      | Some p => if N.eqb p l then [fst kv] else []
                      | None => []
                      end) g.

(* the initial pushes of FindRevdeps; chs = one child enumeration per root *)
Fixpoint rev_init (g : graph) (hidden : bool) (roots : list label) (chs : list (list label)) (st : rstate) : rstate :=
  match roots with
  | [] => st
  | r :: rs =>
      let st1 := push (r, 0%Z) st in
      let st2 := if negb hidden && negb (is_hidden g r)
                 then fold_left (fun s c => push (c, 0%Z) s) (hd [] chs) st1
                 else st1 in
      rev_init g hidden rs (tl chs) st2
  end.

Definition revdeps_with (g : graph) (roots : list label) (chs : list (list label)) (hidden : bool) (maxd : Z)
  : option (list label) :=
  rev_loop (S (length g + length roots)) g hidden maxd (rev_init g hidden roots chs (mkR [] [] [])).

(* ------------------------------------------------------------------------------------------- *)
(* executable side condition of the exactness theorem for `deps --level N`: no target is reachable from the
   roots at two different costs.  (Not part of the Go code: a labelling of the reachable targets with the cost
   of the first path found, and a check that every edge out of a root or a labelled target agrees with it.) *)

(* what one edge adds to currentLevel in deps: nothing for a hidden dependency of the same rule *)
Definition dcost (g : graph) (hidden : bool) (u v : label) : Z :=
  if hidden then 1%Z
  else match find g u, find g v with
       | Some iu, Some iv => if has_parent v iv && N.eqb (t_parent iv) (t_parent iu) then 0%Z else 1%Z
       | _, _ => 1%Z
       end.

Fixpoint lab_get (lab : list (label * Z)) (l : label) : option Z :=
  match lab with
  | [] => None
  | (k, c) :: r => if N.eqb l k then Some c else lab_get r l
  end.

Definition out_edges (g : graph) (u : label) : list label :=
  match find g u with Some iu => succs g [] iu | None => [] end.

Definition lab_relax (g : graph) (hidden : bool) (u : label) (c : Z) (lab : list (label * Z)) : list (label * Z) :=
  fold_left (fun lb v => match lab_get lb v with
                         | Some _ => lb
                         | None => lb ++ [(v, (c + dcost g hidden u v)%Z)]
                         end) (out_edges g u) lab.

Definition lab_round (g : graph) (hidden : bool) (roots : list label) (lab : list (label * Z)) : list (label * Z) :=
  let lab1 := fold_left (fun lb r => lab_relax g hidden r 0%Z lb) roots lab in
  fold_left (fun lb uc => lab_relax g hidden (fst uc) (snd uc) lb) lab1 lab1.

Definition cost_labels (g : graph) (hidden : bool) (roots : list label) : list (label * Z) :=
  Nat.iter (S (length g)) (lab_round g hidden roots) [].

Definition edges_okb (g : graph) (hidden : bool) (lab : list (label * Z)) (u : label) (c : Z) : bool :=
  forallb (fun v => match lab_get lab v with
                    | Some cv => Z.eqb cv (c + dcost g hidden u v)
                    | None => false
                    end) (out_edges g u).

Definition unique_costb (g : graph) (hidden : bool) (roots : list label) : bool :=
  let lab := cost_labels g hidden roots in
  forallb (fun r => edges_okb g hidden lab r 0%Z) roots
  && forallb (fun uc => edges_okb g hidden lab (fst uc) (snd uc)) lab.

(* ------------------------------------------------------------------------------------------- *)
(* correspondence cases *)

Inductive query :=
| QSome (ex froms tos : list label) (show_hidden : bool) (printed : list label)      (* [] = error "Couldn't find" *)
| QDeps (roots : list label) (hidden : bool) (level : Z) (printed : list (Z * label))
| QRev (roots : list label) (hidden : bool) (level : Z) (printed : list label)       (* as printed: sorted *)
| QUniq (roots : list label) (hidden : bool) (unique : bool).   (* the harness's own min-cost = max-cost test *)

Inductive case := Case (g : graph) (qs : list query).

Definition labels_eqb := list_eqb N.eqb.
Definition zl_eqb (a b : Z * label) : bool := Z.eqb (fst a) (fst b) && N.eqb (snd a) (snd b).

Definition set_eqb (a b : list label) : bool :=
  forallb (fun x => mem x b) a && forallb (fun x => mem x a) b.

(* all orders in which Go may enumerate the children *)
Fixpoint insert_all (x : label) (l : list label) : list (list label) :=
  match l with
  | [] => [[x]]
  | y :: r => (x :: l) :: map (cons y) (insert_all x r)
  end.
Fixpoint perms (l : list label) : list (list label) :=
  match l with
  | [] => [[]]
  | x :: r => flat_map (insert_all x) (perms r)
  end.
Fixpoint choices (ls : list (list (list label))) : list (list (list label)) :=
  match ls with
  | [] => [[]]
  | opts :: r => flat_map (fun o => map (cons o) (choices r)) opts
  end.

Definition check_query (g : graph) (q : query) : bool :=
  match q with
  | QSome ex froms tos sh printed =>
      match some_path_query g ex froms tos sh with Some p => labels_eqb p printed | None => false end
  | QDeps roots hidden level printed =>
      match deps_query g roots hidden level with Some out => list_eqb zl_eqb out printed | None => false end
  | QRev roots hidden level printed =>
      (* the observed set is the model's result for at least one enumeration order of the children ... *)
      existsb (fun chs => match revdeps_with g roots chs hidden level with
                          | Some out => set_eqb out printed
                          | None => false end)
              (choices (map (fun r => perms (children g r)) roots))
  | QUniq roots hidden unique => Bool.eqb (unique_costb g hidden roots) unique
  end.

Definition check (c : case) : bool :=
  match c with Case g qs => forallb (check_query g) qs end.
