(* C11 - reuse of test results.  Executable model of
     test()            src/test/test_step.go:57   (needToRun :144, cacheOutputFiles :120, cachedTestResults :76,
                                                    RemoveTestOutputs :526, moveOutputFile :542, verifyHash :572)
     RuntimeHash       src/build/incrementality.go:441  (+ the runtime part of ruleHash :245, CollapseHash)
     IterRuntimeFiles  src/core/utils.go:246
     getCommand        src/core/build_target.go:1626  (test_cmd given per build config), TestCommand
                       src/core/command_replacements.go:98 (test arguments are appended to the command)
   for one test target with NumTestRuns = 1, no --rerun, no coverage, run locally; with and without test
   arguments (`plz test L -- a`) and a build config (`-c dbg`).
   NOT typed here but read off the source by gotrans (Gen/C11RuntimeHash.v): what the loop of RuntimeHash
   writes per runtime file (loop_writes), what the test part of ruleHash's runtime section writes
   (rule_test_writes), the leading guards of needToRun (need_to_run_guards), the order of the guards and
   effects of cacheOutputFiles (store_steps), the lookup
   order of getCommand (get_command_order), the default / fallback build config, and how RuntimeHash
   combines the per-file digests (files_combine: in iteration order, or sorted first).  No proofs here. *)
From PlzV Require Import Base.Harness Gen.C11RuntimeHash.

(* ---- runtime files ---- *)

(* A runtime file is a regular file or a directory of regular files (one level is all the harness
   generates). *)
Inductive node :=
| File (c : str)
| Dir (es : list (str * str)).      (* (name, content) in increasing name order = godirwalk's order *)

Inductive role := ROut | RData.

Record rfile := { rf_role : role; rf_dest : str; rf_node : node }.

(* fs.PathHasher.hash: a file is hashed by content; a directory by the contents of its files in walk
   order - neither names nor boundaries are written (C09).  The stream is the pre-image of the digest. *)
Definition path_stream (n : node) : str :=
  match n with
  | File c => c
  | Dir es => concat (map snd es)
  end.

(* IterRuntimeFiles: pushOut yields a (src, dest) pair only for the first source per destination. *)
Fixpoint dedup (seen : list str) (l : list rfile) : list rfile :=
  match l with
  | [] => []
  | f :: r => if existsb (str_eqb (rf_dest f)) seen then dedup seen r
              else f :: dedup (rf_dest f :: seen) r
  end.

Definition runtime_files (l : list rfile) : list rfile := dedup [] l.

(* ---- the test command language of the harness and its meaning on a test directory ---- *)

Inductive tcmd :=
| TPassIf (w : str)                       (* grep -rqs w $DATA /dev/null *)
| TBinOk (w : str)                        (* grep -qs w $TEST *)
| TExists (dest : str) (sub : option str) (* test -e dest[/sub] *)
| TTrue
| TFail
| TArgIs (w : str)                        (* sh -c 'test "$1" = w' sh     : the first test argument is w *)
| TArgIsNot (w : str)                     (* sh -c 'test "$1" != w' sh    : the first test argument is not w *)
| TFileHas (dest : str) (w : str).        (* grep -qs w dest : the regular file AT dest contains w (which content
                                             lies at which destination matters, not only which contents exist) *)

Fixpoint prefix_b (w c : str) : bool :=
  match w, c with
  | [], _ => true
  | _ :: _, [] => false
  | x :: w', y :: c' => N.eqb x y && prefix_b w' c'
  end.

Fixpoint infix_b (w c : str) : bool :=
  prefix_b w c || match c with [] => false | _ :: c' => infix_b w c' end.

Definition node_has (w : str) (n : node) : bool :=
  match n with
  | File c => infix_b w c
  | Dir es => existsb (fun e => infix_b w (snd e)) es
  end.

(* the node found at a destination of the prepared test directory *)
Fixpoint lookup (d : str) (l : list rfile) : option node :=
  match l with
  | [] => None
  | f :: r => if str_eqb d (rf_dest f) then Some (rf_node f) else lookup d r
  end.

Definition is_data (f : rfile) : bool := match rf_role f with RData => true | ROut => false end.

(* [dir] is the prepared test directory: the de-duplicated runtime files (PrepareRuntimeDir uses the same
   iterator as RuntimeHash, so what lies at a destination is the first source pushed for it).  $DATA names
   the data destinations; generated data destinations lie under the package path and never collide with
   the outputs, which lie at the root of the test directory.
   [a] are the test arguments: core.TestCommand appends them to the command text.  grep -q exits 0 as soon as
   it finds a match and fails otherwise, whatever further (missing) file operands follow; `test -e P a` is a
   usage error (exit 2); true / false ignore their operands; "$1" of the sh -c forms is the first argument
   (the empty string when there is none). *)
Definition first_arg (a : list str) : str := match a with x :: _ => x | [] => [] end.

Definition run_cmd (c : tcmd) (dir : list rfile) (a : list str) : bool :=
  match c with
  | TPassIf w => existsb (fun f => is_data f && node_has w (rf_node f)) dir
  | TBinOk w => match filter (fun f => negb (is_data f)) dir with
                | f :: _ => node_has w (rf_node f)
                | [] => false
                end
  | TExists d sub => match a with
                     | _ :: _ => false
                     | [] =>
                       match lookup d dir, sub with
                       | None, _ => false
                       | Some _, None => true
                       | Some (File _), Some _ => false
                       | Some (Dir es), Some n => existsb (fun e => str_eqb n (fst e)) es
                       end
                     end
  | TTrue => true
  | TFail => false
  | TArgIs w => str_eqb (first_arg a) w
  | TArgIsNot w => negb (str_eqb (first_arg a) w)
  | TFileHas d w => match lookup d dir with          (* a directory or a missing path: grep exits 2 *)
                    | Some (File c) => infix_b w c
                    | _ => false
                    end
  end.

(* [files] is the list before de-duplication *)
Definition test_act (c : tcmd) (files : list rfile) (a : list str) : bool := run_cmd c (runtime_files files) a.

(* ---- the runtime key ---- *)

(* One test target as one invocation sees it: under the build config of that invocation (see [effective]). *)
Record tdef := {
  t_rule : list str;     (* the strings ruleHash(runtime=true) writes, in its order (label, deps, srcs, outs,
                            command, data entries, test part) - only the parts that vary *)
  t_cmd : tcmd;          (* the EFFECTIVE test command, structured *)
  t_files : list rfile;  (* IterRuntimeFiles, before de-duplication: outputs first, then data in order *)
  t_bin : str;           (* content of the test binary (the single output) *)
  t_build : list str     (* what needsBuilding / the build cache key depend on: the non-runtime rule fields
                            (label, declared deps, source names, outs, command) and the source contents *)
}.

(* the outcome of actually running the test of t with the test arguments a: what a fresh `plz test L -- a`
   reports; [outcome] is the argument-less run *)
Definition outcome_args (t : tdef) (a : list str) : bool := test_act (t_cmd t) (t_files t) a.
Definition outcome (t : tdef) : bool := outcome_args t [].

(* ---- the target as the BUILD file defines it: test_cmd is one string or a dict keyed by build config ---- *)

Inductive tcmds :=
| Single (text : str) (c : tcmd)
| PerConfig (l : list (str * (str * tcmd))).      (* config name -> (command text, its meaning); a Go map *)

Record tsrc := {
  ts_rule : list str;    (* what ruleHash(runtime=true) writes before the test part *)
  ts_cmds : tcmds;
  ts_files : list rfile;
  ts_bin : str;
  ts_build : list str
}.

Fixpoint assoc {A} (k : str) (l : list (str * A)) : option A :=
  match l with
  | [] => None
  | (k', v) :: r => if str_eqb k k' then Some v else assoc k r
  end.

(* getCommand's last resort: `for config, command := range commands { if config > highestConfig {...} }`
   starting from ("", ""); the empty command text means nothing here (the harness never builds an empty dict). *)
Definition highest (l : list (str * (str * tcmd))) : str * (str * tcmd) :=
  fold_left (fun acc e => if str_ltb (fst acc) (fst e) then e else acc) l ([], ([], TFail)).

Definition choose (cfg : str) (l : list (str * (str * tcmd))) (ch : cmd_choice) : option (str * tcmd) :=
  match ch with
  | ChActive => assoc cfg l
  | ChFallback => assoc fallback_config l
  | ChHighest => Some (snd (highest l))
  end.

Fixpoint first_choice (cfg : str) (l : list (str * (str * tcmd))) (order : list cmd_choice) : str * tcmd :=
  match order with
  | [] => ([], TFail)
  | ch :: r => match choose cfg l ch with Some e => e | None => first_choice cfg l r end
  end.

(* BuildTarget.getCommand *)
Definition get_command (cfg : str) (c : tcmds) : str * tcmd :=
  match c with
  | Single t m => (t, m)
  | PerConfig l => first_choice cfg l get_command_order
  end.

(* target.Test.Command: only the plain-string form fills it *)
Definition single_text (c : tcmds) : str := match c with Single t _ => t | PerConfig _ => [] end.

(* the test part of ruleHash's runtime section; test outputs (none), the sandbox flag and the arguments
   placeholder (empty) are the same for all generated targets *)
Definition test_part (cfg : str) (c : tcmds) : list str :=
  map (fun w => match w with
                | RWTestCmdEffective => fst (get_command cfg c)
                | RWTestCmdSingle => single_text c
                | RWTestOutputs | RWSandbox | RWArgsPlaceholder => []
                end) rule_test_writes.

(* no -c flag: config.Build.Config keeps its default *)
Definition resolve_config (c : str) : str := match c with [] => default_config | _ => c end.

Definition effective (cfg : str) (ts : tsrc) : tdef :=
  {| t_rule := ts_rule ts ++ test_part cfg (ts_cmds ts);
     t_cmd := snd (get_command cfg (ts_cmds ts));
     t_files := ts_files ts;
     t_bin := ts_bin ts;
     t_build := ts_build ts |}.

(* What RuntimeHash writes for one runtime file: per Gen.C11RuntimeHash.loop_writes. *)
Definition file_stream (f : rfile) : list str :=
  map (fun w => match w with WPathHash => path_stream (rf_node f) | WPathName => rf_dest f end) loop_writes.

(* RuntimeHash = rule hash (twice) ++ config hash ++ SHA1(the digests of the runtime files); CollapseHash
   XORs rule, config and file parts.  The model keeps the pre-images: the rule stream is the UNFRAMED
   concatenation of its strings (as in ruleHash), the file part is the list of per-file streams (each file
   contributes a fixed-width digest, so the list structure is kept).  Config is constant within a history. *)
Definition key := (str * list (list str))%type.

(* How RuntimeHash combines the per-file digests (Gen.C11RuntimeHash.files_combine, read off the source):
   CInOrder - each digest is written into the combining hash in the order IterRuntimeFiles yields the files,
   so the position of a digest says which runtime file it belongs to; CSorted - the digests are collected and
   sorted first, which makes the file part a hash of the MULTISET of contents.  The real sort is on the
   digests; equality of two sorted digest lists is equality of the multisets, which (no collisions) is
   equality of the multisets of pre-images, i.e. of the pre-image lists sorted by ANY total order: the model
   sorts the per-file streams by the lexicographic order on lists of strings (insertion sort). *)
Fixpoint lstr_leb (a b : list str) : bool :=
  match a, b with
  | [], _ => true
  | _ :: _, [] => false
  | x :: a', y :: b' => match str_cmp x y with Lt => true | Gt => false | Eq => lstr_leb a' b' end
  end.

Fixpoint insert_stream (x : list str) (l : list (list str)) : list (list str) :=
  match l with
  | [] => [x]
  | y :: r => if lstr_leb x y then x :: l else y :: insert_stream x r
  end.

Definition sort_streams (l : list (list str)) : list (list str) := fold_right insert_stream [] l.

Definition combine_files (c : fcombine) (l : list (list str)) : list (list str) :=
  match c with
  | CInOrder => l
  | CSorted => sort_streams l
  end.

Definition runtime_key (t : tdef) : key :=
  (concat (t_rule t), combine_files files_combine (map file_stream (runtime_files (t_files t)))).

Definition key_eqb (a b : key) : bool :=
  str_eqb (fst a) (fst b) && list_eqb (list_eqb str_eqb) (snd a) (snd b).

(* ---- persistent state of one test target ---- *)

Record tstate := {
  st_bin : option str;     (* the test binary lying in plz-out/bin (None: absent) *)
  st_local : option key;   (* .test_results_<name> exists, with this key in xattr user.plz_test *)
  st_cache : list key;     (* keys under which the directory cache holds a (passing) result *)
  st_bkey : option (list str);  (* what the binary in plz-out/bin was built from (its rule/source hashes in xattrs) *)
  st_builds : list (list str)   (* build keys under which the directory cache holds the binary *)
}.

Definition st0 : tstate := {| st_bin := None; st_local := None; st_cache := []; st_bkey := None; st_builds := [] |}.

Inductive report := CachedPass | RanPass | RanFail.

Definition report_eqb (a b : report) : bool :=
  match a, b with
  | CachedPass, CachedPass | RanPass, RanPass | RanFail, RanFail => true
  | _, _ => false
  end.

Definition passed (r : report) : bool := match r with RanFail => false | _ => true end.

Definition mem_key (k : key) (l : list key) : bool := existsb (key_eqb k) l.

(* rm -rf plz-out: outputs and local results go, the directory cache (outside the tree) stays *)
Definition rm_plz_out (st : tstate) : tstate :=
  {| st_bin := None; st_local := None; st_cache := st_cache st; st_bkey := None; st_builds := st_builds st |}.

(* cacheOutputFiles, called after a run in which every test case succeeded (results.Failures() = 0), as an
   interpreter of Gen.store_steps: a guard stops, moveOutputFile puts the results file with the key in its
   xattr into plz-out/bin, Cache.Store adds the key to the directory cache.  RemoveTestOutputs has removed
   the old results file before the run, so [loc] starts as None. *)
Fixpoint exec_store (cache_on has_args : bool) (k : key) (steps : list store_step)
                    (loc : option key) (cache : list key) : option key * list key :=
  match steps with
  | [] => (loc, cache)
  | SGuardArgs :: r => if has_args then (loc, cache) else exec_store cache_on has_args k r loc cache
  | SGuardFailures :: r => exec_store cache_on has_args k r loc cache
  | SMoveResults :: r => exec_store cache_on has_args k r (Some k) cache
  | SCacheStore :: r => exec_store cache_on has_args k r loc (if cache_on then k :: cache else cache)
  end.

Definition has_args (a : list str) : bool := match a with [] => false | _ :: _ => true end.

(* The build step before the test.  needsBuilding: the binary is absent or was built from something else.
   Then, with a directory cache that holds the artifacts of the current build key, they are FETCHED and the
   target's state becomes Cached (retrieveArtifacts compares outputHash(.., combine) of the old outputs with
   TargetHasher.OutputHash of the new ones; for a single-output target the two are computed differently, so
   even an identical binary counts as changed); otherwise the build command runs (state Built, or Unchanged
   when the output is identical) and its artifacts are stored in the cache. *)
Definition bkey_eqb : list str -> list str -> bool := list_eqb str_eqb.

Definition needs_build (st : tstate) (t : tdef) : bool :=
  negb (option_eqb bkey_eqb (st_bkey st) (Some (t_build t))).

Definition fetched (cache_on : bool) (st : tstate) (t : tdef) : bool :=
  needs_build st t && cache_on && existsb (bkey_eqb (t_build t)) (st_builds st).

(* the build command is executed in this invocation *)
Definition builds (cache_on : bool) (st : tstate) (t : tdef) : bool :=
  needs_build st t && negb (fetched cache_on st t).

Definition builds_after (cache_on : bool) (st : tstate) (t : tdef) : list (list str) :=
  if builds cache_on st t && cache_on then t_build t :: st_builds st else st_builds st.

(* target.State() is Reused/Unchanged: not fetched, and the binary in plz-out/bin is the one the current
   definition produces (not rebuilt, or rebuilt with equal output hash) *)
Definition settled (cache_on : bool) (st : tstate) (t : tdef) : bool :=
  negb (fetched cache_on st t) && option_eqb str_eqb (st_bin st) (Some (t_bin t)).

(* the leading `if <guard> { return true }` statements of needToRun (Gen.need_to_run_guards): --rerun is not
   part of the model; a run that is given test arguments always runs (the runtime key does not contain the
   arguments, so a stored result says nothing about them) *)
Definition guard_fires (a : list str) (g : run_guard) : bool :=
  match g with
  | NGForceRerun => false
  | NGArgs => has_args a
  end.

(* One `plz test` of the target.  [cache_on]: a directory cache is configured.  [a]: the test arguments. *)
Definition test_step (cache_on : bool) (st : tstate) (t : tdef) (a : list str) : tstate * report :=
  let k := runtime_key t in
  (* needToRun (:144) *)
  let need_to_run :=
    existsb (guard_fires a) need_to_run_guards
    || match settled cache_on st t, st_local st with
       | true, Some l => negb (key_eqb l k)                   (* verifyHash on the local results file only *)
       | _, _ => negb (cache_on && mem_key k (st_cache st))   (* retrieveFromCache *)
       end in
  let bk := Some (t_build t) in
  let bs := builds_after cache_on st t in
  if negb need_to_run then
    (* cachedTestResults: what was stored passed (only passes are stored), reported as cached *)
    ({| st_bin := Some (t_bin t); st_local := Some k; st_cache := st_cache st; st_bkey := bk; st_builds := bs |}, CachedPass)
  else
    (* RemoveTestOutputs, run (with the arguments), and on success cacheOutputFiles *)
    if outcome_args t a then
      let lc := exec_store cache_on (has_args a) k store_steps None (st_cache st) in
      ({| st_bin := Some (t_bin t); st_local := fst lc; st_cache := snd lc; st_bkey := bk; st_builds := bs |}, RanPass)
    else
      ({| st_bin := Some (t_bin t); st_local := None; st_cache := st_cache st; st_bkey := bk; st_builds := bs |}, RanFail).

(* One step of a history: optionally delete plz-out, then `plz test [-c config] L [-- args]` on the current tree. *)
Record step := { s_rm : bool; s_config : str; s_args : list str; s_src : tsrc }.

(* the target as this invocation sees it *)
Definition s_def (x : step) : tdef := effective (resolve_config (s_config x)) (s_src x).

(* what a fresh run of this invocation reports *)
Definition step_outcome (x : step) : bool := outcome_args (s_def x) (s_args x).

Definition do_step (cache_on : bool) (st : tstate) (x : step) : tstate * report :=
  test_step cache_on (if s_rm x then rm_plz_out st else st) (s_def x) (s_args x).

Fixpoint run (cache_on : bool) (st : tstate) (h : list step) : list (tstate * report) :=
  match h with
  | [] => []
  | x :: r => let sr := do_step cache_on st x in sr :: run cache_on (fst sr) r
  end.

Definition reports (cache_on : bool) (h : list step) : list report := map snd (run cache_on st0 h).

(* distinct keys in the cache *)
Fixpoint nkeys (l : list key) : nat :=
  match l with
  | [] => 0
  | k :: r => if mem_key k r then nkeys r else S (nkeys r)
  end.

(* ---- the runtime inputs of a test and the known ways in which the key misses a change of them ---- *)

Definition node_eqb (a b : node) : bool :=
  match a, b with
  | File c, File c' => str_eqb c c'
  | Dir es, Dir es' => list_eqb (fun e e' => str_eqb (fst e) (fst e') && str_eqb (snd e) (snd e')) es es'
  | _, _ => false
  end.
Definition role_eqb (a b : role) : bool :=
  match a, b with ROut, ROut | RData, RData => true | _, _ => false end.
Definition rfile_eqb (a b : rfile) : bool :=
  role_eqb (rf_role a) (rf_role b) && str_eqb (rf_dest a) (rf_dest b) && node_eqb (rf_node a) (rf_node b).
Definition tcmd_eqb (a b : tcmd) : bool :=
  match a, b with
  | TPassIf w, TPassIf w' | TBinOk w, TBinOk w' => str_eqb w w'
  | TExists d u, TExists d' u' => str_eqb d d' && option_eqb str_eqb u u'
  | TTrue, TTrue | TFail, TFail => true
  | TArgIs w, TArgIs w' | TArgIsNot w, TArgIsNot w' => str_eqb w w'
  | TFileHas d w, TFileHas d' w' => str_eqb d d' && str_eqb w w'
  | _, _ => false
  end.

(* same test command and same prepared test directory (names, kinds and contents) *)
Definition same_inputs_b (a b : tdef) : bool :=
  tcmd_eqb (t_cmd a) (t_cmd b) && list_eqb rfile_eqb (runtime_files (t_files a)) (runtime_files (t_files b)).

(* which content stream lies at which position of IterRuntimeFiles (after de-duplication) *)
Definition assignment (t : tdef) : list str := map (fun f => path_stream (rf_node f)) (runtime_files (t_files t)).

(* An edit that re-assigns the nodes (contents) of the runtime files, keeping roles and destinations: the
   i-th runtime file gets the i-th node of ns.  A PERMUTATION of the contents among the files (swap the
   contents of two data files, rotate three) is with_nodes l ns for ns a permutation of map rf_node l. *)
Fixpoint with_nodes (l : list rfile) (ns : list node) : list rfile :=
  match l, ns with
  | f :: r, n :: ns' => {| rf_role := rf_role f; rf_dest := rf_dest f; rf_node := n |} :: with_nodes r ns'
  | _, _ => l
  end.

Definition with_files (t : tdef) (l : list rfile) : tdef :=
  {| t_rule := t_rule t; t_cmd := t_cmd t; t_files := l; t_bin := t_bin t; t_build := t_build t |}.

Inductive defect :=
| RuntimeFileNamesNotHashed     (* equal key, but a runtime file lies at another destination *)
| DirEntryNamesNotHashed        (* equal key, same destinations, but a directory's entries differ (C09) *)
| ContentsPermuted              (* equal key, same command and destinations, but another content at some
                                   position (cannot happen while the digests are combined in order:
                                   Proof.C11_Perm.no_contents_permuted) *)
| OtherKeyCollision.            (* equal key although the command differs (unframed rule stream, ...) *)

Definition pair_defect (a b : tdef) : option defect :=
  if key_eqb (runtime_key a) (runtime_key b) && negb (same_inputs_b a b) then
    let da := runtime_files (t_files a) in
    let db := runtime_files (t_files b) in
    if negb (tcmd_eqb (t_cmd a) (t_cmd b)) then Some OtherKeyCollision
    else if negb (list_eqb str_eqb (map rf_dest da) (map rf_dest db)) then Some RuntimeFileNamesNotHashed
    else if list_eqb str_eqb (map (fun f => path_stream (rf_node f)) da) (map (fun f => path_stream (rf_node f)) db)
         then Some DirEntryNamesNotHashed
         else Some ContentsPermuted
  else None.

Fixpoint first_some {A B} (f : A -> option B) (l : list A) : option B :=
  match l with
  | [] => None
  | x :: r => match f x with Some d => Some d | None => first_some f r end
  end.

(* the first pair of tree states of the history on which the key is blind to a change of the inputs *)
Definition defect_class (h : list step) : option defect :=
  first_some (fun x => first_some (fun y => pair_defect (s_def x) (s_def y)) h) h.

(* ---- correspondence cases ---- *)

Record obs := {
  o_report : report;   (* what `plz test` reported for the target, and whether the command really ran *)
  o_fresh : bool;      (* outcome of the same `plz test` invocation on a clean copy of the same tree *)
  o_nkeys : nat;       (* distinct test-result keys of the target in the directory cache afterwards *)
  o_built : bool       (* the build command of the target was executed in this invocation *)
}.

Inductive case :=
| CHist (cache_on : bool) (h : list (step * obs)).

(* the states BEFORE the steps of a history (after the optional rm -rf plz-out of the step) *)
Fixpoint pre_states (cache_on : bool) (st : tstate) (h : list step) : list tstate :=
  match h with
  | [] => []
  | x :: r => (if s_rm x then rm_plz_out st else st) :: pre_states cache_on (fst (do_step cache_on st x)) r
  end.

Definition check (c : case) : bool :=
  match c with
  | CHist cache_on h =>
      let r := run cache_on st0 (map fst h) in
      let p := pre_states cache_on st0 (map fst h) in
      Nat.eqb (length r) (length h)
      && forallb (fun q =>
                    let '((st, rep), (x, o)) := q in
                    report_eqb rep (o_report o)
                    && Bool.eqb (step_outcome x) (o_fresh o)
                    && (negb cache_on || Nat.eqb (nkeys (st_cache st)) (o_nkeys o)))
                 (combine r h)
      && forallb (fun q => let '(st, (x, o)) := q in Bool.eqb (builds cache_on st (s_def x)) (o_built o))
                 (combine p h)
  end.
