(* C08 - the correspondence check of bin/check C08, instantiated with the program and the wrapper regenerated from the
   source. *)
From PlzV Require Import Base.Harness Model.C08 Model.C08_Cache Gen.RuleHashProg.

Definition case := C08_Cache.ccase.
Definition check : case -> bool := ccheck_with RuleHashProg.prog RuleHashProg.rule_hash_wrapper.
