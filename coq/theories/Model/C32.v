(* C32 - crashes never leave files that later builds trust wrongly.
   Executable model of the PERSISTENT effects of one target build, in code order
   (src/build/build_step.go buildTarget:374-406, moveOutputs/moveOutput:698-779,
    src/build/incrementality.go StoreTargetMetadata:391, writeRuleHash:341, needsBuilding:49,
    readRuleHashFromXattrs:294, src/fs/attr.go RecordAttrFile, src/fs/fs.go WriteFile:94).
   A crash (SIGKILL) after k steps = the first k steps of the list.  No proofs here. *)
From PlzV Require Import Base.Harness.

(* ------------------------------------------------------------------------------------------ *)
(* The part of plz-out that belongs to one target *)

Definition name := str.            (* an output, relative to the target's out dir *)
Definition content := N.           (* identifies a complete file or directory tree *)
Definition junk : content := 0%N.  (* a directory that RemoveAll has begun to delete *)

(* xattr user.plz_build: [rule pre][rule post][config][source][secret], 5 x 20 bytes *)
Record rec := mkRec { r_pre : N; r_post : N; r_cfg : N; r_src : N; r_sec : N }.
Definition zero_rec := mkRec 0 0 0 0 0.
Definition rec_eqb (a b : rec) : bool :=
  N.eqb (r_pre a) (r_pre b) && N.eqb (r_post a) (r_post b) && N.eqb (r_cfg a) (r_cfg b)
  && N.eqb (r_src a) (r_src b) && N.eqb (r_sec a) (r_sec b).

(* an output in plz-out/gen: what it holds, xattr user.plz_hash* (memo of the path hash), xattr user.plz_build *)
Record file := mkFile { f_content : content; f_hash : option content; f_rec : option rec }.

(* .target_build_metadata_<name>: complete (it carries OutputDirOuts) or empty / undecodable. Since the fix
   e0ea5c1 the build never produces the second kind (temp file + rename); it stays in the state space so that
   `decide` says what plz does if it meets one. *)
Inductive mdc := MdEmpty | MdFull (dirouts : list name).
Record mdfile := mkMd { m_c : mdc; m_rec : option rec }.

(* .rule_hash_<name>, the fallback record of a target without outputs (os.WriteFile: truncate, then write) *)
Inductive fb := FbEmpty | FbRec (r : rec).

Record st := mkSt { s_md : option mdfile; s_out : name -> option file; s_fb : option fb }.

Definition empty_st : st := mkSt None (fun _ => None) None.

Definition upd (o : name -> option file) (n : name) (v : option file) : name -> option file :=
  fun m => if str_eqb m n then v else o m.

(* what PathHasher.Hash(path, recalc=false) answers for a file in plz-out: the stored xattr when there is one *)
Definition eff_hash (f : file) : content :=
  match f_hash f with Some h => h | None => f_content f end.

(* ------------------------------------------------------------------------------------------ *)
(* The target and the build that is being run *)

Record target := mkT { t_outs : list name;     (* declared outputs *)
                       t_mod : bool }.          (* BuildCouldModifyTarget: output_dirs / post-build function *)

Record build := mkB { b_dirouts : list name;            (* outputs discovered in the output_dirs by this build *)
                      b_new : name -> content;          (* what the command produces for each output *)
                      b_cur : rec;                      (* the hashes of the current tree *)
                      b_force : bool }.                 (* state.ShouldRebuild: plz build --rebuild *)

Definition with_force (b : build) (f : bool) : build := mkB (b_dirouts b) (b_new b) (b_cur b) f.

(* BuildTarget.insert (build_target.go:1908): sorted, no duplicates *)
Fixpoint insert (sl : list name) (x : name) : list name :=
  match sl with
  | [] => [x]
  | y :: r => if str_eqb x y then sl else if str_ltb x y then x :: sl else y :: insert r x
  end.

Definition add_outs (base extra : list name) : list name := fold_left insert extra base.

Definition declared (t : target) : list name := add_outs [] (t_outs t).

(* target.Outputs() after addOutputDirectoriesToBuildOutput *)
Definition all_outs (t : target) (b : build) : list name :=
  add_outs (declared t) (if t_mod t then b_dirouts b else []).

(* ------------------------------------------------------------------------------------------ *)
(* fs.WriteFile (src/fs/fs.go:94): MkdirAll, CreateTemp, io.Copy, Close, Chmod, Rename *)

Record wfile := mkW { w_data : str; w_mode : N }.
Record wst := mkWst { w_dest : option wfile; w_tmp : option wfile; w_dir : bool }.

Inductive wstep := WMkdir | WCreate | WWrite (chunk : str) | WClose | WChmod (m : N) | WRename.

Definition wrun1 (x : wstep) (s : wst) : wst :=
  match x with
  | WMkdir => mkWst (w_dest s) (w_tmp s) true
  | WCreate => mkWst (w_dest s) (Some (mkW [] 384)) (w_dir s)            (* os.CreateTemp: 0600 *)
  | WWrite c => match w_tmp s with
                | Some f => mkWst (w_dest s) (Some (mkW (w_data f ++ c) (w_mode f))) (w_dir s)
                | None => s
                end
  | WClose => s
  | WChmod m => match w_tmp s with
                | Some f => mkWst (w_dest s) (Some (mkW (w_data f) m)) (w_dir s)
                | None => s
                end
  | WRename => match w_tmp s with
               | Some f => mkWst (Some f) None (w_dir s)
               | None => s
               end
  end.

Definition wrun (l : list wstep) (s : wst) : wst := fold_left (fun a x => wrun1 x a) l s.

Definition eff_mode (m : N) : N := if N.eqb m 0 then 436 else m.          (* 0 -> 0664 *)

Definition wf_steps (dir_exists : bool) (chunks : list str) (mode : N) : list wstep :=
  (if dir_exists then [] else [WMkdir]) ++ [WCreate] ++ map WWrite chunks ++ [WClose; WChmod (eff_mode mode); WRename].

(* ------------------------------------------------------------------------------------------ *)
(* Primitive persistent steps *)

Inductive step :=
| RmMd                              (* StoreTargetMetadata: fs.RemoveAll(md)              incrementality.go:393 *)
| MdTmp (w : wstep)                 (* fs.WriteFile(&buf, md, 0644): its steps on the TEMPORARY file       :403 *)
| MvMd (dirouts : list name)        (*   ... and its final rename onto the metadata file (gob with OutputDirOuts) *)
| DamageOut (n : name)              (* moveOutput: fs.RemoveAll(realOutput) under way (directories)  build_step.go:755 *)
| RmOut (n : name)                  (*             ... finished *)
| MvOut (n : name) (c : content)    (* os.Rename(tmpOutput, realOutput)                    :770 *)
| SetHash (n : name)                (* OutputHash: PathHasher.Hash(recalc, store) -> xattr user.plz_hash  :813 *)
| SetRec (n : name) (r : rec)       (* writeRuleHash: RecordAttr(output)                   incrementality.go:357 *)
| SetMdRec (r : rec)                (* writeRuleHash: RecordAttr(md) if it exists          :362 *)
| FbTrunc                           (* RecordAttrFile: os.WriteFile opens with O_TRUNC     attr.go:39 *)
| FbWrite (r : rec).                (*                 ... writes the 100 bytes *)

Definition run1 (x : step) (s : st) : st :=
  match x with
  | RmMd => mkSt None (s_out s) (s_fb s)
  | MdTmp _ => s                      (* the temporary file (.target_build_metadata_<name><random>) is read by nobody *)
  | MvMd d => mkSt (Some (mkMd (MdFull d) None)) (s_out s) (s_fb s)      (* a new inode: complete content, no xattr *)
  | DamageOut n =>
      match s_out s n with
      | Some f => mkSt (s_md s) (upd (s_out s) n (Some (mkFile junk (f_hash f) (f_rec f)))) (s_fb s)
      | None => s
      end
  | RmOut n => mkSt (s_md s) (upd (s_out s) n None) (s_fb s)
  | MvOut n c =>
      (* the temporary output was hashed with store=true before the rename: it arrives with its path hash, no record *)
      mkSt (s_md s) (upd (s_out s) n (Some (mkFile c (Some c) None))) (s_fb s)
  | SetHash n =>
      match s_out s n with
      | Some f => mkSt (s_md s) (upd (s_out s) n (Some (mkFile (f_content f) (Some (f_content f)) (f_rec f)))) (s_fb s)
      | None => s
      end
  | SetRec n r =>
      match s_out s n with
      | Some f => mkSt (s_md s) (upd (s_out s) n (Some (mkFile (f_content f) (f_hash f) (Some r)))) (s_fb s)
      | None => s
      end
  | SetMdRec r =>
      match s_md s with
      | Some m => mkSt (Some (mkMd (m_c m) (Some r))) (s_out s) (s_fb s)
      | None => s
      end
  | FbTrunc => mkSt (s_md s) (s_out s) (Some FbEmpty)
  | FbWrite r => mkSt (s_md s) (s_out s) (Some (FbRec r))
  end.

Definition run (l : list step) (s : st) : st := fold_left (fun a x => run1 x a) l s.

(* moveOutput (build_step.go:741): keep an existing output whose hash equals the new one, else remove and rename *)
Definition move_steps (b : build) (s : st) (n : name) : list step :=
  match s_out s n with
  | Some f => if N.eqb (eff_hash f) (b_new b n) then [] else [DamageOut n; RmOut n; MvOut n (b_new b n)]
  | None => [MvOut n (b_new b n)]
  end.

(* moveOutputs (build_step.go:704): the outputs one after the other, each decision taken on the disk as it is then *)
Fixpoint moves (b : build) (l : list name) (s : st) : list step :=
  match l with
  | [] => []
  | n :: r => let ms := move_steps b s n in ms ++ moves b r (run ms s)
  end.

(* writeRuleHash (incrementality.go:341) *)
Definition rec_steps (b : build) (outs : list name) : list step :=
  match outs with
  | [] => [FbTrunc; FbWrite (b_cur b)]
  | _ => map (fun n => SetRec n (b_cur b)) outs ++ [SetMdRec (b_cur b)]
  end.

(* StoreTargetMetadata (incrementality.go:391): RemoveAll, then fs.WriteFile of the encoded metadata. The steps are
   WriteFile's own step list (one chunk, mode 0644, directory present), its rename being the step that makes the
   metadata file appear; the gob bytes are abstracted to the empty chunk. *)
Definition md_steps (d : list name) : list step :=
  RmMd :: map MdTmp (removelast (wf_steps true [[]] 420)) ++ [MvMd d].

(* buildTarget after the command has run: StoreTargetMetadata; moveOutputs; calculateAndCheckRuleHash *)
Definition build_steps (t : target) (b : build) (s : st) : list step :=
  let outs := all_outs t b in
  let pre := md_steps (if t_mod t then b_dirouts b else []) in
  pre
  ++ moves b outs (run pre s)
  ++ map SetHash outs
  ++ rec_steps b outs.

(* ------------------------------------------------------------------------------------------ *)
(* What the next build decides: needsBuilding (incrementality.go:49) and buildTarget:226-260 *)

Definition attr_of (s : st) (n : name) : option rec :=
  match s_out s n with Some f => f_rec f | None => None end.

(* the loop of readRuleHashFromXattrs: None = `return ruleHashes{}`, Some h = loop finished *)
Fixpoint read_outs (names : list name) (s : st) (h : option rec) : option (option rec) :=
  match names with
  | [] => Some h
  | n :: r =>
      match attr_of s n with
      | None => None
      | Some bb =>
          match h with
          | Some h' => if rec_eqb h' bb then read_outs r s (Some bb) else None
          | None => read_outs r s (Some bb)
          end
      end
  end.

Definition read_rec (post : bool) (t : target) (names : list name) (s : st) : option rec :=
  match read_outs names s None with
  | None => None
  | Some (Some h) => Some h
  | Some None =>
      if t_mod t && negb post then
        match s_md s with Some m => m_rec m | None => None end
      else
        match s_fb s with
        | None => None
        (* os.ReadFile of an empty file returns a slice of length 0 and capacity 512; h[0:20] etc. reslice it
           into zero bytes, so a truncated fallback file reads as the all-zero record *)
        | Some FbEmpty => Some zero_rec
        | Some (FbRec r) => Some r
        end
  end.

Definition exists_out (s : st) (n : name) : bool := match s_out s n with Some _ => true | None => false end.

(* the recorded hashes equal the current ones and every output exists *)
Definition rec_matches (post : bool) (t : target) (b : build) (names : list name) (s : st) : bool :=
  match read_rec post t names s with
  | None => false
  | Some r =>
      N.eqb (r_cfg r) (r_cfg (b_cur b))
      && N.eqb (if post then r_post r else r_pre r) (if post then r_post (b_cur b) else r_pre (b_cur b))
      && N.eqb (r_src r) (r_src (b_cur b))
      && N.eqb (r_sec r) (r_sec (b_cur b))
      && forallb (exists_out s) names
  end.

Definition md_exists (s : st) : bool := match s_md s with Some _ => true | None => false end.

Definition needs (post : bool) (t : target) (b : build) (names : list name) (s : st) : bool :=
  negb (md_exists s) || negb (rec_matches post t b names s) || b_force b.

Inductive decision := Rebuild | Reuse | Fail.

Definition decision_eqb (a b : decision) : bool :=
  match a, b with Rebuild, Rebuild | Reuse, Reuse | Fail, Fail => true | _, _ => false end.

Definition decide (t : target) (b : build) (s : st) : decision :=
  if needs false t b (declared t) s then Rebuild
  else if t_mod t then
    match s_md s with
    | Some (mkMd (MdFull d) _) =>
        (* loadTargetMetadata; addOutDirOutsFromMetadata; needsBuilding(postBuild = true) *)
        if needs true t b (add_outs (declared t) d) s then Rebuild else Reuse
    | _ => Fail                       (* "failed to load build metadata": the build fails *)
    end
  else Reuse.

(* ------------------------------------------------------------------------------------------ *)
(* Crash, recovery, clean build *)

Definition crash (k : nat) (t : target) (b : build) (s : st) : st := run (firstn k (build_steps t b s)) s.
Definition full (t : target) (b : build) (s : st) : st := run (build_steps t b s) s.

(* the next NORMAL `plz build` of the same tree *)
Definition recover (t : target) (b : build) (s : st) : option st :=
  let b' := with_force b false in
  match decide t b' s with
  | Rebuild => Some (full t b' s)
  | Reuse => Some s
  | Fail => None
  end.

Definition clean (t : target) (b : build) : st := full t (with_force b false) empty_st.

Definition visible (t : target) (b : build) (s : st) : list (option content) :=
  map (fun n => option_map f_content (s_out s n)) (all_outs t b).

Definition md_full (t : target) (b : build) (s : st) : bool :=
  match s_md s with
  | Some (mkMd (MdFull d) _) => list_eqb str_eqb d (if t_mod t then b_dirouts b else [])
  | _ => false
  end.

(* a history: builds of the same tree, each killed after some number of steps; fst = forced (--rebuild) *)
Definition event := (bool * nat)%type.

Definition step_event (t : target) (b : build) (s : st) (e : event) : st :=
  let b' := with_force b (fst e) in
  match decide t b' s with
  | Rebuild => crash (snd e) t b' s
  | _ => s
  end.

Definition after (t : target) (b : build) (evs : list event) (s : st) : st :=
  fold_left (step_event t b) evs s.

(* the record the pre-build check reads is the current one. A build can still start in such a state (forced
   rebuild, or a rebuild decided by the post-build check); before the fix e0ea5c1 a kill of such a build could
   leave an empty metadata file next to these trusted outputs. *)
Definition in_window (t : target) (b : build) (s : st) : bool := rec_matches false t b (declared t) s.

(* ------------------------------------------------------------------------------------------ *)
(* Correspondence cases *)

Definition wfile_eqb (a b : wfile) : bool := str_eqb (w_data a) (w_data b) && N.eqb (w_mode a) (w_mode b).

Definition of_list (l : list (name * file)) : name -> option file :=
  fun n => match find (fun kv => str_eqb n (fst kv)) l with Some kv => Some (snd kv) | None => None end.

(* a state as the harness reads it from the disk *)
Record obs_st := mkObs { o_md : option mdfile; o_outs : list (name * file); o_fb : option fb }.
Definition st_of (o : obs_st) : st := mkSt (o_md o) (of_list (o_outs o)) (o_fb o).

Definition wstep_eqb (a b : wstep) : bool :=
  match a, b with
  | WMkdir, WMkdir | WCreate, WCreate | WClose, WClose | WRename, WRename => true
  | WWrite c, WWrite d => str_eqb c d
  | WChmod m, WChmod n => N.eqb m n
  | _, _ => false
  end.

Definition step_eqb (a b : step) : bool :=
  match a, b with
  | RmMd, RmMd | FbTrunc, FbTrunc => true
  | MdTmp w, MdTmp v => wstep_eqb w v
  | MvMd d, MvMd e => list_eqb str_eqb d e
  | DamageOut n, DamageOut m | RmOut n, RmOut m | SetHash n, SetHash m => str_eqb n m
  | MvOut n c, MvOut m d => str_eqb n m && N.eqb c d
  | SetRec n r, SetRec m q => str_eqb n m && rec_eqb r q
  | SetMdRec r, SetMdRec q | FbWrite r, FbWrite q => rec_eqb r q
  | _, _ => false
  end.

Definition file_eqb (a b : file) : bool :=
  N.eqb (f_content a) (f_content b) && option_eqb N.eqb (f_hash a) (f_hash b) && option_eqb rec_eqb (f_rec a) (f_rec b).

Definition mdc_eqb (a b : mdc) : bool :=
  match a, b with MdEmpty, MdEmpty => true | MdFull d, MdFull e => list_eqb str_eqb d e | _, _ => false end.
Definition mdfile_eqb (a b : mdfile) : bool := mdc_eqb (m_c a) (m_c b) && option_eqb rec_eqb (m_rec a) (m_rec b).
Definition fb_eqb (a b : fb) : bool :=
  match a, b with FbEmpty, FbEmpty => true | FbRec r, FbRec q => rec_eqb r q | _, _ => false end.

(* equality of two states on the given names *)
Definition st_eqb_on (names : list name) (a b : st) : bool :=
  option_eqb mdfile_eqb (s_md a) (s_md b) && option_eqb fb_eqb (s_fb a) (s_fb b)
  && forallb (fun n => option_eqb file_eqb (s_out a n) (s_out b n)) names.

Definition mk_build (dirouts : list name) (new : list (name * content)) (cur : rec) (force : bool) : build :=
  mkB dirouts (fun n => match find (fun kv => str_eqb n (fst kv)) new with Some kv => snd kv | None => junk end) cur force.

Fixpoint existsb_upto (k : nat) (p : nat -> bool) : bool :=
  p k || match k with O => false | S k' => existsb_upto k' p end.

Inductive case :=
(* fs.WriteFile killed on entry to its (k+1)-th mutating syscall: destination and temporary file afterwards *)
| CWrite (dir_exists : bool) (old : option wfile) (chunks : list str) (mode : N) (k : nat)
         (obs_dest obs_tmp : option wfile)
(* an uninterrupted build of one target under strace: the persistent steps in the order the syscalls were issued *)
| CTrace (t : target) (dirouts : list name) (new : list (name * content)) (cur : rec) (s0 : obs_st) (obs : list step)
(* a killed build: the state before, the state found after the kill, and what the next build did with the target *)
| CCrash (t : target) (dirouts : list name) (new : list (name * content)) (cur : rec) (force : bool)
         (s0 sk : obs_st) (obs : decision).

Definition check (c : case) : bool :=
  match c with
  | CWrite dir old chunks mode k od ot =>
      let s := wrun (firstn k (wf_steps dir chunks mode)) (mkWst old None dir) in
      option_eqb wfile_eqb (w_dest s) od && option_eqb wfile_eqb (w_tmp s) ot
  | CTrace t dirouts new cur s0 obs =>
      list_eqb step_eqb (build_steps t (mk_build dirouts new cur false) (st_of s0)) obs
  | CCrash t dirouts new cur force s0 sk obs =>
      let b := mk_build dirouts new cur force in
      let steps := build_steps t b (st_of s0) in
      let names := add_outs (all_outs t b) (map fst (o_outs s0) ++ map fst (o_outs sk)) in
      (* the state found is a prefix of the step list (the build may not have started: k = 0) *)
      existsb_upto (length steps) (fun k => st_eqb_on names (run (firstn k steps) (st_of s0)) (st_of sk))
      && decision_eqb (decide t (with_force b false) (st_of sk)) obs
  end.
