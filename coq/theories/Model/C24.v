(* C24 - change detection never misses an affected target.
   Executable model of src/query/changes.go (Changes, DiffGraphs, diffGraphs, changedTargets),
   of FindRevdeps / findRevdeps / buildRevdeps (src/query/reverse_deps.go) with the flags that
   changedTargets passes (hidden = true, followSubincludes = false), and of HasSource /
   HasAbsoluteSource / ProvideFor (src/core/build_target.go).  No proofs here. *)
From PlzV Require Import Base.Harness.

Definition label := N.

(* What the anchored code reads of a core.BuildTarget.  (Tools are never in-repository files: the BUILD
   parser turns a relative non-label tool into a lookup on PATH, so AllSources() ++ AllData() are all the
   repository files a target consumes.) *)
Record target := mkT {
  t_id : label;                        (* Label *)
  t_pkg : str;                         (* Label.PackageName *)
  t_sub : bool;                        (* Subrepo != nil (the label lives in a subrepo) *)
  t_subtarget : option label;          (* Subrepo.Target.Label when the subrepo has a target *)
  t_inputs : list str;                 (* String() of AllSources() ++ AllData(), in that order *)
  t_deps : list label;                 (* DeclaredDependencies() *)
  t_requires : list N;                 (* Requires *)
  t_provides : list (N * list label);  (* Provides *)
  t_datalabels : list label;           (* labels among AllData()   (isDataFor) *)
  t_toollabels : list label;           (* labels among the tools   (IsTool) *)
  t_include : bool;                    (* state.ShouldInclude(t) *)
  t_defkey : N;                        (* build.RuleHash(state, t, runtime=true, false), abstract *)
  t_srckey : N                         (* sourceHash of changes.go: paths of the out-of-repo tools *)
}.

(* g_targets: Graph.AllTargets(); g_pkgs: names of the host-repository packages of the graph;
   g_subincludes: (host package, label it subincludes) - not read by changedTargets. *)
Record graph := mkG {
  g_targets : list target;
  g_pkgs : list str;
  g_subincludes : list (str * label)
}.

Definition mem (l : label) (ls : list label) : bool := existsb (N.eqb l) ls.
Definition add (l : label) (ls : list label) : list label := if mem l ls then ls else ls ++ [l].
Definition find (g : graph) (l : label) : option target :=
  List.find (fun t => N.eqb (t_id t) l) (g_targets g).

(* ---- strings ---- *)
Definition slash : N := 47%N.

Fixpoint strip_prefix (p x : str) : option str :=
  match p with
  | [] => Some x
  | c :: p' => match x with
               | [] => None
               | d :: x' => if N.eqb c d then strip_prefix p' x' else None
               end
  end.
Definition has_prefix (p x : str) : bool := match strip_prefix p x with Some _ => true | None => false end.
(* strings.TrimPrefix *)
Definition trim_prefix (p x : str) : str := match strip_prefix p x with Some r => r | None => x end.

(* the part before the last '/', None when there is no '/' *)
Fixpoint before_last_slash (x : str) : option str :=
  match x with
  | [] => None
  | c :: r => match before_last_slash r with
              | Some p => Some (c :: p)
              | None => if N.eqb c slash then Some [] else None
              end
  end.
Fixpoint strip_trailing_slashes_rev (r : str) : str :=
  match r with
  | c :: r' => if N.eqb c slash then strip_trailing_slashes_rev r' else r
  | [] => []
  end.
Definition strip_trailing_slashes (x : str) : str := rev (strip_trailing_slashes_rev (rev x)).

(* filepath.Dir on paths without ".", ".." and empty interior segments (Clean then only removes the
   trailing separators): "a/b/c" -> "a/b", "a" -> ".", "/a" -> "/", "" -> ".". *)
Definition path_dir (x : str) : str :=
  match before_last_slash x with
  | None => s "."
  | Some p => match strip_trailing_slashes p with
              | [] => s "/"
              | d => d
              end
  end.

(* ---- build_target.go ---- *)
(* for _, src := range append(AllSources(), AllData()...) { if s == source || HasPrefix(source, s+"/") } *)
Definition has_source (t : target) (source : str) : bool :=
  existsb (fun i => str_eqb i source || has_prefix (i ++ [slash]) source) (t_inputs t).
(* HasSource(strings.TrimPrefix(source, target.Label.PackageName+"/")) *)
Definition has_abs_source (t : target) (source : str) : bool :=
  has_source t (trim_prefix (t_pkg t ++ [slash]) source).

Fixpoint lookup_prov (k : N) (m : list (N * list label)) : option (list label) :=
  match m with
  | [] => None
  | (k', v) :: r => if N.eqb k k' then Some v else lookup_prov k r
  end.

(* ProvideFor: what a dependency of [other] on [t] resolves to *)
Definition provide_for (t other : target) : list label :=
  match t_provides t, t_requires other with
  | [], _ | _, [] => [t_id t]
  | _, _ =>
      if mem (t_id t) (t_datalabels other) then [t_id t]
      else if mem (t_id t) (t_toollabels other) then [t_id t]
      else if existsb (fun r => match lookup_prov r (t_provides t) with Some _ => true | None => false end)
                      (t_requires other)
           then flat_map (fun r => match lookup_prov r (t_provides t) with Some ls => ls | None => [] end)
                         (t_requires other)
           else [t_id t]
  end.

(* ---- changes.go: file -> owning package -> targets ---- *)
(* for dir := filename; dir != "." && dir != "/"; { dir = filepath.Dir(dir); ... if Package(pkgName, "") != nil {...; break} } *)
Fixpoint owner_loop (fuel : nat) (pkgs : list str) (dir : str) : option str :=
  match fuel with
  | O => None
  | S k =>
      if str_eqb dir (s ".") || str_eqb dir (s "/") then None
      else let d := path_dir dir in
           let name := if str_eqb d (s ".") then [] else d in
           if existsb (str_eqb name) pkgs then Some name else owner_loop k pkgs d
  end.
Definition owner (g : graph) (file : str) : option str := owner_loop (S (S (length file))) (g_pkgs g) file.

(* pkg.AllTargets() of the host package [name] *)
Definition pkg_targets (g : graph) (name : str) : list target :=
  filter (fun t => negb (t_sub t) && str_eqb (t_pkg t) name) (g_targets g).

Definition file_step (g : graph) (changed : list label) (file : str) : list label :=
  match owner g file with
  | None => changed
  | Some p => fold_left (fun ch t => if has_abs_source t file then add (t_id t) ch else ch) (pkg_targets g p) changed
  end.
Definition changed_by_files (g : graph) (files : list str) (changed : list label) : list label :=
  fold_left (file_step g) files changed.

(* ---- reverse_deps.go ---- *)
(* the keys of the revdeps map under which buildRevdeps appends t, in order *)
Definition edges_of (g : graph) (incsub : bool) (t : target) : list label :=
  flat_map (fun d => match find g d with None => [] | Some t2 => provide_for t2 t end) (t_deps t)
  ++ (if incsub && t_sub t then match t_subtarget t with Some l => [l] | None => [] end else []).

(* r.revdeps[l] *)
Definition revdeps_of (g : graph) (incsub : bool) (l : label) : list label :=
  flat_map (fun t => map (fun _ => t_id t) (filter (N.eqb l) (edges_of g incsub t))) (g_targets g).

Record bfs_state := mkS { q : list (label * Z); done : list label; ret : list label }.

(* openSet.Push *)
Definition push (l : label) (d : Z) (st : bfs_state) : bfs_state :=
  if mem l (done st) then st else mkS (q st ++ [(l, d)]) (l :: done st) (ret st).

(* body of `for _, t := range ts` with r.hidden = true: depth = next.depth + 1, always counted *)
Definition visit (maxd d : Z) (st : bfs_state) (t : label) : bfs_state :=
  if (d <? maxd)%Z || (maxd =? -1)%Z
  then push t (d + 1)%Z (mkS (q st) (done st) (add t (ret st)))
  else st.

Fixpoint bfs (fuel : nat) (g : graph) (incsub : bool) (maxd : Z) (st : bfs_state) : option (list label) :=
  match fuel with
  | O => None
  | S k => match q st with
           | [] => Some (ret st)
           | (l, d) :: rest =>
               bfs k g incsub maxd (fold_left (visit maxd d) (revdeps_of g incsub l) (mkS rest (done st) (ret st)))
           end
  end.

Definition init_state (labels : list label) : bfs_state :=
  fold_left (fun st l => push l 0%Z st) labels (mkS [] [] []).

(* FindRevdeps(state, labels, hidden=true, followSubincludes=false, includeSubrepos, depth) *)
Definition find_revdeps (g : graph) (incsub : bool) (maxd : Z) (labels : list label) : option (list label) :=
  bfs (S (length (g_targets g) + length labels)) g incsub maxd (init_state labels).

(* ---- changedTargets ---- *)
Definition shown (g : graph) (incsub : bool) (l : label) : bool :=
  match find g l with
  | Some t => t_include t && (incsub || negb (t_sub t))
  | None => false
  end.

Definition changed_targets (g : graph) (files : list str) (changed : list label) (level : Z) (incsub : bool)
  : option (list label) :=
  let ch := changed_by_files g files changed in
  let labels :=
    if (level =? 0)%Z then Some ch
    else match find_revdeps g incsub level ch with
         | None => None
         | Some r => Some (ch ++ filter (fun l => negb (mem l ch)) r)
         end in
  option_map (filter (shown g incsub)) labels.

Definition changes (g : graph) (files : list str) (level : Z) (incsub : bool) : option (list label) :=
  changed_targets g files [] level incsub.

(* ---- diffGraphs ---- *)
Definition target_changed (b a : target) : bool :=
  negb (N.eqb (t_defkey b) (t_defkey a)) || negb (N.eqb (t_srckey b) (t_srckey a)).

Definition diff_one (cfg_changed : bool) (before : graph) (a : target) : bool :=
  match find before (t_id a) with
  | None => true
  | Some b => target_changed b a || cfg_changed
  end.

Definition diff_graphs (cfg_changed : bool) (before after : graph) : list label :=
  map t_id (filter (diff_one cfg_changed before) (g_targets after)).

Definition diff_changes (cfg_changed : bool) (before after : graph) (files : list str) (level : Z) (incsub : bool)
  : option (list label) :=
  changed_targets after files (diff_graphs cfg_changed before after) level incsub.

(* ---- correspondence cases ---- *)
Inductive case :=
| CChanges (g : graph) (files : list str) (level : Z) (incsub : bool) (observed : list label)
| CDiff (cfg_changed : bool) (before after : graph) (files : list str) (level : Z) (incsub : bool)
        (observed : list label)
| CDir (path : str) (observed : str).     (* filepath.Dir on the class of paths the model covers *)

Definition same_set (a b : list label) : bool :=
  Nat.eqb (length a) (length b) && forallb (fun x => mem x b) a && forallb (fun x => mem x a) b.

Definition check (c : case) : bool :=
  match c with
  | CChanges g files level incsub obs =>
      match changes g files level incsub with Some r => same_set r obs | None => false end
  | CDiff cfg before after files level incsub obs =>
      match diff_changes cfg before after files level incsub with Some r => same_set r obs | None => false end
  | CDir p obs => str_eqb (path_dir p) obs
  end.
