(* C24 - change detection never misses an affected target.
   Executable model of src/query/changes.go (Changes, DiffGraphs, diffGraphs, changedTargets),
   of FindRevdeps / findRevdeps / buildRevdeps (src/query/reverse_deps.go) with the flags that
   changedTargets passes (hidden = true, followSubincludes = false), and of HasSource /
   HasAbsoluteSource / ProvideFor (src/core/build_target.go).  No proofs here. *)
From PlzV Require Import Base.Harness.

Definition label := N.

(* What the anchored code reads of a core.BuildTarget.  (Tools are never in-repository files: the BUILD
   parser turns a relative non-label tool into a lookup on PATH, so AllSources() ++ AllData() are all the
   repository files a target consumes.) *)
Record target := mkT {
  t_id : label;                        (* Label *)
  t_pkg : str;                         (* Label.PackageName *)
  t_sub : bool;                        (* Subrepo != nil (the label lives in a subrepo) *)
  t_subtarget : option label;          (* Subrepo.Target.Label when the subrepo has a target *)
  t_inputs : list str;                 (* String() of AllSources() ++ AllData(), in that order *)
  t_deps : list label;                 (* DeclaredDependencies() *)
  t_requires : list N;                 (* Requires *)
  t_provides : list (N * list label);  (* Provides *)
  t_datalabels : list label;           (* labels among AllData()   (isDataFor) *)
  t_toollabels : list label;           (* labels among the tools   (IsTool) *)
  t_include : bool;                    (* state.ShouldInclude(t) *)
  t_defkey : N;                        (* build.RuleHash(state, t, runtime=true, false), abstract *)
  t_srckey : N                         (* sourceHash of changes.go: paths of the out-of-repo tools *)
}.

(* g_targets: Graph.AllTargets(); g_pkgs: names of the host-repository packages of the graph;
   g_subincludes: (host package, label it subincludes) - not read by changedTargets. *)
Record graph := mkG {
  g_targets : list target;
  g_pkgs : list str;
  g_subincludes : list (str * label)
}.

Definition mem (l : label) (ls : list label) : bool := existsb (N.eqb l) ls.
Definition add (l : label) (ls : list label) : list label := if mem l ls then ls else ls ++ [l].
Definition find (g : graph) (l : label) : option target :=
  List.find (fun t => N.eqb (t_id t) l) (g_targets g).

(* ---- strings ---- *)
Definition slash : N := 47%N.

Fixpoint strip_prefix (p x : str) : option str :=
  match p with
  | [] => Some x
  | c :: p' => match x with
               | [] => None
               | d :: x' => if N.eqb c d then strip_prefix p' x' else None
               end
  end.
Definition has_prefix (p x : str) : bool := match strip_prefix p x with Some _ => true | None => false end.
(* strings.TrimPrefix *)
Definition trim_prefix (p x : str) : str := match strip_prefix p x with Some r => r | None => x end.

(* the part before the last '/', None when there is no '/' *)
Fixpoint before_last_slash (x : str) : option str :=
  match x with
  | [] => None
  | c :: r => match before_last_slash r with
              | Some p => Some (c :: p)
              | None => if N.eqb c slash then Some [] else None
              end
  end.
Fixpoint strip_trailing_slashes_rev (r : str) : str :=
  match r with
  | c :: r' => if N.eqb c slash then strip_trailing_slashes_rev r' else r
  | [] => []
  end.
Definition strip_trailing_slashes (x : str) : str := rev (strip_trailing_slashes_rev (rev x)).

(* filepath.Dir on paths without ".", ".." and empty interior segments (Clean then only removes the
   trailing separators): "a/b/c" -> "a/b", "a" -> ".", "/a" -> "/", "" -> ".". *)
Definition path_dir (x : str) : str :=
  match before_last_slash x with
  | None => s "."
  | Some p => match strip_trailing_slashes p with
              | [] => s "/"
              | d => d
              end
  end.

(* ---- build_target.go ---- *)
(* for _, src := range append(AllSources(), AllData()...) { if s == source || HasPrefix(source, s+"/") } *)
Definition has_source (t : target) (source : str) : bool :=
  existsb (fun i => str_eqb i source || has_prefix (i ++ [slash]) source) (t_inputs t).
(* HasSource(strings.TrimPrefix(source, target.Label.PackageName+"/")) *)
Definition has_abs_source (t : target) (source : str) : bool :=
  has_source t (trim_prefix (t_pkg t ++ [slash]) source).

Fixpoint lookup_prov (k : N) (m : list (N * list label)) : option (list label) :=
  match m with
  | [] => None
  | (k', v) :: r => if N.eqb k k' then Some v else lookup_prov k r
  end.

(* ProvideFor: what a dependency of [other] on [t] resolves to *)
Definition provide_for (t other : target) : list label :=
  match t_provides t, t_requires other with
  | [], _ | _, [] => [t_id t]
  | _, _ =>
      if mem (t_id t) (t_datalabels other) then [t_id t]
      else if mem (t_id t) (t_toollabels other) then [t_id t]
      else if existsb (fun r => match lookup_prov r (t_provides t) with Some _ => true | None => false end)
                      (t_requires other)
           then flat_map (fun r => match lookup_prov r (t_provides t) with Some ls => ls | None => [] end)
                         (t_requires other)
           else [t_id t]
  end.

(* ---- changes.go: file -> owning package -> targets ---- *)
(* for dir := filename; dir != "." && dir != "/"; { dir = filepath.Dir(dir); ... if Package(pkgName, "") != nil {...; break} } *)
Fixpoint owner_loop (fuel : nat) (pkgs : list str) (dir : str) : option str :=
  match fuel with
  | O => None
  | S k =>
      if str_eqb dir (s ".") || str_eqb dir (s "/") then None
      else let d := path_dir dir in
           let name := if str_eqb d (s ".") then [] else d in
           if existsb (str_eqb name) pkgs then Some name else owner_loop k pkgs d
  end.
Definition owner (g : graph) (file : str) : option str := owner_loop (S (S (length file))) (g_pkgs g) file.

(* pkg.AllTargets() of the host package [name] *)
Definition pkg_targets (g : graph) (name : str) : list target :=
  filter (fun t => negb (t_sub t) && str_eqb (t_pkg t) name) (g_targets g).

Definition file_step (g : graph) (changed : list label) (file : str) : list label :=
  match owner g file with
  | None => changed
  | Some p => fold_left (fun ch t => if has_abs_source t file then add (t_id t) ch else ch) (pkg_targets g p) changed
  end.
Definition changed_by_files (g : graph) (files : list str) (changed : list label) : list label :=
  fold_left (file_step g) files changed.

(* ---- reverse_deps.go ---- *)
(* the keys of the revdeps map under which buildRevdeps appends t, in order *)
Definition edges_of (g : graph) (incsub : bool) (t : target) : list label :=
  flat_map (fun d => match find g d with None => [] | Some t2 => provide_for t2 t end) (t_deps t)
  ++ (if incsub && t_sub t then match t_subtarget t with Some l => [l] | None => [] end else []).

(* r.revdeps[l] *)
Definition revdeps_of (g : graph) (incsub : bool) (l : label) : list label :=
  flat_map (fun t => map (fun _ => t_id t) (filter (N.eqb l) (edges_of g incsub t))) (g_targets g).

Record bfs_state := mkS { q : list (label * Z); done : list label; ret : list label }.

(* openSet.Push *)
Definition push (l : label) (d : Z) (st : bfs_state) : bfs_state :=
  if mem l (done st) then st else mkS (q st ++ [(l, d)]) (l :: done st) (ret st).

(* body of `for _, t := range ts` with r.hidden = true: depth = next.depth + 1, always counted *)
Definition visit (maxd d : Z) (st : bfs_state) (t : label) : bfs_state :=
  if (d <? maxd)%Z || (maxd =? -1)%Z
  then push t (d + 1)%Z (mkS (q st) (done st) (add t (ret st)))
  else st.

Fixpoint bfs (fuel : nat) (g : graph) (incsub : bool) (maxd : Z) (st : bfs_state) : option (list label) :=
  match fuel with
  | O => None
  | S k => match q st with
           | [] => Some (ret st)
           | (l, d) :: rest =>
               bfs k g incsub maxd (fold_left (visit maxd d) (revdeps_of g incsub l) (mkS rest (done st) (ret st)))
           end
  end.

Definition init_state (labels : list label) : bfs_state :=
  fold_left (fun st l => push l 0%Z st) labels (mkS [] [] []).

(* FindRevdeps(state, labels, hidden=true, followSubincludes=false, includeSubrepos, depth) *)
Definition find_revdeps (g : graph) (incsub : bool) (maxd : Z) (labels : list label) : option (list label) :=
  bfs (S (length (g_targets g) + length labels)) g incsub maxd (init_state labels).

(* ---- changedTargets ---- *)
Definition shown (g : graph) (incsub : bool) (l : label) : bool :=
  match find g l with
  | Some t => t_include t && (incsub || negb (t_sub t))
  | None => false
  end.

Definition changed_targets (g : graph) (files : list str) (changed : list label) (level : Z) (incsub : bool)
  : option (list label) :=
  let ch := changed_by_files g files changed in
  let labels :=
    if (level =? 0)%Z then Some ch
    else match find_revdeps g incsub level ch with
         | None => None
         | Some r => Some (ch ++ filter (fun l => negb (mem l ch)) r)
         end in
  option_map (filter (shown g incsub)) labels.

Definition changes (g : graph) (files : list str) (level : Z) (incsub : bool) : option (list label) :=
  changed_targets g files [] level incsub.

(* ---- diffGraphs ---- *)
Definition target_changed (b a : target) : bool :=
  negb (N.eqb (t_defkey b) (t_defkey a)) || negb (N.eqb (t_srckey b) (t_srckey a)).

Definition diff_one (cfg_changed : bool) (before : graph) (a : target) : bool :=
  match find before (t_id a) with
  | None => true
  | Some b => target_changed b a || cfg_changed
  end.

Definition diff_graphs (cfg_changed : bool) (before after : graph) : list label :=
  map t_id (filter (diff_one cfg_changed before) (g_targets after)).

Definition diff_changes (cfg_changed : bool) (before after : graph) (files : list str) (level : Z) (incsub : bool)
  : option (list label) :=
  changed_targets after files (diff_graphs cfg_changed before after) level incsub.

(* ---- `plz query changes --since REV` in exact mode: src/please.go "query.changes", src/scm/git.go ---- *)
(* What a revision is to the query: the hash of its .plzconfig (Configuration.Hash -> state.Hashes.Config)
   and the build graph its BUILD files parse to. *)
Record snapshot := mkSnap { sn_cfg : N; sn_graph : graph }.

(* A git repository with a linear history (commit i+1 is the child of commit i) and a clean work tree that is
   checked out at the HEAD commit.  HEAD is symbolic (on a branch) or detached (at a commit). *)
Inductive head := OnBranch (b : str) | Detached (c : nat).
Record repo := mkRepo { commits : list snapshot; branches : list (str * nat); hd : head }.

(* what a revision argument - or the trimmed output of a git plumbing command, used as one - denotes *)
Inductive gitref := RHead | RHeadMinus (k : nat) | RBranch (b : str) | RCommit (c : nat).

Fixpoint lookup_branch (b : str) (bs : list (str * nat)) : option nat :=
  match bs with
  | [] => None
  | (b', c) :: r => if str_eqb b b' then Some c else lookup_branch b r
  end.
Fixpoint set_branch (b : str) (c : nat) (bs : list (str * nat)) : list (str * nat) :=
  match bs with
  | [] => [(b, c)]
  | (b', c') :: r => if str_eqb b b' then (b', c) :: r else (b', c') :: set_branch b c r
  end.

Definition head_commit (r : repo) : option nat :=
  match hd r with OnBranch b => lookup_branch b (branches r) | Detached c => Some c end.
Definition valid_commit (r : repo) (c : nat) : option nat :=
  if Nat.ltb c (length (commits r)) then Some c else None.
Definition resolve (r : repo) (x : gitref) : option nat :=
  match match x with
        | RHead => head_commit r
        | RHeadMinus k => match head_commit r with
                          | Some c => if Nat.leb k c then Some (c - k)%nat else None
                          | None => None
                          end
        | RBranch b => lookup_branch b (branches r)
        | RCommit c => Some c
        end with
  | Some c => valid_commit r c
  | None => None
  end.

(* `git checkout <x>`: a branch name makes HEAD symbolic, the literal HEAD changes nothing, anything else detaches;
   None = git fails (scm.Checkout returns an error, query.changes dies in log.Fatalf) *)
Definition checkout (r : repo) (x : gitref) : option repo :=
  match resolve r x with
  | None => None
  | Some c => Some (mkRepo (commits r) (branches r)
                           (match x with RBranch b => OnBranch b | RHead => hd r | _ => Detached c end))
  end.

(* the work tree: what .plzconfig hashes to and what the BUILD files parse to right now *)
Definition work_tree (r : repo) : option snapshot :=
  match head_commit r with Some c => nth_error (commits r) c | None => None end.

(* the git commands CurrentRevIdentifier may run; None = non-zero exit status *)
Inductive gitcmd :=
| GSymbolicRefShort      (* git symbolic-ref -q --short HEAD : the branch, fails on a detached HEAD *)
| GRevParseHead          (* git rev-parse HEAD               : the commit *)
| GRevParseAbbrevRef.    (* git rev-parse --abbrev-ref HEAD  : the branch, the literal "HEAD" when detached *)
Definition git_out (c : gitcmd) (r : repo) : option gitref :=
  match c, hd r with
  | GSymbolicRefShort, OnBranch b => Some (RBranch b)
  | GSymbolicRefShort, Detached _ => None
  | GRevParseHead, _ => match resolve r RHead with Some c => Some (RCommit c) | None => None end
  | GRevParseAbbrevRef, OnBranch b => Some (RBranch b)
  | GRevParseAbbrevRef, Detached _ => Some RHead
  end.

(* git.CurrentRevIdentifier(permanent): the first command unless permanent, else / on failure the second *)
Definition cur_rev_identifier (first fallback : gitcmd) (permanent : bool) (r : repo) : option gitref :=
  match (if permanent then None else git_out first r) with
  | Some x => Some x
  | None => git_out fallback r
  end.

(* the statements of the exact-mode tail of "query.changes", in a closed step language *)
Inductive step :=
| SOriginal (permanent : bool)   (* original := scm.CurrentRevIdentifier(permanent) *)
| SChangedFiles                  (* files := scm.ChangedFiles(since, true, "") *)
| SCheckoutSince                 (* scm.Checkout(opts.Query.Changes.Since), Fatalf on error *)
| SCheckoutOriginal              (* scm.Checkout(original), Fatalf on error *)
| SReadConfig                    (* readConfig(): config = the work tree's .plzconfig *)
| SParseBefore                   (* _, before := runBuild(WholeGraph, ...): a BuildState from `config` and the work tree *)
| SParseAfter                    (* success, after := runBuild(WholeGraph, ...) *)
| SDiff.                         (* print query.DiffGraphs(before, after, files, level, includeSubrepos) *)

Record fstate := mkF {
  f_repo : repo;
  f_cfg : N;                         (* the hash of the package-level `config` *)
  f_original : option gitref;
  f_files : option (list str);
  f_before : option snapshot;        (* before.Hashes.Config, before.Graph *)
  f_after : option snapshot;
  f_out : option (list label)
}.

(* changed: what git reports for since...HEAD (given, scm.ChangedFiles is not modelled) *)
Definition exec_step (first fallback : gitcmd) (since : gitref) (changed : list str) (level : Z) (incsub : bool)
           (st : fstate) (x : step) : option fstate :=
  let '(mkF r cfg orig files before after out) := st in
  match x with
  | SOriginal p => match cur_rev_identifier first fallback p r with
                   | Some o => Some (mkF r cfg (Some o) files before after out)
                   | None => None
                   end
  | SChangedFiles => Some (mkF r cfg orig (Some changed) before after out)
  | SCheckoutSince => match checkout r since with
                      | Some r' => Some (mkF r' cfg orig files before after out)
                      | None => None
                      end
  | SCheckoutOriginal => match orig with
                         | Some o => match checkout r o with
                                     | Some r' => Some (mkF r' cfg orig files before after out)
                                     | None => None
                                     end
                         | None => None
                         end
  | SReadConfig => match work_tree r with
                   | Some w => Some (mkF r (sn_cfg w) orig files before after out)
                   | None => None
                   end
  | SParseBefore => match work_tree r with
                    | Some w => Some (mkF r cfg orig files (Some (mkSnap cfg (sn_graph w))) after out)
                    | None => None
                    end
  | SParseAfter => match work_tree r with
                   | Some w => Some (mkF r cfg orig files before (Some (mkSnap cfg (sn_graph w))) out)
                   | None => None
                   end
  | SDiff => match before, after, files with
             | Some b, Some a, Some fs =>
                 match diff_changes (negb (N.eqb (sn_cfg b) (sn_cfg a))) (sn_graph b) (sn_graph a) fs level incsub with
                 | Some rep => Some (mkF r cfg orig files before after (Some rep))
                 | None => None
                 end
             | _, _, _ => None
             end
  end.

Fixpoint run_steps (first fallback : gitcmd) (since : gitref) (changed : list str) (level : Z) (incsub : bool)
         (prog : list step) (st : fstate) : option fstate :=
  match prog with
  | [] => Some st
  | x :: rest => match exec_step first fallback since changed level incsub st x with
                 | Some st' => run_steps first fallback since changed level incsub rest st'
                 | None => None
                 end
  end.

(* one invocation: the configuration is read at start-up from the work tree; the answer is what was printed and
   the repository the process leaves behind *)
Definition since_query (first fallback : gitcmd) (prog : list step) (r : repo) (since : gitref) (changed : list str)
           (level : Z) (incsub : bool) : option (list label * repo) :=
  match work_tree r with
  | None => None
  | Some w =>
      match run_steps first fallback since changed level incsub prog (mkF r (sn_cfg w) None None None None None) with
      | Some st => match f_out st with Some rep => Some (rep, f_repo st) | None => None end
      | None => None
      end
  end.

(* the program and the commands the model was written for (tied to the source by Proof/C24_Gen.v) *)
Definition since_flow : list step :=
  [SOriginal false; SChangedFiles; SCheckoutSince; SReadConfig; SParseBefore;
   SCheckoutOriginal; SReadConfig; SParseAfter; SDiff].
Definition cri_first : gitcmd := GSymbolicRefShort.
Definition cri_fallback : gitcmd := GRevParseHead.

(* how a repository comes about: histories of git operations *)
Inductive gitop :=
| OpCommit (sn : snapshot)     (* git commit on top of HEAD (HEAD at the newest commit: the history stays linear) *)
| OpNewBranch (b : str)        (* git checkout -b b *)
| OpBranchAt (b : str) (x : gitref)   (* git branch b x *)
| OpCheckout (x : gitref).     (* git checkout x / git checkout --detach x for a commit *)

Definition apply_op (r : repo) (o : gitop) : repo :=
  match o with
  | OpCommit sn =>
      match head_commit r with
      | Some c => if Nat.eqb (S c) (length (commits r))
                  then let n := length (commits r) in
                       match hd r with
                       | OnBranch b => mkRepo (commits r ++ [sn]) (set_branch b n (branches r)) (hd r)
                       | Detached _ => mkRepo (commits r ++ [sn]) (branches r) (Detached n)
                       end
                  else r
      | None => r
      end
  | OpNewBranch b =>
      match lookup_branch b (branches r), resolve r RHead with
      | None, Some c => mkRepo (commits r) (set_branch b c (branches r)) (OnBranch b)
      | _, _ => r
      end
  | OpBranchAt b x =>
      match lookup_branch b (branches r), resolve r x with
      | None, Some c => mkRepo (commits r) (set_branch b c (branches r)) (hd r)
      | _, _ => r
      end
  | OpCheckout x => match checkout r x with Some r' => r' | None => r end
  end.

(* git init + first commit on branch b0, then the operations *)
Definition repo_of (b0 : str) (s0 : snapshot) (ops : list gitop) : repo :=
  fold_left apply_op ops (mkRepo [s0] [(b0, 0%nat)] (OnBranch b0)).

Definition head_eqb (a b : head) : bool :=
  match a, b with
  | OnBranch x, OnBranch y => str_eqb x y
  | Detached x, Detached y => Nat.eqb x y
  | _, _ => false
  end.

(* ---- correspondence cases ---- *)
Inductive case :=
| CChanges (g : graph) (files : list str) (level : Z) (incsub : bool) (observed : list label)
| CDiff (cfg_changed : bool) (before after : graph) (files : list str) (level : Z) (incsub : bool)
        (observed : list label)
| CDir (path : str) (observed : str)      (* filepath.Dir on the class of paths the model covers *)
(* the real binary on a real git repository built by [ops]: `plz query changes --since <since> --level N`;
   observed: what was printed, where HEAD was before the run and where the run left it *)
| CSince (b0 : str) (s0 : snapshot) (ops : list gitop) (since : gitref) (changed : list str) (level : Z)
         (incsub : bool) (head_before : head) (observed : list label) (head_after : head).

Definition same_set (a b : list label) : bool :=
  Nat.eqb (length a) (length b) && forallb (fun x => mem x b) a && forallb (fun x => mem x a) b.

Definition check (c : case) : bool :=
  match c with
  | CChanges g files level incsub obs =>
      match changes g files level incsub with Some r => same_set r obs | None => false end
  | CDiff cfg before after files level incsub obs =>
      match diff_changes cfg before after files level incsub with Some r => same_set r obs | None => false end
  | CDir p obs => str_eqb (path_dir p) obs
  | CSince b0 s0 ops since changed level incsub hb obs ha =>
      let r := repo_of b0 s0 ops in
      head_eqb (hd r) hb &&
      match since_query cri_first cri_fallback since_flow r since changed level incsub with
      | Some (rep, r') => same_set rep obs && head_eqb (hd r') ha
      | None => false
      end
  end.
