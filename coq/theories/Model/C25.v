(* C25 - `plz gc` never removes anything still needed.
   Executable model of src/gc/gc.go: targetsToRemove, addTarget, publicDependencies, gcSibling,
   isIncluded, anyInclude, and of the core helpers they call (BuildLabel.Includes/Parent/HasParent/Less,
   BuildTarget.HasLabel/HasAnyLabel/PrefixedLabels, Package.IsIncludedIn).  In code order.  No proofs here.
   The boolean conditions of targetsToRemove and the same-rule condition of publicDependencies are NOT
   written by hand: they are regenerated from gc.go by gotrans into Gen/GcConds.v.
   The packages targetsToRemove ranges over are the copy BuildGraph.PackageMap() makes of the graph's package
   store: AddPackage / PackageMap are modelled below (add_packages, package_map, gc_view), with the two keys
   and packageKey.String() regenerated from graph.go / build_label.go into Gen/GcPkgMap.v. *)
From PlzV Require Import Base.Harness Gen.GcConds Gen.GcPkgMap.

(* ---- labels -------------------------------------------------------------------------------- *)
Record label := L { l_sub : str; l_pkg : str; l_name : str }.   (* BuildLabel{Subrepo, PackageName, Name} *)

Definition label_eqb (a b : label) : bool :=
  str_eqb (l_sub a) (l_sub b) && str_eqb (l_pkg a) (l_pkg b) && str_eqb (l_name a) (l_name b).

(* strings.HasPrefix *)
Fixpoint has_prefix (p x : str) : bool :=
  match p, x with
  | [], _ => true
  | a :: p', b :: x' => N.eqb a b && has_prefix p' x'
  | _ :: _, [] => false
  end.

Definition c_hash : N := 35.   (* '#' *)
Definition c_us : N := 95.     (* '_' *)
Definition c_star : N := 42.   (* '*' *)
Definition c_slash : N := 47.  (* '/' *)

(* name[:strings.IndexRune(name, c)], None when c does not occur *)
Fixpoint take_until (c : N) (x : str) : option str :=
  match x with
  | [] => None
  | b :: r => if N.eqb b c then Some [] else option_map (cons b) (take_until c r)
  end.

(* strings.TrimLeft(x, "_") *)
Fixpoint trim_left (c : N) (x : str) : str :=
  match x with
  | b :: r => if N.eqb b c then trim_left c r else x
  | [] => []
  end.

(* BuildLabel.Parent *)
Definition parent (l : label) : label :=
  match take_until c_hash (l_name l) with
  | None => l
  | Some pre =>
      match l_name l with
      | b :: _ => if N.eqb b c_us then L (l_sub l) (l_pkg l) (trim_left c_us pre) else l
      | [] => l
      end
  end.

(* BuildLabel.HasParent *)
Definition has_parent (l : label) : bool := negb (label_eqb (parent l) l).

Definition is_all_subpackages (l : label) : bool := str_eqb (l_name l) (s "...").
Definition is_all_targets (l : label) : bool := str_eqb (l_name l) (s "all").

(* BuildLabel.Includes (the subrepo is not looked at) *)
Definition includes (l that : label) : bool :=
  if (str_eqb (l_pkg l) [] && is_all_subpackages l)
     || str_eqb (l_pkg that) (l_pkg l)
     || has_prefix (l_pkg l ++ [c_slash]) (l_pkg that)
  then
    if is_all_subpackages l then true
    else if str_eqb (l_pkg l) (l_pkg that) then str_eqb (l_name l) (l_name that) || is_all_targets l
    else false
  else false.

(* BuildLabel.Less *)
Definition label_ltb (a b : label) : bool :=
  if negb (str_eqb (l_sub a) (l_sub b)) then str_ltb (l_sub a) (l_sub b)
  else if negb (str_eqb (l_pkg a) (l_pkg b)) then str_ltb (l_pkg a) (l_pkg b)
  else str_ltb (l_name a) (l_name b).

(* anyInclude *)
Definition any_include (ls : list label) (l : label) : bool := existsb (fun f => includes f l) ls.

(* isIncluded: an empty filter has no effect *)
Definition is_included (l : label) (filter : list label) : bool :=
  match filter with
  | [] => true
  | _ => existsb (fun f => includes f l) filter
  end.

(* ---- targets, packages, graph ---------------------------------------------------------------- *)
Record target := T {
  t_label : label;
  t_binary : bool;                    (* IsBinary *)
  t_test : bool;                      (* IsTest(), i.e. Test != nil *)
  t_test_only : bool;                 (* TestOnly *)
  t_labels : list str;                (* Labels *)
  t_declared : list label;            (* DeclaredDependencies() *)
  t_resolved : list label;            (* labels of Dependencies() *)
  t_subrepo_target : option label;    (* Subrepo.Target when Subrepo != nil and it is non-nil *)
  t_srcs : list str;                  (* AllLocalSourcePaths() *)
  t_data : list str                   (* local files of AllData(); gc.go never looks at them - only the spec does *)
}.

Record pkg := P {
  p_sub : str; p_name : str;
  p_subincludes : list label;         (* Package.Subincludes *)
  p_targets : list label              (* Package.AllTargets(), in the order the Go map iteration gave *)
}.

Record graph := G {
  g_targets : list target;            (* graph.AllTargets() *)
  g_pkgs : list pkg                   (* graph.PackageMap(), in the order the Go map iteration gave *)
}.

Record args := A {
  a_filter : list label;              (* filter: the command line of `plz gc` *)
  a_targets : list label;             (* targets: ExpandLabels(gc.keep) *)
  a_keep : list label;                (* targetsToKeep: gc.keep *)
  a_keep_labels : list str;           (* gc.keeplabel *)
  a_include_tests : bool              (* --conservative *)
}.

(* graph.Target(label): nil = None *)
Definition find_target (g : graph) (l : label) : option target :=
  find (fun t => label_eqb (t_label t) l) (g_targets g).

(* match (build_target.go) *)
Definition match_label (pattern x : str) : bool :=
  str_eqb pattern x
  || (match rev pattern with b :: _ => N.eqb b c_star | [] => false end && has_prefix (removelast pattern) x).

(* BuildTarget.HasLabel: tests implicitly carry "test" *)
Definition has_label (t : target) (l : str) : bool :=
  existsb (match_label l) (t_labels t) || (t_test t && match_label l (s "test")).

Definition has_any_label (t : target) (ls : list str) : bool := existsb (has_label t) ls.

(* BuildTarget.PrefixedLabels *)
Definition prefixed_labels (prefix : str) (t : target) : list str :=
  flat_map (fun l => if has_prefix prefix l then [skipn (length prefix) l] else []) (t_labels t).

(* Package.IsIncludedIn (the subrepo is not looked at) *)
Definition pkg_included_in (p : pkg) (l : label) : bool :=
  str_eqb (p_name p) (l_pkg l) || has_prefix (l_pkg l ++ [c_slash]) (p_name p).

(* ---- addTarget ------------------------------------------------------------------------------- *)
Definition kset := list label.   (* targetMap: the set of kept targets *)
Definition kmem (l : label) (m : kset) : bool := existsb (label_eqb l) m.

Definition opt_list {X} (o : option X) : list X := match o with Some x => [x] | None => [] end.

(* the labels addTarget recurses into, in code order *)
Definition dep_labels (t : target) : list label :=
  t_declared t ++ t_resolved t ++ opt_list (t_subrepo_target t).

(* addTarget(graph, m, graph.Target(l)).  None = the recursion depth exceeded the fuel (never with
   fuel > number of targets: every frame on the stack has marked a different target). *)
Fixpoint add_target (fuel : nat) (g : graph) (m : option kset) (l : label) : option kset :=
  match m with
  | None => None
  | Some m =>
      match find_target g l with
      | None => Some m                                  (* target == nil *)
      | Some t =>
          if kmem l m then Some m                       (* m[target] *)
          else match fuel with
               | O => None
               | S f => fold_left (add_target f g) (dep_labels t) (Some (l :: m))
               end
      end
  end.

(* ---- publicDependencies ---------------------------------------------------------------------- *)
(* the condition at gc.go:204, regenerated from the source (Gen/GcConds.v) and instantiated with the
   model's BuildLabel == and BuildLabel.Parent: dep is a hidden sub-target of the rule target belongs to *)
Definition same_rule (dep target : label) : bool := GcConds.same_rule_cond label_eqb parent dep target.

(* one iteration of `for _, dep := range target.DeclaredDependencies()`; rec = the recursive call *)
Definition pd_step (g : graph) (t : target) (rec : target -> option (list target))
                   (acc : option (list target)) (d : label) : option (list target) :=
  match acc with
  | None => None
  | Some acc =>
      match find_target g d with
      | None => Some acc                                           (* depTarget == nil *)
      | Some dt =>
          if same_rule (t_label dt) (t_label t)
          then match rec dt with None => None | Some r => Some (acc ++ r) end
          else Some (acc ++ [dt])
      end
  end.

(* target.Subrepo.Target, appended last *)
Definition subrepo_dep (g : graph) (t : target) : list target :=
  match t_subrepo_target t with
  | Some l => opt_list (find_target g l)
  | None => []
  end.

(* None = recursion deeper than the fuel (a cycle among the hidden sub-targets of one rule) *)
Fixpoint public_deps (fuel : nat) (g : graph) (t : target) : option (list target) :=
  match fuel with
  | O => None
  | S f =>
      match fold_left (pd_step g t (public_deps f g)) (t_declared t) (Some []) with
      | None => None
      | Some r => Some (r ++ subrepo_dep g t)
      end
  end.

(* ---- gcSibling -------------------------------------------------------------------------------- *)
Fixpoint first_sibling (g : graph) (t : target) (ls : list str) : target :=
  match ls with
  | [] => t
  | l :: r =>
      match find_target g (L [] (l_pkg (t_label t)) l) with    (* core.NewBuildLabel(pkg, l): no subrepo *)
      | Some t2 => t2
      | None => first_sibling g t r
      end
  end.
Definition gc_sibling (g : graph) (t : target) : target :=
  first_sibling g t (prefixed_labels (s "gc_sibling:") t).

(* ---- targetsToRemove --------------------------------------------------------------------------- *)
Definition fuel_of (g : graph) : nat := S (length (g_targets g)).

(* line 76 *)
Definition is_root (a : args) (t : target) : bool :=
  GcConds.root_cond (t_binary t) (t_test t) (a_include_tests a) (has_any_label t (a_keep_labels a))
                    (any_include (a_keep a) (t_label t)) (negb (str_eqb (l_sub (t_label t)) [])).

Definition phase_roots (g : graph) (a : args) (m : option kset) : option kset :=
  fold_left (fun m t => if is_root a t then add_target (fuel_of g) g m (t_label t) else m) (g_targets g) m.

(* graph.TargetOrDie(subinclude): a missing target is log.Fatalf - no result *)
Definition phase_subincludes (g : graph) (m : option kset) : option kset :=
  fold_left (fun m p =>
    fold_left (fun m sub => match find_target g sub with
                            | None => None
                            | Some _ => add_target (fuel_of g) g m sub
                            end) (p_subincludes p) m) (g_pkgs g) m.

Definition phase_named (g : graph) (a : args) (m : option kset) : option kset :=
  fold_left (fun m l =>
    if is_all_subpackages l
    then fold_left (fun m p =>
           if pkg_included_in p l
           then fold_left (add_target (fuel_of g) g) (p_targets p) m
           else m) (g_pkgs g) m
    else add_target (fuel_of g) g m l) (a_targets a) m.

(* the single pass over the tests, lines 108-120 *)
Definition test_step (g : graph) (t : target) (m : option kset) (dep : target) : option kset :=
  match m with
  | None => None
  | Some k =>
      if GcConds.keep_test_cond (kmem (t_label dep) k) (t_test_only dep)
      then add_target (fuel_of g) g m (t_label t)
      else if GcConds.keep_testonly_cond (kmem (t_label dep) k) (t_test_only dep)
      then add_target (fuel_of g) g m (t_label dep)
      else m
  end.

Definition phase_tests (g : graph) (a : args) (m : option kset) : option kset :=
  if GcConds.tests_pass_cond (a_include_tests a) then
    fold_left (fun m t =>
      if t_test t then
        match public_deps (fuel_of g) g t with
        | None => None
        | Some ds => fold_left (test_step g t) ds m
        end
      else m) (g_targets g) m
  else m.

(* keepTargets at line 123 *)
Definition gc_keep (g : graph) (a : args) : option kset :=
  phase_tests g a (phase_named g a (phase_subincludes g (phase_roots g a (Some [])))).

Definition srcs_of (g : graph) (l : label) : list str :=
  match find_target g l with Some t => t_srcs t | None => [] end.

Definition keep_srcs (g : graph) (m : kset) : list str := flat_map (srcs_of g) m.

Definition str_mem (x : str) (l : list str) : bool := existsb (str_eqb x) l.

(* line 134 *)
Definition removable (g : graph) (a : args) (m : kset) (t : target) : bool :=
  let sib := gc_sibling g t in
  GcConds.remove_cond (has_parent (t_label sib)) (kmem (t_label sib) m) (is_included (t_label sib) (a_filter a)).

Definition removed_targets (g : graph) (a : args) (m : kset) : list label :=
  map t_label (filter (removable g a m) (g_targets g)).

Definition removed_srcs (g : graph) (a : args) (m : kset) : list str :=
  flat_map (fun t => filter (fun x => GcConds.remove_src_cond (str_mem x (keep_srcs g m))) (t_srcs t))
           (filter (removable g a m) (g_targets g)).

(* sort.Sort(ret), sort.Strings(retSrcs): insertion sort (any correct sort gives the same list) *)
Fixpoint insert_by {X} (ltb : X -> X -> bool) (x : X) (l : list X) : list X :=
  match l with
  | [] => [x]
  | y :: r => if ltb y x then y :: insert_by ltb x r else x :: l
  end.
Definition sort_by {X} (ltb : X -> X -> bool) (l : list X) : list X := fold_right (insert_by ltb) [] l.

Definition gc (g : graph) (a : args) : option (list label * list str) :=
  match gc_keep g a with
  | None => None
  | Some m => Some (sort_by label_ltb (removed_targets g a m), sort_by str_ltb (removed_srcs g a m))
  end.

(* ---- the packages of the graph: BuildGraph.AddPackage and BuildGraph.PackageMap() -------------------
   targetsToRemove never sees the graph's package store (graph.packages, a cmap keyed by the struct
   packageKey{Name, Subrepo}); it ranges over the COPY that PackageMap() builds, a Go map keyed by a
   string.  Both keys are regenerated from graph.go / build_label.go (Gen/GcPkgMap.v).  A package that the
   copy loses is a set of GC roots (its subincludes, its targets under a named //pkg/...) lost. *)
Definition store := list pkg.                    (* graph.packages, in the order the packages were added *)

Definition store_key_of (p : pkg) : str * str := GcPkgMap.store_key (p_sub p) (p_name p).
Definition key_pair_eqb (a b : str * str) : bool := str_eqb (fst a) (fst b) && str_eqb (snd a) (snd b).

(* AddPackage: graph.packages.Add(key, pkg) refuses a key that is present and AddPackage panics (None) *)
Definition add_package (st : option store) (p : pkg) : option store :=
  match st with
  | None => None
  | Some st => if existsb (fun q => key_pair_eqb (store_key_of q) (store_key_of p)) st then None
               else Some (st ++ [p])
  end.
(* a history of AddPackage calls on a new graph *)
Definition add_packages (ps : list pkg) : option store := fold_left add_package ps (Some []).

(* the key PackageMap() files a package under *)
Definition pkgmap_key_of (p : pkg) : str := GcPkgMap.pkgmap_key (p_sub p) (p_name p).

(* map[string]*Package as an association list; pm_set m k v is m[k] = v *)
Definition pmap := list (str * pkg).
Fixpoint pm_set (m : pmap) (k : str) (v : pkg) : pmap :=
  match m with
  | [] => [(k, v)]
  | (k', v') :: r => if str_eqb k' k then (k, v) :: r else (k', v') :: pm_set r k v
  end.
(* PackageMap(): vals = graph.packages.Values(), the store in whatever order the shards give *)
Definition package_map (vals : list pkg) : pmap := fold_left (fun m p => pm_set m (pkgmap_key_of p) p) vals [].
Definition pm_values (m : pmap) : list pkg := map snd m.

(* the graph as gc.go gets to see it: its packages are the values of PackageMap() *)
Definition gc_view (g : graph) : graph := G (g_targets g) (pm_values (package_map (g_pkgs g))).

(* ---- correspondence cases ---- *)
Inductive case :=
| CGc (g : graph) (a : args)
      (removed : list label) (srcs : list str)        (* what targetsToRemove returned *)
      (pubs : list (label * list label))              (* publicDependencies of some targets *)
      (sibs : list (label * label))                   (* gcSibling of some targets *)
      (pm : list (str * (str * str)))                 (* PackageMap(): key -> (subrepo, name) of the value, sorted by key *)
| CBad.                                               (* the harness sent something unreadable *)

(* In a case g_pkgs g is the STORE: every package the harness added with AddPackage (it keeps its own
   list; it does not ask PackageMap()).  The model adds them again, copies them with package_map and runs
   gc on that view; the real PackageMap() is observed on its own as well. *)
Definition pm_entry_ltb (a b : str * (str * str)) : bool := str_ltb (fst a) (fst b).
Definition pm_entry_eqb (a b : str * (str * str)) : bool :=
  str_eqb (fst a) (fst b) && key_pair_eqb (snd a) (snd b).
Definition pm_observable (m : pmap) : list (str * (str * str)) :=
  sort_by pm_entry_ltb (map (fun e => (fst e, (p_sub (snd e), p_name (snd e)))) m).

Definition check (c : case) : bool :=
  match c with
  | CGc g0 a rem srcs pubs sibs pm =>
      let g := gc_view g0 in
      match add_packages (g_pkgs g0) with Some st => Nat.eqb (length st) (length (g_pkgs g0)) | None => false end
      && list_eqb pm_entry_eqb (pm_observable (package_map (g_pkgs g0))) pm
      && match gc g a with
      | Some (r, x) => list_eqb label_eqb r rem && list_eqb str_eqb x srcs
      | None => false
      end
      && forallb (fun p => match find_target g (fst p) with
                           | Some t => match public_deps (fuel_of g) g t with
                                       | Some ds => list_eqb label_eqb (map t_label ds) (snd p)
                                       | None => false
                                       end
                           | None => false
                           end) pubs
      && forallb (fun p => match find_target g (fst p) with
                           | Some t => label_eqb (t_label (gc_sibling g t)) (snd p)
                           | None => false
                           end) sibs
  | CBad => false
  end.

(* ---- wire format -------------------------------------------------------------------------------
   A case travels as ONE string literal (a Coq term of this size takes ~0.1 s to elaborate, a string
   literal does not).  Five separator bytes that never occur in the data, from the outside in:
     ^  fields of the case        !  items of a top-level list      |  fields of a record
     ;  elements of a list field  ,  the three components of a label
   An empty list field is the empty string.
   Fields: targets ^ packages (the store) ^ args ^ removed ^ removed sources ^ publicDependencies
   observations ^ gcSibling observations ^ PackageMap() observation (key|subrepo|name items). *)
Fixpoint split_aux (c : N) (x cur : str) : list str :=
  match x with
  | [] => [rev cur]
  | b :: r => if N.eqb b c then rev cur :: split_aux c r [] else split_aux c r (b :: cur)
  end.
Definition split (c : N) (x : str) : list str := split_aux c x [].
Definition items (c : N) (x : str) : list str := match x with [] => [] | _ => split c x end.

Definition d_label (x : str) : label :=
  match split 44 x with
  | [a; b; c] => L a b c
  | _ => L (s "?") (s "?") (s "?")
  end.
Definition d_labels (x : str) : list label := map d_label (items 59 x).
Definition d_bool (x : N) : bool := N.eqb x 49.   (* '1' *)

Definition d_target (x : str) : target :=
  match split 124 x with
  | [l; [fb; ft; fo]; ls; decl; res; sub; srcs; data] =>
      T (d_label l) (d_bool fb) (d_bool ft) (d_bool fo) (items 59 ls) (d_labels decl) (d_labels res)
        (match sub with [] => None | _ => Some (d_label sub) end) (items 59 srcs) (items 59 data)
  | _ => T (L (s "?") (s "?") (s "?")) false false false [] [] [] None [] []
  end.

Definition d_pkg (x : str) : pkg :=
  match split 124 x with
  | [a; b; subs; ts] => P a b (d_labels subs) (d_labels ts)
  | _ => P (s "?") (s "?") [] []
  end.

Definition d_args (x : str) : option args :=
  match split 124 x with
  | [f; t; k; kl; [c]] => Some (A (d_labels f) (d_labels t) (d_labels k) (items 59 kl) (d_bool c))
  | _ => None
  end.

Definition d_pm_entry (x : str) : str * (str * str) :=
  match split 124 x with
  | [k; a; b] => (k, (a, b))
  | _ => (s "?", (s "?", s "?"))
  end.

Definition d_pair {X} (f : str -> X) (x : str) : label * X :=
  match split 124 x with
  | [a; b] => (d_label a, f b)
  | _ => (L (s "?") (s "?") (s "?"), f [])
  end.

Definition dec (x : String.string) : case :=
  match split 94 (s x) with
  | [ts; ps; a; rem; srcs; pubs; sibs; pm] =>
      match d_args a with
      | Some a => CGc (G (map d_target (items 33 ts)) (map d_pkg (items 33 ps))) a
                      (d_labels rem) (items 59 srcs)
                      (map (d_pair d_labels) (items 33 pubs)) (map (d_pair d_label) (items 33 sibs))
                      (map d_pm_entry (items 33 pm))
      | None => CBad
      end
  | _ => CBad
  end.
Arguments dec x%string_scope.
