(* C38 - operator chains with unary operators: what `plz fmt` does to them and how asp reads them.

   Source level (what both parsers see): a chain  [-|not] atom (op [-|not] atom)*  whose atoms are integer literals,
   other atomic values (identifiers, calls ...) or parenthesised chains.  For a unary minus the chain records whether the
   sign stands directly in front of the atom's first byte.

   Formatter (buildtools rewrite.go removeParens + print.go UnaryExpr): parentheses around a single atom are dropped
   (recursively), a unary operator is printed directly in front of its operand, binary operators are printed in
   their order without new parentheses (a tree that comes from the parser never needs one).

   asp (lexer.go nextToken case '-', grammar_parse.go parseUnconditionalExpressionInPlace, interpreter.go interpretOps):
   a minus directly followed by a digit is ONE negative Int token; any other leading minus / not becomes the operator
   Negate / Not in front of the flat operator list; the operators of the right operand (its unary operator included)
   are hoisted into the same flat list; interpretOps folds the list using Operator.Precedence(), which gotrans
   regenerates as Gen.C38Fmt.asp_precedence.  No proofs here. *)
From Coq Require Import String.
From PlzV Require Import Base.Harness Gen.C38Fmt.
Local Open Scope list_scope.

Inductive unop := Negate | Not.
Inductive binop :=
| Add | Subtract | Multiply | Divide | FloorDivide | Modulo
| LessThan | GreaterThan | LessThanOrEqual | GreaterThanOrEqual | Equal | NotEqual
| In | NotIn | And | Or | Union | Is | IsNot.

(* the names of the Go constants (grammar.go) *)
Definition unop_name (u : unop) : string := match u with Negate => "Negate" | Not => "Not" end.
Definition binop_name (o : binop) : string :=
  match o with
  | Add => "Add" | Subtract => "Subtract" | Multiply => "Multiply" | Divide => "Divide" | FloorDivide => "FloorDivide"
  | Modulo => "Modulo" | LessThan => "LessThan" | GreaterThan => "GreaterThan" | LessThanOrEqual => "LessThanOrEqual"
  | GreaterThanOrEqual => "GreaterThanOrEqual" | Equal => "Equal" | NotEqual => "NotEqual" | In => "In" | NotIn => "NotIn"
  | And => "And" | Or => "Or" | Union => "Union" | Is => "Is" | IsNot => "IsNot"
  end.

(* Operator.Precedence(): `switch o { case ...: return n ... default: return d }` *)
Fixpoint lookup_prec (name : string) (t : list (string * Z)) : Z :=
  match t with
  | [] => asp_precedence_default
  | (n, p) :: r => if String.eqb n name then p else lookup_prec name r
  end.
Definition prec_name (name : string) : Z := lookup_prec name asp_precedence.

(* ---- source chains -------------------------------------------------------------------------------- *)
Inductive atom :=
| ALit (n : N)             (* a non-negative integer literal *)
| AId (x : N)              (* any other atomic value expression *)
| AParen (c : chain)
with chain :=
| COne (u : option (unop * bool)) (a : atom)                                  (* [unary] atom *)
| CMore (u : option (unop * bool)) (a : atom) (o : binop) (rest : chain).     (* [unary] atom op rest *)
(* the bool of a unary operator: the operator is directly followed by the first byte of the atom *)

(* ---- the formatter --------------------------------------------------------------------------------- *)
Definition adj (u : option (unop * bool)) : option (unop * bool) :=
  match u with Some (o, _) => Some (o, true) | None => None end.

Fixpoint fmt_chain (c : chain) : chain :=
  match c with
  | COne u a => COne (adj u) (fmt_atom a)
  | CMore u a o r => CMore (adj u) (fmt_atom a) o (fmt_chain r)
  end
with fmt_atom (a : atom) : atom :=
  match a with
  | AParen c =>
      (* removeParens: `case *Ident, *LiteralExpr, *ParenExpr, ...: return Edit(x, simplify)`; a unary or binary
         expression in parentheses keeps them *)
      match fmt_chain c with
      | COne None a' => a'
      | c' => AParen c'
      end
  | _ => a
  end.

(* ---- asp: flat operator list over values, interpretOps ------------------------------------------------ *)
Section Sem.
  Variable V : Type.
  Variable lit : Z -> V.                  (* pyInt *)
  Variable var : N -> V.                  (* the value of any other atom *)
  Variable neg : V -> V.                  (* interpretOp Negate *)
  Variable lnot : V -> V.                 (* interpretOp Not *)
  Variable bin : binop -> V -> V -> V.    (* interpretOp of a binary operator on two values *)
  Variable truthy : V -> bool.

  (* one OpExpression with its operand already evaluated (evaluation has no side effects in this model) *)
  Inductive sop := SUn (u : unop) | SBi (o : binop) (v : V).

  Definition prec (x : sop) : Z :=
    match x with SUn u => prec_name (unop_name u) | SBi o _ => prec_name (binop_name o) end.

  Definition interp_op (obj : V) (x : sop) : V :=
    match x with
    | SUn Negate => neg obj
    | SUn Not => lnot obj
    | SBi o v => bin o obj v
    end.

  Definition lazy (o : binop) : bool := match o with And | Or => true | _ => false end.
  Definition is_and (o : binop) : bool := match o with And => true | _ => false end.

  (* interpreter.go interpretOps *)
  Fixpoint interp (obj : V) (ops : list sop) {struct ops} : V :=
    match ops with
    | [] => obj                                     (* not called with an empty list (len(expr.Op) > 0) *)
    | o0 :: rest =>
        match rest with
        | [] => interp_op obj o0                    (* if len(ops) == 1 *)
        | o1 :: _ =>
            if Z.leb (prec o1) (prec o0)            (* ops[0].Op.Precedence() >= ops[1].Op.Precedence() *)
            then interp (interp_op obj o0) rest
            else match o0 with
                 | SUn _ => interp_op (interp obj rest) o0                     (* ops[0].Expr == nil *)
                 | SBi o v =>
                     if lazy o && negb (Bool.eqb (truthy obj) (is_and o)) then obj
                     else bin o obj (interp v rest)
                 end
        end
    end.

  (* The head of an expression: the lexer folds `-` directly followed by a digit into ONE negative Int token; any other
     unary operator becomes the first entry of the operator list.  av is the value of the atom. *)
  Definition head (u : option (unop * bool)) (a : atom) (av : V) : V * list sop :=
    match u with
    | None => (av, [])
    | Some (uo, b) =>
        match uo, b, a with
        | Negate, true, ALit n => (lit (- Z.of_N n), [])
        | _, _, _ => (av, [SUn uo])
        end
    end.

  (* parseUnconditionalExpressionInPlace + the hoisting of the right operand's operators, with the operands evaluated *)
  Fixpoint sflat (c : chain) : V * list sop :=
    match c with
    | COne u a => head u a (aval a)
    | CMore u a o r =>
        let (v, pre) := head u a (aval a) in
        let (vr, opsr) := sflat r in
        (v, pre ++ SBi o vr :: opsr)
    end
  with aval (a : atom) : V :=
    match a with
    | ALit n => lit (Z.of_N n)
    | AId x => var x
    | AParen c => let (v, ops) := sflat c in interp v ops
    end.

  Definition eval (c : chain) : V := let (v, ops) := sflat c in interp v ops.
End Sem.

Arguments SUn {V}.
Arguments SBi {V}.

(* ---- the defect class: a minus that the formatter newly folds into a literal AFTER a binary operator -------- *)
Definition is_lit (a : atom) : bool := match a with ALit _ => true | _ => false end.
Definition folds_syn (u : option (unop * bool)) (a : atom) : bool :=
  match u, a with Some (Negate, true), ALit _ => true | _, _ => false end.
Definition newly_folds (u : option (unop * bool)) (a : atom) : bool :=
  negb (folds_syn u a) && folds_syn (adj u) (fmt_atom a).

Fixpoint ok_chain (c : chain) : bool :=       (* c stands at the start of an expression *)
  match c with
  | COne u a => ok_atom a
  | CMore u a o r => ok_atom a && ok_tail r
  end
with ok_tail (c : chain) : bool :=            (* c stands after a binary operator *)
  match c with
  | COne u a => ok_atom a && negb (newly_folds u a)
  | CMore u a o r => ok_atom a && negb (newly_folds u a) && ok_tail r
  end
with ok_atom (a : atom) : bool :=
  match a with
  | AParen c => ok_chain c
  | _ => true
  end.

Inductive expr_finding := NegateAfterBinaryFolded.
Definition expr_defect (c : chain) : option expr_finding := if ok_chain c then None else Some NegateAfterBinaryFolded.

(* ---- printing (build.Format on one expression) ------------------------------------------------------- *)
Fixpoint digits_fuel (fuel : nat) (n : N) (acc : str) : str :=
  match fuel with
  | O => acc
  | S f => let acc' := (48 + N.modulo n 10)%N :: acc in
           if N.ltb n 10 then acc' else digits_fuel f (N.div n 10) acc'
  end.
Definition digits (n : N) : str := digits_fuel 40 n [].

Definition binop_text (o : binop) : str :=
  match o with
  | Add => s "+" | Subtract => s "-" | Multiply => s "*" | Divide => s "/" | FloorDivide => s "//" | Modulo => s "%"
  | LessThan => s "<" | GreaterThan => s ">" | LessThanOrEqual => s "<=" | GreaterThanOrEqual => s ">=" | Equal => s "=="
  | NotEqual => s "!=" | In => s "in" | NotIn => s "not in" | And => s "and" | Or => s "or" | Union => s "|" | Is => s "is"
  | IsNot => s "is not"
  end.

Definition unary_text (u : option (unop * bool)) : str :=
  match u with Some (Negate, _) => s "-" | Some (Not, _) => s "not " | None => [] end.

Fixpoint render (c : chain) : str :=
  match c with
  | COne u a => unary_text u ++ render_atom a
  | CMore u a o r => unary_text u ++ render_atom a ++ s " " ++ binop_text o ++ s " " ++ render r
  end
with render_atom (a : atom) : str :=
  match a with
  | ALit n => digits n
  | AId x => s "V" ++ digits x
  | AParen c => s "(" ++ render c ++ s ")"
  end.

(* ---- concrete integer semantics for the correspondence (objects.go pyInt.Operator) ------------------------ *)
Definition zvar (x : N) : Z := nth (N.to_nat x) [7; 10; 3]%Z 0%Z.
Definition zbin (o : binop) (a b : Z) : Z :=
  match o with
  | Add => a + b | Subtract => a - b | Multiply => a * b
  | Divide => Z.quot a b | Modulo => Z.rem a b            (* Go / and % truncate *)
  | FloorDivide => Z.div a b                              (* math.Floor(float64(i) / float64(o)) *)
  | _ => 0
  end%Z.
Definition zeval (c : chain) : Z := eval Z (fun z => z) zvar Z.opp (fun z => z) zbin (fun z => negb (Z.eqb z 0)) c.
