(* C09 - path hashes.  Executable model of the byte stream that fs.PathHasher.hash
   (src/fs/hash.go:174) feeds to its hash for one path, with xattrs off and timestamp=false.
   What is written per kind of entry is NOT typed here: it is the regenerated Gen/PathHashProg.v
   (gotrans reads it off the source).  No proofs here. *)
From PlzV Require Import Base.Harness Gen.PathHashProg.

(* A path on disk.  Dir carries its entries as (name, node); a directory is a finite map, the
   canonical presentation (wf below) lists it in strictly increasing name order. *)
Inductive node :=
| File (c : str)
| Link (t : str)
| Dir (es : list (str * node)).

(* one emit program applied to an entry with the given file content / link target *)
Definition emit1 (content target : str) (e : emit) : str :=
  match e with
  | EMarker => marker
  | EContent => content
  | ETarget => target
  | EPointee => []          (* link leaving the repository: outside the modelled domain, see wf *)
  end.
Definition run (p : list emit) (content target : str) : str := flat_map (emit1 content target) p.

(* godirwalk's sorted scanner: children are visited in increasing byte order of their names *)
Fixpoint insert {A} (x : str * A) (l : list (str * A)) : list (str * A) :=
  match l with
  | [] => [x]
  | y :: r => if str_ltb (fst x) (fst y) then x :: l else y :: insert x r
  end.
Definition sort_by_name {A} (l : list (str * A)) : list (str * A) := fold_right insert [] l.
Definition visit_order {A} (l : list (str * A)) : list (str * A) :=
  if walk_sorted then sort_by_name l else l.

(* WalkMode(path, callback): the callback runs on the directory itself, then on every child in
   visit order, recursing into directories, never through symlinks (FollowSymbolicLinks unset). *)
Fixpoint walk (n : node) : str :=
  match n with
  | File c => run walk_file c []
  | Link t => run walk_link [] t
  | Dir es => run walk_dir [] []
              ++ concat (map snd (visit_order (map (fun e => (fst e, walk (snd e))) es)))
  end.

(* PathHasher.hash: Lstat; symlink -> marker + relative target; directory -> walk; else content *)
Definition stream (n : node) : str :=
  match n with
  | File c => run top_file c []
  | Link t => run top_link_in_repo [] t
  | Dir _ => walk n
  end.

(* ---- the domain: trees a filesystem can hold, in canonical presentation ---- *)
Definition byte_ok (b : N) : bool := N.ltb b 256.
Definition name_ok (k : str) : bool :=
  match k with [] => false | _ => true end
  && forallb (fun b => byte_ok b && negb (N.eqb b 47) && negb (N.eqb b 0)) k
  && negb (str_eqb k (s ".")) && negb (str_eqb k (s "..")).
(* link targets: non-empty, relative (an absolute target is relativised or dereferenced by the code:
   not modelled), no NUL *)
Definition target_ok (t : str) : bool :=
  match t with [] => false | b :: _ => negb (N.eqb b 47) end
  && forallb (fun b => byte_ok b && negb (N.eqb b 0)) t.
Fixpoint strictly_sorted (l : list str) : bool :=
  match l with
  | [] => true
  | a :: r => match r with [] => true | b :: _ => str_ltb a b end && strictly_sorted r
  end.
Fixpoint wf (n : node) : bool :=
  match n with
  | File c => forallb byte_ok c
  | Link t => target_ok t
  | Dir es => strictly_sorted (map fst es)
              && forallb (fun e => name_ok (fst e) && wf (snd e)) es
  end.

(* structural equality (decides a = b) *)
Fixpoint node_eqb (a b : node) : bool :=
  match a, b with
  | File c, File c' => str_eqb c c'
  | Link t, Link t' => str_eqb t t'
  | Dir es, Dir es' =>
      (fix go (l l' : list (str * node)) : bool :=
         match l, l' with
         | [], [] => true
         | (k, x) :: r, (k', y) :: r' => str_eqb k k' && node_eqb x y && go r r'
         | _, _ => false
         end) es es'
  | _, _ => false
  end.

(* ---- the known defect classes, recognised on a pair of trees ---- *)
Inductive defect :=
| DirNames         (* dir-entry-names-not-hashed *)
| DirLinkTarget    (* dir-symlink-target-not-hashed *)
| RootKind         (* root-kind-not-hashed: a file / a top-level symlink hashes like a directory with the same byte runs *)
| DirNesting       (* dir-nesting-not-hashed: which directory an entry sits in; empty directories *)
| FileBoundaries   (* dir-file-boundaries-not-hashed: where one file ends and the next starts; empty files *)
| MarkerAlias.     (* symlink-marker-aliases-file-content: the \x02 written for a symlink vs a file byte \x02 *)

Definition defect_eqb (a b : defect) : bool :=
  match a, b with
  | DirNames, DirNames | DirLinkTarget, DirLinkTarget | RootKind, RootKind
  | DirNesting, DirNesting | FileBoundaries, FileBoundaries | MarkerAlias, MarkerAlias => true
  | _, _ => false
  end.

(* equal after erasing every entry name (and, with cmp_t = false, every link target as well);
   children are compared in presentation order *)
Fixpoint eq_nameless (cmp_t : bool) (a b : node) : bool :=
  match a, b with
  | File c, File c' => str_eqb c c'
  | Link t, Link t' => if cmp_t then str_eqb t t' else true
  | Dir es, Dir es' =>
      (fix go (l l' : list (str * node)) : bool :=
         match l, l' with
         | [], [] => true
         | (_, x) :: r, (_, y) :: r' => eq_nameless cmp_t x y && go r r'
         | _, _ => false
         end) es es'
  | _, _ => false
  end.

(* the leaves of a directory in visit order: Some content for a file, None for a symlink *)
Fixpoint dleaves (n : node) : list (option str) :=
  match n with
  | File c => [Some c]
  | Link _ => [None]
  | Dir es => concat (map snd (sort_by_name (map (fun e => (fst e, dleaves (snd e))) es)))
  end.
(* ... and of a path given to Hash: a top-level symlink is the marker followed by its target *)
Definition tleaves (n : node) : list (option str) :=
  match n with
  | File c => [Some c]
  | Link t => [None; Some t]
  | Dir _ => dleaves n
  end.
Definition leaf_bytes (o : option str) : str := match o with Some c => c | None => [2%N] end.
Definition bytes_of (ls : list (option str)) : str := flat_map leaf_bytes ls.
(* the byte runs between consecutive symlink markers: first run, then one run after each marker *)
Fixpoint segs (ls : list (option str)) : str * list str :=
  match ls with
  | [] => ([], [])
  | Some c :: r => let (f, rs) := segs r in (c ++ f, rs)
  | None :: r => let (f, rs) := segs r in ([], f :: rs)
  end.
Definition has2 (ls : list (option str)) : bool :=
  existsb (fun o => match o with Some c => existsb (N.eqb 2) c | None => false end) ls.

Definition leaf_eqb := option_eqb str_eqb.
Definition segs_eqb (p q : str * list str) : bool :=
  str_eqb (fst p) (fst q) && list_eqb str_eqb (snd p) (snd q).
Definition is_dir (n : node) : bool := match n with Dir _ => true | _ => false end.

(* a pair in which at least one side is a directory *)
Definition classify_dirs (a b : node) : option defect :=
  let la := tleaves a in
  let lb := tleaves b in
  if is_dir a && is_dir b && eq_nameless true a b then Some DirNames
  else if is_dir a && is_dir b && eq_nameless false a b then Some DirLinkTarget
  else if negb (is_dir a && is_dir b) && segs_eqb (segs la) (segs lb) then Some RootKind
  else if list_eqb leaf_eqb la lb then Some DirNesting
  else if segs_eqb (segs la) (segs lb) then Some FileBoundaries
  else if (has2 la || has2 lb) && str_eqb (stream a) (stream b) then Some MarkerAlias
  else None.

Definition defect_class (a b : node) : option defect :=
  match a, b with
  | File _, File _ => None
  | Link _, Link _ => None
  | File c, Link t | Link t, File c => if str_eqb c (2%N :: t) then Some MarkerAlias else None
  | _, _ => classify_dirs a b
  end.

(* ---- correspondence cases ---- *)
Inductive case :=
| CStream (n : node) (observed : str)                  (* bytes the real hasher wrote for n *)
| CClass (a b : node) (cls : option defect).           (* the harness' classification of the pair *)

Definition check (c : case) : bool :=
  match c with
  | CStream n obs => str_eqb (stream n) obs
  | CClass a b cls => wf a && wf b && option_eqb defect_eqb (defect_class a b) cls
  end.

(* ---- single changes at any depth (used by the local-sensitivity theorem) ---- *)
(* editing the content of one file *)
Inductive file_edit : node -> node -> Prop :=
| FileEdit c c' : c <> c' -> file_edit (File c) (File c').
(* adding one entry - a symlink or a non-empty file - to a directory (read right to left: removing it) *)
Inductive entry_added : node -> node -> Prop :=
| AddLink es1 k t es2 : entry_added (Dir (es1 ++ es2)) (Dir (es1 ++ (k, Link t) :: es2))
| AddFile es1 k b c es2 : entry_added (Dir (es1 ++ es2)) (Dir (es1 ++ (k, File (b :: c)) :: es2)).
(* ... applied to the path itself or to any entry below it *)
Inductive below (R : node -> node -> Prop) : node -> node -> Prop :=
| Here a b : R a b -> below R a b
| Under es1 k n n' es2 : below R n n' -> below R (Dir (es1 ++ (k, n) :: es2)) (Dir (es1 ++ (k, n') :: es2)).
Definition single_change (a b : node) : Prop := below (fun x y => file_edit x y \/ entry_added x y) a b.
