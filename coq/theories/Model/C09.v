(* C09 - path hashes.  Executable model of the byte stream that fs.PathHasher.hash
   (src/fs/hash.go:174) feeds to its hash for one path, with xattrs off and timestamp=false.
   What is written per kind of entry is NOT typed here: it is the regenerated Gen/PathHashProg.v
   (gotrans reads it off the source).  No proofs here. *)
From PlzV Require Import Base.Harness Gen.PathHashProg.

(* A path on disk.  Dir carries its entries as (name, node); a directory is a finite map, the
   canonical presentation (wf below) lists it in strictly increasing name order. *)
Inductive node :=
| File (c : str)
| Link (t : str)
| Dir (es : list (str * node)).

(* one emit program applied to an entry with the given file content / link target *)
Definition emit1 (content target : str) (e : emit) : str :=
  match e with
  | EMarker => marker
  | EContent => content
  | ETarget => target
  | EPointee => []          (* link leaving the repository: outside the modelled domain, see wf *)
  end.
Definition run (p : list emit) (content target : str) : str := flat_map (emit1 content target) p.

(* godirwalk's sorted scanner: children are visited in increasing byte order of their names *)
Fixpoint insert {A} (x : str * A) (l : list (str * A)) : list (str * A) :=
  match l with
  | [] => [x]
  | y :: r => if str_ltb (fst x) (fst y) then x :: l else y :: insert x r
  end.
Definition sort_by_name {A} (l : list (str * A)) : list (str * A) := fold_right insert [] l.
Definition visit_order {A} (l : list (str * A)) : list (str * A) :=
  if walk_sorted then sort_by_name l else l.

(* WalkMode(path, callback): the callback runs on the directory itself, then on every child in
   visit order, recursing into directories, never through symlinks (FollowSymbolicLinks unset). *)
Fixpoint walk (n : node) : str :=
  match n with
  | File c => run walk_file c []
  | Link t => run walk_link [] t
  | Dir es => run walk_dir [] []
              ++ concat (map snd (visit_order (map (fun e => (fst e, walk (snd e))) es)))
  end.

(* PathHasher.hash: Lstat; symlink -> marker + relative target; directory -> walk; else content *)
Definition stream (n : node) : str :=
  match n with
  | File c => run top_file c []
  | Link t => run top_link_in_repo [] t
  | Dir _ => walk n
  end.

(* ---- the domain: trees a filesystem can hold, in canonical presentation ---- *)
Definition byte_ok (b : N) : bool := N.ltb b 256.
Definition name_ok (k : str) : bool :=
  match k with [] => false | _ => true end
  && forallb (fun b => byte_ok b && negb (N.eqb b 47) && negb (N.eqb b 0)) k
  && negb (str_eqb k (s ".")) && negb (str_eqb k (s "..")).
(* link targets: non-empty, relative (an absolute target is relativised or dereferenced by the code:
   not modelled), no NUL *)
Definition target_ok (t : str) : bool :=
  match t with [] => false | b :: _ => negb (N.eqb b 47) end
  && forallb (fun b => byte_ok b && negb (N.eqb b 0)) t.
Fixpoint strictly_sorted (l : list str) : bool :=
  match l with
  | [] => true
  | a :: r => match r with [] => true | b :: _ => str_ltb a b end && strictly_sorted r
  end.
Fixpoint wf (n : node) : bool :=
  match n with
  | File c => forallb byte_ok c
  | Link t => target_ok t
  | Dir es => strictly_sorted (map fst es)
              && forallb (fun e => name_ok (fst e) && wf (snd e)) es
  end.

(* structural equality (decides a = b) *)
Fixpoint node_eqb (a b : node) : bool :=
  match a, b with
  | File c, File c' => str_eqb c c'
  | Link t, Link t' => str_eqb t t'
  | Dir es, Dir es' =>
      (fix go (l l' : list (str * node)) : bool :=
         match l, l' with
         | [], [] => true
         | (k, x) :: r, (k', y) :: r' => str_eqb k k' && node_eqb x y && go r r'
         | _, _ => false
         end) es es'
  | _, _ => false
  end.

(* ---- the known defect classes, recognised on a pair of trees ---- *)
Inductive defect :=
| DirNames         (* dir-entry-names-not-hashed *)
| DirLinkTarget    (* dir-symlink-target-not-hashed *)
| RootKind         (* root-kind-not-hashed: a file / a top-level symlink hashes like a directory with the same byte runs *)
| DirNesting       (* dir-nesting-not-hashed: which directory an entry sits in; empty directories *)
| FileBoundaries   (* dir-file-boundaries-not-hashed: where one file ends and the next starts; empty files *)
| MarkerAlias.     (* symlink-marker-aliases-file-content: the \x02 written for a symlink vs a file byte \x02 *)

Definition defect_eqb (a b : defect) : bool :=
  match a, b with
  | DirNames, DirNames | DirLinkTarget, DirLinkTarget | RootKind, RootKind
  | DirNesting, DirNesting | FileBoundaries, FileBoundaries | MarkerAlias, MarkerAlias => true
  | _, _ => false
  end.

(* equal after erasing every entry name (and, with cmp_t = false, every link target as well);
   children are compared in presentation order *)
Fixpoint eq_nameless (cmp_t : bool) (a b : node) : bool :=
  match a, b with
  | File c, File c' => str_eqb c c'
  | Link t, Link t' => if cmp_t then str_eqb t t' else true
  | Dir es, Dir es' =>
      (fix go (l l' : list (str * node)) : bool :=
         match l, l' with
         | [], [] => true
         | (_, x) :: r, (_, y) :: r' => eq_nameless cmp_t x y && go r r'
         | _, _ => false
         end) es es'
  | _, _ => false
  end.

(* the leaves of a directory in visit order: Some content for a file, None for a symlink *)
Fixpoint dleaves (n : node) : list (option str) :=
  match n with
  | File c => [Some c]
  | Link _ => [None]
  | Dir es => concat (map snd (sort_by_name (map (fun e => (fst e, dleaves (snd e))) es)))
  end.
(* ... and of a path given to Hash: a top-level symlink is the marker followed by its target *)
Definition tleaves (n : node) : list (option str) :=
  match n with
  | File c => [Some c]
  | Link t => [None; Some t]
  | Dir _ => dleaves n
  end.
Definition leaf_bytes (o : option str) : str := match o with Some c => c | None => [2%N] end.
Definition bytes_of (ls : list (option str)) : str := flat_map leaf_bytes ls.
(* the byte runs between consecutive symlink markers: first run, then one run after each marker *)
Fixpoint segs (ls : list (option str)) : str * list str :=
  match ls with
  | [] => ([], [])
  | Some c :: r => let (f, rs) := segs r in (c ++ f, rs)
  | None :: r => let (f, rs) := segs r in ([], f :: rs)
  end.
Definition has2 (ls : list (option str)) : bool :=
  existsb (fun o => match o with Some c => existsb (N.eqb 2) c | None => false end) ls.

Definition leaf_eqb := option_eqb str_eqb.
Definition segs_eqb (p q : str * list str) : bool :=
  str_eqb (fst p) (fst q) && list_eqb str_eqb (snd p) (snd q).
Definition is_dir (n : node) : bool := match n with Dir _ => true | _ => false end.

(* a pair in which at least one side is a directory *)
Definition classify_dirs (a b : node) : option defect :=
  let la := tleaves a in
  let lb := tleaves b in
  if is_dir a && is_dir b && eq_nameless true a b then Some DirNames
  else if is_dir a && is_dir b && eq_nameless false a b then Some DirLinkTarget
  else if negb (is_dir a && is_dir b) && segs_eqb (segs la) (segs lb) then Some RootKind
  else if list_eqb leaf_eqb la lb then Some DirNesting
  else if segs_eqb (segs la) (segs lb) then Some FileBoundaries
  else if (has2 la || has2 lb) && str_eqb (stream a) (stream b) then Some MarkerAlias
  else None.

Definition defect_class (a b : node) : option defect :=
  match a, b with
  | File _, File _ => None
  | Link _, Link _ => None
  | File c, Link t | Link t, File c => if str_eqb c (2%N :: t) then Some MarkerAlias else None
  | _, _ => classify_dirs a b
  end.

(* ==== follow-up: paths, top-level symlinks with absolute targets, the memo ==== *)

(* ---- PathHasher.ensureRelative (hash.go:284): a TEXTUAL prefix test against the repo root ---- *)
Fixpoint strip_prefix (p x : str) : option str :=
  match p, x with
  | [], _ => Some x
  | a :: p', b :: x' => if N.eqb a b then strip_prefix p' x' else None
  | _ :: _, [] => None
  end.
Definition has_prefix (p x : str) : bool := match strip_prefix p x with Some _ => true | None => false end.
Fixpoint trim_slashes (x : str) : str :=
  match x with
  | b :: r => if N.eqb b 47 then trim_slashes r else x
  | [] => []
  end.
Definition ensure_relative (root p : str) : str :=
  match strip_prefix root p with Some r => trim_slashes r | None => p end.
Definition is_abs (p : str) : bool := match p with b :: _ => N.eqb b 47 | [] => false end.

(* ---- a path given to Hash that is a symlink: hash.go:183-201 ----
   dest = Readlink(path); the marker is written; then
     (rel != dest || !IsAbs(dest)) && !IsAbs(path)  ->  the relativised target text is written
     otherwise                                        ->  fileHash(h, path): the bytes of the file the link resolves to
   (the condition is checked verbatim by gotrans; `path` has been through ensureRelative already). *)
Definition link_in_repo (root path dest : str) : bool :=
  let rel := ensure_relative root dest in
  (negb (str_eqb rel dest) || negb (is_abs dest)) && negb (is_abs path).
Definition emit_top (target pointee : str) (e : emit) : str :=
  match e with
  | EMarker => marker
  | EContent => []
  | ETarget => target
  | EPointee => pointee
  end.
Definition run_top (p : list emit) (target pointee : str) : str := flat_map (emit_top target pointee) p.
(* pointee: the bytes of the regular file the link resolves to; None if it does not resolve to a
   readable regular file (Hash then returns an error and records nothing) *)
Definition link_stream (root path dest : str) (pointee : option str) : option str :=
  if link_in_repo root path dest
  then Some (run_top top_link_in_repo (ensure_relative root dest) [])
  else option_map (run_top top_link_outside []) pointee.

(* what can sit at a path given to Hash *)
Inductive top :=
| TNode (n : node)                             (* a path inside the repo; Link t = symlink with a RELATIVE target *)
| TAbsLink (t : str) (pointee : option str)    (* a path inside the repo: symlink with the ABSOLUTE target t *)
| TOutLink (t : str) (pointee : option str).   (* a symlink hashed through an absolute path outside the repo *)

Definition top_stream (root : str) (x : top) : option str :=
  match x with
  | TNode n => Some (stream n)
  | TAbsLink t p => link_stream root [] t p          (* [] : any relative path *)
  | TOutLink t p => link_stream root [47%N] t p      (* "/": any absolute path outside the root *)
  end.

Definition abs_target_ok (t : str) : bool :=
  is_abs t && forallb (fun b => byte_ok b && negb (N.eqb b 0)) t.
Definition pointee_ok (p : option str) : bool := match p with Some c => forallb byte_ok c | None => true end.
(* the root: absolute, no trailing slash *)
Definition root_ok (root : str) : bool :=
  is_abs root && match rev root with b :: _ => negb (N.eqb b 47) | [] => false end.
Definition top_wf (x : top) : bool :=
  match x with
  | TNode n => wf n
  | TAbsLink t p => abs_target_ok t && pointee_ok p
  | TOutLink t p => match t with [] => false | _ => true end && forallb (fun b => byte_ok b && negb (N.eqb b 0)) t && pointee_ok p
  end.

(* two paths differ AS TREES: kind, content, names, link target.  What a link points to is not part
   of the tree (it lies outside it), so the pointee is not compared. *)
Definition top_differs (x y : top) : bool :=
  match x, y with
  | TNode a, TNode b => negb (node_eqb a b)
  | TAbsLink t _, TAbsLink t' _ => negb (str_eqb t t')
  | TOutLink t _, TOutLink t' _ => negb (str_eqb t t')
  | TNode (Link t), TAbsLink t' _ | TAbsLink t' _, TNode (Link t) => negb (str_eqb t t')   (* always true on wf input *)
  | TNode (Link t), TOutLink t' _ | TOutLink t' _, TNode (Link t) => negb (str_eqb t t')
  | TAbsLink t _, TOutLink t' _ | TOutLink t' _, TAbsLink t _ => negb (str_eqb t t')
  | _, _ => true
  end.

(* the in-repo node that is hashed identically (the stream of a symlink is always marker ++ something) *)
Definition link_text (root path dest : str) (pointee : option str) : option str :=
  if link_in_repo root path dest then Some (ensure_relative root dest) else pointee.
Definition eff (root : str) (x : top) : option node :=
  match x with
  | TNode n => Some n
  | TAbsLink t p => option_map Link (link_text root [] t p)
  | TOutLink t p => option_map Link (link_text root [47%N] t p)
  end.

Inductive tkind := KNode | KInRepo | KSibling | KExternal.
(* an absolute target that only shares the root as a textual prefix: /r2/x under root /r *)
Definition sibling_of_root (root t : str) : bool :=
  match strip_prefix root t with Some (b :: _) => negb (N.eqb b 47) | _ => false end.
Definition tkind_of (root : str) (x : top) : tkind :=
  match x with
  | TNode _ => KNode
  | TAbsLink t _ => if link_in_repo root [] t then (if sibling_of_root root t then KSibling else KInRepo) else KExternal
  | TOutLink _ _ => KExternal
  end.

Inductive tdefect :=
| TInherited (d : defect)   (* the equivalent in-repo nodes differ and collide in one of the six classes *)
| TExtTarget                (* external-symlink-target-not-hashed: two links leaving the repo, different targets, same pointee bytes *)
| TExtContentAsTarget       (* external-symlink-content-aliases-link-target: pointee bytes of one = the repo-relative target text of the other *)
| TRootStripped             (* absolute-in-repo-symlink-target-relativised: /root/a hashed like the relative target a *)
| TSiblingStripped.         (* symlink-target-sibling-of-root-prefix-stripped: /root2/x hashed like the relative target 2/x *)

Definition tdefect_eqb (a b : tdefect) : bool :=
  match a, b with
  | TInherited d, TInherited d' => defect_eqb d d'
  | TExtTarget, TExtTarget | TExtContentAsTarget, TExtContentAsTarget
  | TRootStripped, TRootStripped | TSiblingStripped, TSiblingStripped => true
  | _, _ => false
  end.

Definition same_link_text (a b : node) : bool :=
  match a, b with Link t, Link t' => str_eqb t t' | _, _ => false end.

Definition top_class (root : str) (x y : top) : option tdefect :=
  match eff root x, eff root y with
  | Some a, Some b =>
      match tkind_of root x, tkind_of root y with
      | KNode, KNode => option_map TInherited (defect_class a b)
      | kx, ky =>
          if same_link_text a b then
            match kx, ky with
            | KExternal, KExternal => Some TExtTarget
            | KExternal, _ | _, KExternal => Some TExtContentAsTarget
            | KSibling, _ | _, KSibling => Some TSiblingStripped
            | _, _ => Some TRootStripped
            end
          else option_map TInherited (defect_class a b)
      end
  | _, _ => None
  end.

(* ---- the memo of PathHasher as a state machine (hash.go:82-172) ----
   Memo values are modelled by the STREAM whose digest is recorded (the digest is H stream).
   A finite map is an association list, newest binding first; a binding to None is a deletion. *)
Definition amap (A : Type) := list (str * option A).
Definition aget {A} (m : amap A) (k : str) : option A :=
  match find (fun e => str_eqb (fst e) k) m with Some (_, o) => o | None => None end.
Definition aset {A} (m : amap A) (k : str) (o : option A) : amap A := (k, o) :: m.

(* memo: key -> None (no entry) | Some None (entry holding nil: "do not trust xattrs, hash again")
                | Some (Some v) (entry holding the digest of stream v)
   files: what is on disk, keyed by the path relative to the root (= the working directory) *)
Record mstate := MState { memo : amap (option str); files : amap node }.
Definition mstate0 : mstate := MState [] [].

Inductive op :=
| OWrite (p : str) (t : node)     (* the world: (re)place the tree at p *)
| ORemove (p : str)               (* the world: remove p *)
| OCopyFs (o n : str)             (* the world: replace n by a copy of o (nothing happens if o does not exist) *)
| OHash (p : str) (recalc : bool) (* PathHasher.Hash(p, recalc, _, false) *)
| OMoveHash (o n : str)           (* PathHasher.MoveHash(o, n) *)
| OCopyHash (o n : str)           (* PathHasher.CopyHash(o, n) *)
| OSetHash (p : str) (v : str)    (* PathHasher.SetHash(p, digest of v) *)
| OMoveOutput (o n : str).        (* build.moveOutput: MoveHash(o, n); RemoveAll(n); Rename(o, n)   (o exists, o <> n; else nothing) *)

Inductive obs :=
| ObsNone
| ObsErr                               (* Hash returned an error *)
| ObsVal (v : str) (recomputed : bool). (* Hash returned the digest of v; recomputed: it ran the hash function *)

Definition obs_eqb (a b : obs) : bool :=
  match a, b with
  | ObsNone, ObsNone | ObsErr, ObsErr => true
  | ObsVal v r, ObsVal v' r' => str_eqb v v' && Bool.eqb r r'
  | _, _ => false
  end.

(* moveOrCopyHash(old, new, copy) *)
Definition move_or_copy (root : str) (m : amap (option str)) (o n : str) (copy : bool) : amap (option str) :=
  let ko := ensure_relative root o in
  let kn := ensure_relative root n in
  match aget m ko with
  | Some h =>
      let m1 := aset m kn (Some h) in
      if negb copy && has_prefix memo_forget_prefix ko then aset m1 ko None else m1
  | None => if copy then aset m kn (Some None) else m
  end.

Definition step (root : str) (st : mstate) (o : op) : mstate * obs :=
  match o with
  | OWrite p t => (MState (memo st) (aset (files st) (ensure_relative root p) (Some t)), ObsNone)
  | ORemove p => (MState (memo st) (aset (files st) (ensure_relative root p) None), ObsNone)
  | OCopyFs a b =>
      match aget (files st) (ensure_relative root a) with
      | Some t => (MState (memo st) (aset (files st) (ensure_relative root b) (Some t)), ObsNone)
      | None => (st, ObsNone)
      end
  | OHash p recalc =>
      let k := ensure_relative root p in
      match (if recalc then None else aget (memo st) k) with
      | Some (Some v) => (st, ObsVal v false)
      | _ => (* no entry, an entry holding nil, or recalc: hash what is there now *)
          match aget (files st) k with
          | None => (st, ObsErr)
          | Some t => (MState (aset (memo st) k (Some (Some (stream t)))) (files st), ObsVal (stream t) true)
          end
      end
  | OMoveHash a b => (MState (move_or_copy root (memo st) a b move_hash_copies) (files st), ObsNone)
  | OCopyHash a b => (MState (move_or_copy root (memo st) a b copy_hash_copies) (files st), ObsNone)
  | OSetHash p v => (MState (aset (memo st) p (Some (Some v))) (files st), ObsNone)   (* p is NOT made relative *)
  | OMoveOutput a b =>
      let ko := ensure_relative root a in
      let kn := ensure_relative root b in
      match aget (files st) ko with
      | Some t =>
          if str_eqb ko kn then (st, ObsNone)
          else (MState (move_or_copy root (memo st) a b move_hash_copies)
                       (aset (aset (files st) kn (Some t)) ko None), ObsNone)
      | None => (st, ObsNone)
      end
  end.

(* ---- the protocol under which memoised hashes are right, as a ghost status per memo key ----
   GAbsent: the memo has no entry          GNil:   the entry holds nil
   GValid:  the entry is the stream of the tree now at the path
   GStale:  no claim (the content changed under a valid entry, a wrong digest was set, a digest was
            moved/copied between paths with different content ...)
   The only rule: never call Hash(p, recalc=false) on a path whose status is GStale. *)
Inductive gstat := GAbsent | GNil | GValid | GStale.
Definition gstat_eqb (a b : gstat) : bool :=
  match a, b with GAbsent, GAbsent | GNil, GNil | GValid, GValid | GStale, GStale => true | _, _ => false end.
Definition ghost := amap gstat.
Definition gget (g : ghost) (k : str) : gstat := match aget g k with Some x => x | None => GAbsent end.
Definition gset (g : ghost) (k : str) (x : gstat) : ghost := aset g k (Some x).
Definition demote (g : ghost) (k : str) : ghost := match gget g k with GValid => gset g k GStale | _ => g end.
Definition same_stream (f : amap node) (a b : str) : bool :=
  match aget f a, aget f b with Some x, Some y => str_eqb (stream x) (stream y) | _, _ => false end.

Definition g_move (root : str) (f : amap node) (g : ghost) (o n : str) (copy : bool) : ghost :=
  let ko := ensure_relative root o in
  let kn := ensure_relative root n in
  let forget (g' : ghost) := if negb copy && has_prefix memo_forget_prefix ko then gset g' ko GAbsent else g' in
  match gget g ko with
  | GValid => forget (gset g kn (if same_stream f ko kn then GValid else GStale))
  | GStale => forget (gset g kn GStale)
  | GNil => forget (gset g kn GNil)
  | GAbsent => if copy then gset g kn GNil else g
  end.

(* f: the files BEFORE the operation *)
Definition g_step (root : str) (f : amap node) (g : ghost) (o : op) : ghost :=
  match o with
  | OWrite p _ | ORemove p => demote g (ensure_relative root p)
  | OCopyFs a b => match aget f (ensure_relative root a) with Some _ => demote g (ensure_relative root b) | None => g end
  | OHash p _ => let k := ensure_relative root p in match aget f k with Some _ => gset g k GValid | None => g end
  | OMoveHash a b => g_move root f g a b move_hash_copies
  | OCopyHash a b => g_move root f g a b copy_hash_copies
  | OSetHash p v =>
      gset g p (match aget f p with Some t => if str_eqb (stream t) v then GValid else GStale | None => GStale end)
  | OMoveOutput a b =>
      let ko := ensure_relative root a in
      let kn := ensure_relative root b in
      match aget f ko with
      | Some _ =>
          if str_eqb ko kn then g
          else
            let away (x : gstat) := if has_prefix memo_forget_prefix ko then GAbsent else x in
            match gget g ko with
            | GValid => gset (gset g kn GValid) ko (away GStale)
            | GStale => gset (gset g kn GStale) ko (away GStale)
            | GNil => gset (gset g kn GNil) ko (away GNil)
            | GAbsent => demote g kn
            end
      | None => g
      end
  end.

Definition allowed (root : str) (g : ghost) (o : op) : bool :=
  match o with
  | OHash p false => negb (gstat_eqb (gget g (ensure_relative root p)) GStale)
  | _ => true
  end.

(* run a sequence: per operation what was observed, whether the protocol allowed it, and the state after it *)
Fixpoint exec (root : str) (st : mstate) (g : ghost) (ops : list op) : list (op * obs * bool * mstate) :=
  match ops with
  | [] => []
  | o :: r =>
      let (st', out) := step root st o in
      (o, out, allowed root g o, st') :: exec root st' (g_step root (files st) g o) r
  end.
Definition follows (root : str) (st : mstate) (g : ghost) (ops : list op) : bool :=
  forallb (fun e => snd (fst e)) (exec root st g ops).

(* ---- correspondence cases ---- *)
Inductive case :=
| CStream (n : node) (observed : str)                  (* bytes the real hasher wrote for n *)
| CClass (a b : node) (cls : option defect)            (* the harness' classification of the pair *)
| CTop (root : str) (x : top) (observed : option str)  (* bytes written for a top-level path; None: Hash returned an error *)
| CTopClass (root : str) (x y : top) (cls : option tdefect)
| CMemo (root : str) (trace : list (op * obs * bool)). (* one long-lived hasher: per operation what it returned and
                                                          whether the harness' protocol tracker allowed it *)

Definition check (c : case) : bool :=
  match c with
  | CStream n obs => str_eqb (stream n) obs
  | CClass a b cls => wf a && wf b && option_eqb defect_eqb (defect_class a b) cls
  | CTop root x obs => root_ok root && top_wf x && option_eqb str_eqb (top_stream root x) obs
  | CTopClass root x y cls =>
      root_ok root && top_wf x && top_wf y && top_differs x y
      && option_eqb tdefect_eqb (top_class root x y) cls
  | CMemo root trace =>
      list_eqb (fun a b => obs_eqb (snd (fst a)) (snd (fst b)) && Bool.eqb (snd a) (snd b))
               (map (fun e => fst e) (exec root mstate0 [] (map (fun e => fst (fst e)) trace)))
               trace
  end.

(* ---- single changes at any depth (used by the local-sensitivity theorem) ---- *)
(* editing the content of one file *)
Inductive file_edit : node -> node -> Prop :=
| FileEdit c c' : c <> c' -> file_edit (File c) (File c').
(* adding one entry - a symlink or a non-empty file - to a directory (read right to left: removing it) *)
Inductive entry_added : node -> node -> Prop :=
| AddLink es1 k t es2 : entry_added (Dir (es1 ++ es2)) (Dir (es1 ++ (k, Link t) :: es2))
| AddFile es1 k b c es2 : entry_added (Dir (es1 ++ es2)) (Dir (es1 ++ (k, File (b :: c)) :: es2)).
(* ... applied to the path itself or to any entry below it *)
Inductive below (R : node -> node -> Prop) : node -> node -> Prop :=
| Here a b : R a b -> below R a b
| Under es1 k n n' es2 : below R n n' -> below R (Dir (es1 ++ (k, n) :: es2)) (Dir (es1 ++ (k, n') :: es2)).
Definition single_change (a b : node) : Prop := below (fun x y => file_edit x y \/ entry_added x y) a b.
