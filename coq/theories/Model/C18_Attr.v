(* C18 - two further ways in which a BUILD file gets hold of a list / dict:

   (1) ATTRIBUTE ACCESS on a dict, `D.name` (src/parse/asp/objects.go pyDict.Property and pyFrozenDict.Property;
       the table interpreter.dictMethods of builtins.go).  A dict answers `.name` with the value stored under the KEY
       name first and with the bound method name second; the frozen wrapper of an imported dict must not change that.
       Both Property bodies are TRANSLATED by gotrans (Gen/C18Pins.v dict_property_prog, frozen_dict_property_prog,
       dict_method_names) and interpreted here (prop_eval).

   (2) PLUGIN CONFIGURATION (src/parse/asp/config.go pluginConfig, loadPluginConfig): subinclude() of a target of a
       plugin stores the plugin's config - a dict built from the [PluginConfig] definitions, a list for every
       repeatable field - under CONFIG.<PLUGIN>.  How it is stored is TRANSLATED (Gen/C18Pins.v plugin_store).

   No proofs here. *)
From Coq Require Import String.
From PlzV Require Import Base.Harness Model.C16_Syntax Model.C16_Ops Model.C16_Prim Model.C16_Eval Model.C16 Model.C18_Config.
From PlzV Require Import Gen.C18Pins.

(* ---------------------------------------------------------------- Property *)
Inductive prop_res :=
| PVal (v : value)            (* the member *)
| PMethodOf (name : str)      (* prop.Member(d): the method, bound to the (inner) dict *)
| PPanicked.

(* what a translated Property body answers for `name` on a dict with entries kvs;
   inner = the answer of d.pyDict.Property(scope, name) (only the wrapper delegates) *)
Fixpoint prop_eval (p : prop_prog) (methods : list str) (inner : prop_res) (kvs : list (str * value)) (name : str) : prop_res :=
  match p with
  | PIfKey els => match env_get name kvs with Some v => PVal v | None => prop_eval els methods inner kvs name end
  | PIfMethod rejected els =>
      if existsb (str_eqb name) methods
      then (if existsb (fun r => str_eqb name (s r)) rejected then PPanicked else PMethodOf name)
      else prop_eval els methods inner kvs name
  | PIfName n thn els =>
      if str_eqb name (s n) then prop_eval thn methods inner kvs name else prop_eval els methods inner kvs name
  | PDelegate => inner
  | PPanic => PPanicked
  end.

Definition method_table : list str := map s dict_method_names.

Definition dict_property (st : state) (v : value) (name : str) : prop_res :=
  match v with
  | VDict i => prop_eval dict_property_prog method_table PPanicked (dict_of st i) name
  | VFrozenDict i =>
      prop_eval frozen_dict_property_prog method_table
                (prop_eval dict_property_prog method_table PPanicked (dict_of st i) name) (dict_of st i) name
  | _ => PPanicked          (* lists, ints, None have no properties; strings only methods (not modelled here) *)
  end.

(* a chain of accesses  V.a["b"].c *)
Inductive access := AProp (n : str) | AIdx (n : str).

Definition access1 (st : state) (v : value) (a : access) : res value :=
  match a with
  | AProp n => match dict_property st v n with
               | PVal x => Ok x
               | PMethodOf _ => Err EUnsupported      (* a bound method as a value: outside the modelled fragment *)
               | PPanicked => Err EType
               end
  | AIdx n => vindex Asp st v (VStr n)
  end.

Fixpoint resolve (st : state) (v : value) (path : list access) : res value :=
  match path with
  | [] => Ok v
  | a :: r => match access1 st v a with Ok x => resolve st x r | Err e => Err e | OutOfFuel => OutOfFuel end
  end.

Definition finish (fuel : nat) (ib : nat) (body : prog) (st : state) : outcome :=
  match exec_top Asp [] fuel body st with
  | (None, false, st2) => let g := render_env Asp st2 (nth ib (fscopes st2) []) in OGlobals g g
  | (Some EType, _, _) => OErr
  | _ => OUnsup
  end.

(* One package.  imported = false:   D = lit; X = D<path>; body
                 imported = true:    subinclude(A); X = D<path>; body      with A:  D = lit   *)
Definition run_attr (fuel : nat) (imported : bool) (lit : expr) (path : list access) (body : prog) : outcome :=
  let setup : res (state * nat) :=
    if imported then
      let '(ia, stA) := push_scope empty_state in
      do '(v, st1) <- eval_expr Asp [] fuel lit stA;
      let st1' := set_var (s "D") v st1 in
      do '(frozen, st2) <- freeze_env 32 (nth ia (fscopes st1') []) st1';
      let st3 := set_fscopes (list_set ia frozen (fscopes st2)) st2 in
      let '(ib, stB) := push_scope st3 in
      Ok (fold_left (fun acc kv => set_var (fst kv) (snd kv) acc) frozen stB, ib)
    else
      let '(ib, stB) := push_scope empty_state in
      do '(v, st1) <- eval_expr Asp [] fuel lit stB;
      Ok (set_var (s "D") v st1, ib) in
  match setup with
  | Ok (st, ib) =>
      match lookup (s "D") st with
      | Some d =>
          match resolve st d path with
          | Ok x => finish fuel ib body (set_var (s "X") x st)
          | Err EType => OErr
          | _ => OUnsup
          end
      | None => OUnsup
      end
  | Err EType => OErr
  | _ => OUnsup
  end.

(* ---------------------------------------------------------------- plugin configuration *)
(* one [PluginConfig "name"] section, with the values the host's [Plugin "<plugin>"] section gives for it, if any *)
Record pfield := PField { pf_name : str; pf_default : list str; pf_host : option (list str);
                          pf_repeatable : bool; pf_optional : bool }.

Definition upper_byte (b : N) : N := if (N.leb 97 b && N.leb b 122)%bool then (b - 32)%N else b.
Definition str_upper (x : str) : str := map upper_byte x.

(* toPyObject for the type str *)
Definition to_py (optional : bool) (x : str) : value :=
  if optional && match x with [] => true | _ => false end then VNone else VStr x.

(* the value of one field: the loop body of pluginConfig (log.Fatalf = the model refuses) *)
Definition field_value (f : pfield) (st : state) : res (value * state) :=
  let vals := match pf_host f with Some h => h | None => pf_default f end in
  if match vals with [] => negb (pf_optional f) | _ => false end then Err EUnsupported           (* "is not optional" *)
  else if negb (pf_repeatable f) && Nat.ltb 1 (length vals) then Err EUnsupported                 (* "is not repeatable" *)
  else if pf_repeatable f then
    let '(sl, st1) := alloc_list (map (to_py (pf_optional f)) vals) (length vals) st in Ok (VList sl, st1)
  else Ok (to_py (pf_optional f) (hd [] vals), st).

(* pluginConfig for a package of the host repository (no parent state): ret[KEY] = value, field by field *)
Fixpoint plugin_entries (fs : list pfield) (acc : list (str * value)) (st : state) : res (list (str * value) * state) :=
  match fs with
  | [] => Ok (acc, st)
  | f :: r => do '(v, st1) <- field_value f st; plugin_entries r (env_set (str_upper (pf_name f)) v acc) st1
  end.

(* loadPluginConfig, with the way the dict is stored as translated from the source *)
Definition load_plugin_config (mode : plugin_store_mode) (name : str) (fs : list pfield) (c : config) (st : state)
  : res (config * state) :=
  let o := match c_overlay c with Some o => o | None => [] end in
  let key := str_upper name in
  match env_get key o with
  | Some _ => Ok (Config (c_base c) (Some o) (c_frozen c), st)
  | None =>
      do '(kvs, st1) <- plugin_entries fs [] st;
      let '(i, st2) := alloc_dict kvs st1 in
      do '(stored, st3) <- match mode with
                           | PStorePlain => Ok (VDict i, st2)
                           | PStoreFrozen => freeze 32 (VDict i) st2
                           end;
      Ok (Config (c_base c) (Some (env_set key stored o)) (c_frozen c), st3)
  end.

(* One package:   subinclude(P); X = CONFIG.<PLUGIN><path>; body    where P is an (empty) output of the plugin *)
Definition run_plugin (fuel : nat) (name : str) (fs : list pfield) (path : list access) (body : prog) : outcome :=
  let root := Config case_base None false in
  let '(ib, stB) := push_scope empty_state in
  match load_plugin_config plugin_store name fs (cfg_copy root) stB with
  | Ok (cB, st) =>
      match cfg_read RProp (str_upper name) cB with
      | Ok d =>
          match resolve st d path with
          | Ok x => finish fuel ib body (set_var (s "X") x st)
          | Err EType => OErr
          | _ => OUnsup
          end
      | Err EType => OErr
      | _ => OUnsup
      end
  | Err EType => OErr
  | _ => OUnsup
  end.
