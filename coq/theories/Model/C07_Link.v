(* C07 - what earlier invocations leave behind for the source hash of a consumer of a filegroup.

   A filegroup whose source is a plain file of the source tree: its output plz-out/gen/<pkg>/<f> is a HARD LINK to the
   source file (filegroupBuilder.Build, src/build/filegroup.go: RecursiveCopyOrLinkFile), so the inode - the content AND
   the extended attribute user.plz_hash* - is shared with a file the user edits.  fs.PathHasher (src/fs/hash.go) keeps a
   per-process memo and, for paths below plz-out/, reads the digest from the attribute when there is one and stores it
   there otherwise.  filegroupBuilder.Build tells the hasher what it knows about `to` through CopyHash(from, to): the
   memo entry of `from`, or - when `from` was not hashed - the nil marker "re-hash, never read or store the attribute".

   The model follows one such file through invocations of `plz hash --detailed //:t` (t has the filegroup as a source;
   every invocation is a NEW process: empty memo), edits in place (same inode), replacements (new inode) and
   rm -rf plz-out, and says which content the Source hash printed for t is the digest of.  What Build does on its
   `same file` way out is the action list gotrans regenerates from the source (Gen/C03Incr.v fg_same_branch), INTERPRETED
   here (run_acts).  Digests are modelled by the content they are taken over.  No proofs here. *)
From PlzV Require Gen.C03Incr.
From PlzV Require Import Base.Harness.

(* the memo entry of one path in one process *)
Inductive lk_mark :=
| LkNoEntry                  (* not in hasher.memo *)
| LkNil                      (* present, nil: set by CopyHash when the origin has no entry *)
| LkVal (h : str).           (* present: a digest *)

(* moveOrCopyHash(from, to, copy = true) *)
Definition lk_copy_hash (from to : lk_mark) : lk_mark :=
  match from with
  | LkNoEntry => LkNil
  | m => m
  end.

(* the statements of one way out of filegroupBuilder.Build, in order; nothing after the return is executed *)
Fixpoint lk_run_acts (acts : list C03Incr.fgact) (from to : lk_mark) : lk_mark :=
  match acts with
  | [] => to
  | C03Incr.FgMarkBuilt :: r => lk_run_acts r from to
  | C03Incr.FgCopyHash :: r => lk_run_acts r from (lk_copy_hash from to)
  | C03Incr.FgReturn :: _ => to
  end.

Record lk_inode := LkI { lk_content : str; lk_xattr : option str }.

(* PathHasher.Hash(p, recalc = false, store = true) for p below plz-out/ on inode i, given the memo entry of p:
   an entry with a digest is returned; the nil marker re-hashes the content and touches no attribute; without an entry
   hasher.hash(store, read = true) returns the attribute when there is one and stores the digest on the inode otherwise *)
Definition lk_hash_out (m : lk_mark) (i : lk_inode) : lk_inode * str :=
  match m with
  | LkVal h => (i, h)
  | LkNil => (i, lk_content i)
  | LkNoEntry =>
      match lk_xattr i with
      | Some h => (i, h)
      | None => (LkI (lk_content i) (Some (lk_content i)), lk_content i)
      end
  end.

(* plz-out/gen/<pkg>/<f>: missing, a hard link to the source file, or another inode (the source was replaced) *)
Inductive lk_out :=
| LkAbsent
| LkLinked
| LkSep (i : lk_inode).

Record lk_state := LkS { lk_src : lk_inode; lk_o : lk_out }.

(* one invocation: the filegroup is built, then sourceHash of the consumer asks the hasher for `to`.
   Result: (source inode, output, the content whose digest is printed as the consumer's Source hash).
   LkAbsent  isSameFileContent says no without hashing; the file is linked; the filegroup changed, so its outputs are
             re-hashed with recalc = true, store = false (outputHash: store = !IsFilegroup): memo[to] = digest of the content.
   LkLinked  same inode: isSameFileContent says yes WITHOUT hashing (memo[from] has no entry); the same-file way out runs.
   LkSep     both paths are hashed with store = true: `from` is outside plz-out (content, no attribute), `to` through its
             attribute; equal: the same-file way out runs with both entries present; different: RemoveAll + link, re-hashed
             as in the first case. *)
Definition lk_build (same_branch : list C03Incr.fgact) (src : lk_inode) (out : lk_out) : lk_inode * lk_out * str :=
  match out with
  | LkAbsent => (src, LkLinked, lk_content src)
  | LkLinked =>
      let m := lk_run_acts same_branch LkNoEntry LkNoEntry in
      let '(i, h) := lk_hash_out m src in (i, LkLinked, h)
  | LkSep o =>
      let h1 := lk_content src in
      let '(o1, h2) := lk_hash_out LkNoEntry o in
      if str_eqb h1 h2
      then let m := lk_run_acts same_branch (LkVal h1) (LkVal h2) in
           let '(o2, h) := lk_hash_out m o1 in (src, LkSep o2, h)
      else (src, LkLinked, lk_content src)
  end.

Inductive lk_event :=
| LkEdit (c : str)           (* echo c > f: same inode, the attribute stays *)
| LkReplace (c : str)        (* write a temporary file and rename it over f: a new inode without attribute *)
| LkRmOut                    (* rm -rf plz-out *)
| LkRun.                     (* plz hash --detailed //:t, a new process *)

Definition lk_step (sb : list C03Incr.fgact) (st : lk_state) (e : lk_event) : lk_state * option str :=
  match e with
  | LkEdit c => (LkS (LkI c (lk_xattr (lk_src st))) (lk_o st), None)
  | LkReplace c => (LkS (LkI c None) (match lk_o st with LkLinked => LkSep (lk_src st) | o => o end), None)
  | LkRmOut => (LkS (lk_src st) LkAbsent, None)
  | LkRun => match lk_build sb (lk_src st) (lk_o st) with
             | (src, out, seen) => (LkS src out, Some seen)
             end
  end.

(* the contents whose digests the invocations of a history print *)
Fixpoint lk_runs (sb : list C03Incr.fgact) (st : lk_state) (evs : list lk_event) : list str :=
  match evs with
  | [] => []
  | e :: r => match lk_step sb st e with
              | (st', Some seen) => seen :: lk_runs sb st' r
              | (st', None) => lk_runs sb st' r
              end
  end.

(* a fresh copy of the tree in which the file has content c: no plz-out, a new inode *)
Definition lk_init (c : str) : lk_state := LkS (LkI c None) LkAbsent.

(* what an invocation on a fresh copy of the tree prints *)
Definition lk_fresh (sb : list C03Incr.fgact) (c : str) : list str := lk_runs sb (lk_init c) [LkRun].

(* the reference: at every invocation of the history, what a fresh copy of the tree as it is at that moment prints *)
Fixpoint lk_fresh_reports (sb : list C03Incr.fgact) (cur : str) (evs : list lk_event) : list str :=
  match evs with
  | [] => []
  | LkEdit c :: r => lk_fresh_reports sb c r
  | LkReplace c :: r => lk_fresh_reports sb c r
  | LkRmOut :: r => lk_fresh_reports sb cur r
  | LkRun :: r => lk_fresh sb cur ++ lk_fresh_reports sb cur r
  end.

(* the same-file way out of filegroupBuilder.Build as it is in the source *)
Definition lk_same_branch : list C03Incr.fgact := C03Incr.fg_same_branch.

(* a case of the harness: a history performed with the real binary on a real tree (c0 = the first content); obs = per
   invocation, the content whose fresh-copy report equals the report printed (the harness knows the report of a fresh
   copy for every content it uses) *)
Inductive link_case := LinkHist (c0 : str) (evs : list lk_event) (obs : list str).

Definition link_check_with (sb : list C03Incr.fgact) (c : link_case) : bool :=
  match c with
  | LinkHist c0 evs obs => list_eqb str_eqb (lk_runs sb (lk_init c0) evs) obs
  end.
