(* C16/C17/C18 - the BUILD language: fuel-based big-step evaluator.  No proofs here.

   `eval d` with d = Asp follows src/parse/asp (interpreter.go: interpretStatements, interpretExpression,
   interpretOps (Model/C16_Ops.v flat_ops), interpretValueExpression, interpretList, comprehensions,
   interpretIdentStatement, pyFunc.Call / callNative / validateType; objects.go: the Operator methods,
   IndexAssign, Freeze; builtins.go: the native builtins; Subinclude with its frozen, cached globals;
   optimiseExpressions' constant folding of list literals in subincluded files).
   With d = Py the SAME evaluator runs the same AST with CPython's semantics at the points where the two
   differ (grouping of operator chains, int arithmetic, ==, in, str() of containers, list + and slicing
   copy, += on lists mutates, dict order, range), which is the reference the property compares with. *)
From Coq Require Import String.
From PlzV Require Import Base.Harness Model.C16_Syntax Model.C16_Ops Model.C16_Prim.
Local Open Scope Z_scope.

Notation "'do' x <- m ; k" := (rbind m (fun x => k)) (at level 200, x binder, m at level 100, k at level 200, right associativity).

Definition M (A : Type) := state -> res (A * state).

Fixpoint mapM {A B} (g : A -> state -> res (B * state)) (l : list A) (st : state) : res (list B * state) :=
  match l with
  | [] => Ok ([], st)
  | x :: r => do '(y, st1) <- g x st; do '(ys, st2) <- mapM g r st1; Ok (y :: ys, st2)
  end.

Fixpoint mapR {A B} (g : A -> res B) (l : list A) : res (list B) :=
  match l with
  | [] => Ok []
  | x :: r => do y <- g x; do ys <- mapR g r; Ok (y :: ys)
  end.

Fixpoint assoc_get {A} (n : str) (l : list (str * A)) : option A :=
  match l with [] => None | (k, v) :: r => if str_eqb n k then Some v else assoc_get n r end.

Definition as_list (v : value) : option slice :=
  match v with VList sl | VFrozenList sl => Some sl | _ => None end.

Section Dialect.
Variable d : dialect.

(* ---------------------------------------------------------------- String() / str() *)
Definition py_quote (x : str) : res str :=
  if forallb is_ascii_plain x then Ok (39%N :: x ++ [39%N]) else Err EUnsupported.

(* top = true: str(v); top = false: the element of a container (CPython then uses repr) *)
Fixpoint vstr (fuel : nat) (st : state) (top : bool) (v : value) : res str :=
  match fuel with
  | O => OutOfFuel
  | S f =>
      match v with
      | VInt z => Ok (z_to_str z)
      | VStr x => if is_py d && negb top then py_quote x else Ok x
      | VBool b => Ok (if b then s "True" else s "False")
      | VNone => Ok (s "None")
      | VNilList => Ok (s "[]")
      | VList sl | VFrozenList sl =>
          do items <- mapR (vstr f st false) (list_items d st sl);
          Ok (s "[" ++ str_join (if is_py d then s ", " else s " ") items ++ s "]")
      | VDict i | VFrozenDict i =>
          do items <- mapR (fun kv => do x <- vstr f st false (snd kv);
                                      if is_py d then do k <- py_quote (fst kv); Ok (k ++ s ": " ++ x)
                                      else Ok (s """" ++ fst kv ++ s """: " ++ x))
                           (dict_enum d (dict_of st i));
          Ok (s "{" ++ str_join (s ", ") items ++ s "}")
      | VRange a b c => Ok (s "range(" ++ z_to_str a ++ s ", " ++ z_to_str b ++ s ", " ++ z_to_str c ++ s ")")
      | VFunc i => Ok (s "<function " ++ f_name (nth i (funcs st) (Func [] [] [] 0%nat)) ++ s ">")
      | VBuiltin n => Ok (s "<function " ++ n ++ s ">")
      end
  end.

(* ---------------------------------------------------------------- == *)
(* asp: reflect.DeepEqual on the two interface values; CPython: == *)
Fixpoint veq (fuel : nat) (st : state) (a b : value) : res bool :=
  match fuel with
  | O => OutOfFuel
  | S f =>
      let lists (s1 s2 : slice) :=
        let l1 := list_items d st s1 in
        let l2 := list_items d st s2 in
        if negb (Nat.eqb (length l1) (length l2)) then Ok false
        else (fix go (l1 l2 : list value) : res bool :=
                match l1, l2 with
                | x :: r1, y :: r2 => do e <- veq f st x y; if e then go r1 r2 else Ok false
                | _, _ => Ok true
                end) l1 l2 in
      let dictsq (i j : nat) :=
        let d1 := dict_of st i in
        let d2 := dict_of st j in
        if negb (Nat.eqb (length d1) (length d2)) then Ok false
        else (fix go (l : list (str * value)) : res bool :=
                match l with
                | [] => Ok true
                | (k, x) :: r => match env_get k d2 with
                                 | None => Ok false
                                 | Some y => do e <- veq f st x y; if e then go r else Ok false
                                 end
                end) d1 in
      match d with
      | Asp =>
          match a, b with
          | VInt x, VInt y => Ok (x =? y)
          | VStr x, VStr y => Ok (str_eqb x y)
          | VBool x, VBool y => Ok (Bool.eqb x y)
          | VNone, VNone => Ok true
          | VList s1, VList s2 => lists s1 s2
          | VFrozenList s1, VFrozenList s2 => lists s1 s2
          | VNilList, VNilList => Ok true
          | VDict i, VDict j => dictsq i j
          | VFrozenDict i, VFrozenDict j => dictsq i j
          | VRange a1 b1 c1, VRange a2 b2 c2 => Ok ((a1 =? a2) && (b1 =? b2) && (c1 =? c2))
          | VFunc i, VFunc j => if Nat.eqb i j then Ok true else Err EUnsupported
          | VBuiltin x, VBuiltin y => if str_eqb x y then Ok true else Err EUnsupported
          | _, _ => Ok false        (* different dynamic types, e.g. pyFrozenList against pyList, pyInt against pyBool *)
          end
      | Py =>
          let num (v : value) : option Z := match v with VInt z => Some z | VBool b => Some (if b then 1 else 0) | _ => None end in
          match num a, num b with
          | Some x, Some y => Ok (x =? y)
          | _, _ =>
              match a, b with
              | VStr x, VStr y => Ok (str_eqb x y)
              | VNone, VNone => Ok true
              | (VList s1 | VFrozenList s1), (VList s2 | VFrozenList s2) => lists s1 s2
              | (VDict i | VFrozenDict i), (VDict j | VFrozenDict j) => dictsq i j
              | VFunc i, VFunc j => Ok (Nat.eqb i j)
              | VBuiltin x, VBuiltin y => Ok (str_eqb x y)
              | _, _ => Ok false
              end
          end
      end
  end.

(* ---------------------------------------------------------------- < > <= >= *)
Definition cmp_by (o : binop) (c : comparison) : bool :=
  match o, c with
  | Lt, Datatypes.Lt => true | Gt, Datatypes.Gt => true
  | Le, (Datatypes.Lt | Datatypes.Eq) => true | Ge, (Datatypes.Gt | Datatypes.Eq) => true
  | _, _ => false
  end.

Fixpoint vcmp (fuel : nat) (st : state) (o : binop) (a b : value) : res bool :=
  match fuel with
  | O => OutOfFuel
  | S f =>
      match d with
      | Asp =>
          match a, b with
          | VInt x, VInt y => Ok (cmp_by o (Z.compare x y))
          | VStr x, VStr y => Ok (cmp_by o (str_cmp x y))
          | (VList s1 | VFrozenList s1), VList s2 =>
              (* pyList.Operator(LessThan): the only comparison a list implements *)
              match o with
              | Lt =>
                  let operatable (v : value) := match v with VBool _ | VNone | VFunc _ | VBuiltin _ | VNilList => false | _ => true end in
                  (fix go (l1 l2 : list value) : res bool :=
                     match l1 with
                     | [] => Ok (match l2 with [] => false | _ => true end)
                     | x :: r1 =>
                         match l2 with
                         | [] => Ok false
                         | y :: r2 =>
                             if negb (operatable x && operatable y) then Err EType else
                             do gt <- vcmp f st Lt y x;
                             if gt then Ok false else
                             do lt <- vcmp f st Lt x y;
                             if lt then Ok true else go r1 r2
                         end
                     end) (list_items d st s1) (list_items d st s2)
              | _ => Err EType
              end
          | _, _ => Err EType
          end
      | Py =>
          let num (v : value) : option Z := match v with VInt z => Some z | VBool b => Some (if b then 1 else 0) | _ => None end in
          match num a, num b with
          | Some x, Some y => Ok (cmp_by o (Z.compare x y))
          | _, _ =>
              match a, b with
              | VStr x, VStr y => Ok (cmp_by o (str_cmp x y))
              | (VList s1 | VFrozenList s1), (VList s2 | VFrozenList s2) =>
                  (fix go (l1 l2 : list value) : res bool :=
                     match l1, l2 with
                     | [], [] => Ok (cmp_by o Datatypes.Eq)
                     | [], _ :: _ => Ok (cmp_by o Datatypes.Lt)
                     | _ :: _, [] => Ok (cmp_by o Datatypes.Gt)
                     | x :: r1, y :: r2 =>
                         do e <- veq f st x y;
                         if e then go r1 r2 else vcmp f st o x y
                     end) (list_items d st s1) (list_items d st s2)
              | _, _ => Err EType
              end
          end
      end
  end.

(* ---------------------------------------------------------------- `in` *)
(* asp pyList.Operator(In): Go interface equality `item == operand` - a run-time panic when both are of
   the same uncomparable dynamic type (slices, maps) *)
Definition iface_eq (a b : value) : res bool :=
  match a, b with
  | VInt x, VInt y => Ok (x =? y)
  | VStr x, VStr y => Ok (str_eqb x y)
  | VBool x, VBool y => Ok (Bool.eqb x y)
  | VNone, VNone => Ok true
  | VList _, VList _ | VFrozenList _, VFrozenList _ | VNilList, VNilList | VNilList, VList _ | VList _, VNilList
  | VDict _, VDict _ | VFrozenDict _, VFrozenDict _ => Err EType
  | VRange _ _ _, VRange _ _ _ | VFunc _, VFunc _ | VBuiltin _, VBuiltin _ => Err EUnsupported (* pointer identity *)
  | _, _ => Ok false
  end.

Definition vin (fuel : nat) (st : state) (x container : value) : res bool :=
  match container with
  | VList sl | VFrozenList sl =>
      (fix go (l : list value) : res bool :=
         match l with
         | [] => Ok false
         | y :: r => do e <- (match d with Asp => iface_eq y x | Py => veq fuel st y x end); if e then Ok true else go r
         end) (list_items d st sl)
  | VNilList => Ok false
  | VStr hay => match x with VStr n => Ok (str_contains n hay) | _ => Err EType end
  | VDict i | VFrozenDict i =>
      match x with
      | VStr k => Ok (match env_get k (dict_of st i) with Some _ => true | None => false end)
      | VList _ | VFrozenList _ | VDict _ | VFrozenDict _ | VNilList => match d with Asp => Ok false | Py => Err EType end
      | _ => Ok false
      end
  | _ => Err EType
  end.

(* ---------------------------------------------------------------- % formatting (only %s, %d, %%) *)
Fixpoint fmt_go (fuel : nat) (st : state) (f : str) (args : list value) : res str :=
  match f with
  | [] => match args with [] => Ok [] | _ => Err (match d with Asp => EUnsupported | Py => EType end) end
  | 37%N :: 37%N :: r => do x <- fmt_go fuel st r args; Ok (37%N :: x)
  | 37%N :: 115%N :: r =>      (* %s *)
      match args with
      | a :: ar => do x <- vstr fuel st true a; do y <- fmt_go fuel st r ar; Ok (x ++ y)
      | [] => Err (match d with Asp => EUnsupported | Py => EType end)
      end
  | 37%N :: 100%N :: r =>      (* %d *)
      match args with
      | VInt z :: ar => do y <- fmt_go fuel st r ar; Ok (z_to_str z ++ y)
      | _ => Err (match d with Asp => EUnsupported | Py => EType end)
      end
  | 37%N :: _ => Err EUnsupported
  | c :: r => do x <- fmt_go fuel st r args; Ok (c :: x)
  end.

(* ---------------------------------------------------------------- index, slices *)
(* pyIndex *)
Definition py_index (len : nat) (i : Z) (is_slice : bool) : res Z :=
  let l := Z.of_nat len in
  if i <? 0 then Ok (l + i)
  else if i >? l then (if is_slice then Ok l else Err EType)
  else Ok i.

Definition vindex (st : state) (obj idx : value) : res value :=
  match obj with
  | VList sl | VFrozenList sl =>
      match idx with
      | VInt i =>
          let items := list_items d st sl in
          do j <- py_index (length items) i false;
          if (0 <=? j) && (j <? Z.of_nat (length items)) then Ok (nth (Z.to_nat j) items VNone) else Err EType
      | VBool b => match d with
                   | Py => let items := list_items d st sl in
                           if Nat.ltb (if b then 1 else 0)%nat (length items) then Ok (nth (if b then 1 else 0)%nat items VNone) else Err EType
                   | Asp => Err EType
                   end
      | _ => Err EType
      end
  | VStr x =>
      match idx with
      | VInt i =>
          let rs := runes x in
          do j <- py_index (length rs) i false;
          if (0 <=? j) && (j <? Z.of_nat (length rs)) then Ok (VStr (nth (Z.to_nat j) rs [])) else Err EType
      | _ => Err EType
      end
  | VDict i | VFrozenDict i =>
      match idx with
      | VStr k => match env_get k (dict_of st i) with Some v => Ok v | None => Err EType end
      | _ => Err EType
      end
  | _ => Err EType
  end.

(* interpretSlice: obj[lo:hi] *)
Definition vslice (st : state) (obj : value) (lo hi : option value) : res (value * state) :=
  let bound (len : nat) (o : option value) (def : Z) : res Z :=
    match o with
    | None => Ok def
    | Some (VInt i) => py_index len i true
    | Some _ => Err EType
    end in
  match d with
  | Asp =>
      match obj with
      | VList sl =>      (* `case pyList`: a pyFrozenList is "Unsliceable type list" *)
          do a <- bound (s_len sl) lo 0;
          do b <- bound (s_len sl) hi (Z.of_nat (s_len sl));
          (* Go t[a:b]: 0 <= a <= b <= cap(t); b <= len(t) here *)
          if (0 <=? a) && (a <=? b) then
            Ok (VList (Slice (s_arr sl) (s_off sl + Z.to_nat a)%nat (Z.to_nat (b - a)) (s_cap sl - Z.to_nat a)%nat), st)
          else Err EType
      | VStr x =>
          (* indices are normalised against the RUNE count, the slice is taken on BYTES *)
          let n := rune_count x in
          do a <- bound n lo 0;
          do b <- bound n hi (Z.of_nat n);
          if (0 <=? a) && (a <=? b) then Ok (VStr (firstn (Z.to_nat (b - a)) (skipn (Z.to_nat a) x)), st) else Err EType
      | _ => Err EType
      end
  | Py =>
      let clamp (len : nat) (o : option value) (def : Z) : res Z :=
        match o with
        | None => Ok def
        | Some (VInt i) => let l := Z.of_nat len in
                           let j := if i <? 0 then l + i else i in
                           Ok (Z.max 0 (Z.min l j))
        | Some _ => Err EType
        end in
      match obj with
      | VList sl | VFrozenList sl =>
          let items := list_items d st sl in
          do a <- clamp (length items) lo 0;
          do b <- clamp (length items) hi (Z.of_nat (length items));
          let '(r, st1) := alloc_list (firstn (Z.to_nat (b - a)) (skipn (Z.to_nat a) items)) 0%nat st in
          Ok (VList r, st1)
      | VStr x =>
          let rs := runes x in
          do a <- clamp (length rs) lo 0;
          do b <- clamp (length rs) hi (Z.of_nat (length rs));
          Ok (VStr (str_concat (firstn (Z.to_nat (b - a)) (skipn (Z.to_nat a) rs))), st)
      | _ => Err EType
      end
  end.

(* indexAssign *)
Definition vindex_assign (st : state) (obj idx v : value) : res state :=
  match obj with
  | VList sl =>
      match idx with
      | VInt i =>
          let n := list_len d st sl in
          let j := match d with Asp => i | Py => if i <? 0 then Z.of_nat n + i else i end in
          if (0 <=? j) && (j <? Z.of_nat n) then
            Ok (arr_write (s_arr sl) (match d with Asp => s_off sl + Z.to_nat j | Py => Z.to_nat j end)%nat [v] st)
          else Err EType
      | _ => Err EType
      end
  | VDict i => match idx with VStr k => Ok (dict_store i k v st) | _ => Err EType end
  | _ => Err EType          (* pyFrozenList / pyFrozenDict: "list is immutable"; everything else is not indexAssignable *)
  end.

(* ---------------------------------------------------------------- strict binary operators *)
Definition repeat_items (n : nat) (l : list value) : list value := concat (repeat l n).

Definition apply_bin (fuel : nat) (o : binop) (a b : value) (st : state) : res (value * state) :=
  let bool_of (r : res bool) (neg : bool) : res (value * state) := do x <- r; Ok (VBool (xorb neg x), st) in
  match o with
  | Eq => bool_of (veq fuel st a b) false
  | Ne => bool_of (veq fuel st a b) true
  | Is | IsNot =>
      (* interpretIs: only None and the booleans *)
      let r := match a, b with
               | VNone, VNone => Ok true
               | VBool x, VBool y => Ok (Bool.eqb x y)
               | (VNone | VBool _), _ => Ok false
               | _, _ => match d with Asp => Ok false | Py => Err EUnsupported end
               end in
      bool_of r (match o with IsNot => true | _ => false end)
  | In => bool_of (vin fuel st a b) false
  | NotIn => bool_of (vin fuel st a b) true
  | And | Or => Err EUnsupported     (* lazy: handled by the chain evaluation *)
  | _ =>
      let num (v : value) : option Z :=
        match v with VInt z => Some z | VBool x => if is_py d then Some (if x then 1 else 0) else None | _ => None end in
      match a with
      | VInt _ | VBool _ =>
          match num a with
          | None => Err EType          (* asp: pyBool is not operatable *)
          | Some x =>
              match b with
              | VInt _ | VBool _ =>
                  match num b with
                  | None => Err EType
                  | Some y =>
                      match int_op d o x y with
                      | IOk z => Ok (VInt z, st)
                      | IBool r => Ok (VBool r, st)
                      | IErr => Err EType
                      | IUnsup => Err EUnsupported
                      | IFloat => Err EFloat
                      end
                  end
              | VStr y => match o with
                          | Mul => if x <? 0 then (if is_py d then Ok (VStr [], st) else Err EType)
                                   else if x >? 4096 then Err EUnsupported else Ok (VStr (str_repeat (Z.to_nat x) y), st)
                          | _ => Err EType
                          end
              | VList sl =>
                  match o with
                  | Mul => if x <? 0 then (if is_py d then let '(r, st1) := alloc_list [] 0%nat st in Ok (VList r, st1) else Err EType)
                           else if x >? 256 then Err EUnsupported
                           else let items := repeat_items (Z.to_nat x) (list_items d st sl) in
                                let '(r, st1) := alloc_list items (length items) st in Ok (VList r, st1)
                  | _ => Err EType
                  end
              | _ => Err EType      (* includes pyFrozenList: `case pyList` does not match it *)
              end
          end
      | VStr x =>
          match o with
          | Add => match b with VStr y => Ok (VStr (x ++ y), st) | _ => Err EType end
          | Mul => match b with
                   | VInt n => if n <? 0 then (if is_py d then Ok (VStr [], st) else Err EType)
                               else if n >? 4096 then Err EUnsupported else Ok (VStr (str_repeat (Z.to_nat n) x), st)
                   | _ => Err EType
                   end
          | Lt | Gt | Le | Ge => match b with VStr y => Ok (VBool (cmp_by o (str_cmp x y)), st) | _ => Err EType end
          | Mod =>
              let args := match b with
                          | VStr _ | VInt _ => Ok [b]
                          | VList sl => match d with Asp => Ok (list_items d st sl) | Py => Ok [b] end
                          | VFrozenList _ => match d with Asp => Err EType | Py => Ok [b] end
                          | _ => match d with Asp => Err EType | Py => Ok [b] end
                          end in
              do l <- args; do r <- fmt_go fuel st x l; Ok (VStr r, st)
          | _ => Err EType
          end
      | VList sl | VFrozenList sl =>
          match o with
          | Add => match b with
                   | VList s2 | VFrozenList s2 =>
                       let '(r, st1) := list_add d sl (list_items d st s2) st in Ok (VList r, st1)
                   | _ => Err EType
                   end
          | Mul => match b with
                   | VInt n => if n <? 0 then (if is_py d then let '(r, st1) := alloc_list [] 0%nat st in Ok (VList r, st1) else Err EType)
                               else if n >? 256 then Err EUnsupported
                               else let items := repeat_items (Z.to_nat n) (list_items d st sl) in
                                    let '(r, st1) := alloc_list items (length items) st in Ok (VList r, st1)
                   | _ => Err EType
                   end
          | Lt | Gt | Le | Ge => bool_of (vcmp fuel st o a b) false
          | _ => Err EType
          end
      | VDict i | VFrozenDict i =>
          match o with
          | Union => match b with
                     | VDict j => let merged := fold_left (fun acc kv => env_set (fst kv) (snd kv) acc) (dict_of st j) (dict_of st i) in
                                  let '(n, st1) := alloc_dict merged st in Ok (VDict n, st1)
                     | VFrozenDict j => match d with
                                        | Asp => Err EType
                                        | Py => let merged := fold_left (fun acc kv => env_set (fst kv) (snd kv) acc) (dict_of st j) (dict_of st i) in
                                                let '(n, st1) := alloc_dict merged st in Ok (VDict n, st1)
                                        end
                     | _ => Err EType
                     end
          | _ => Err EType
          end
      | VRange _ _ _ => match o, b with Add, VList _ => Err EUnsupported | _, _ => Err EType end
      | _ => Err EType
      end
  end.

Definition apply_un (u : unop) (st : state) (v : value) : res value :=
  match u with
  | Not => Ok (VBool (negb (truthy d st v)))
  | Neg => match v with
           | VInt z => Ok (VInt (match d with Asp => wrap64 (- z) | Py => - z end))
           | VBool b => match d with Py => Ok (VInt (if b then -1 else 0)) | Asp => Err EType end
           | _ => Err EType
           end
  end.

(* ---------------------------------------------------------------- iteration *)
(* iterable.Iter(): lists (frozen or not) and ranges; the elements are read when the loop starts here,
   the modelled fragment never writes to a list while it iterates over it *)
Definition iter_items (st : state) (v : value) : res (list value) :=
  match v with
  | VList sl | VFrozenList sl => Ok (list_items d st sl)
  | VNilList => Ok []
  | VRange a b c => range_items d a b c
  | _ => Err EType
  end.

(* scope.unpackNames *)
Definition unpack_names (names : list str) (v : value) (st : state) : res state :=
  match names with
  | [n] => Ok (set_var n v st)
  | _ =>
      match v with
      | VList sl | VFrozenList sl =>
          match v, d with
          | VFrozenList _, Asp => Err EType       (* obj.(pyList) fails on the frozen wrapper *)
          | _, _ =>
              let items := list_items d st sl in
              if Nat.eqb (length items) (length names)
              then Ok (fold_left (fun acc nv => set_var (fst nv) (snd nv) acc) (combine names items) st)
              else Err EType
          end
      | _ => Err EType
      end
  end.

(* ---------------------------------------------------------------- sorting *)
(* sort.Slice on at most 12 elements is insertionSortLessFunc: for i := 1..n-1, for j := i; j > 0 && less(j, j-1); j-- swap *)
Fixpoint ins_left (less : value -> value -> res bool) (x : value) (rev_sorted : list value) : res (list value) :=
  (* rev_sorted: the sorted prefix, LAST element first; returns the new prefix in the same representation *)
  match rev_sorted with
  | [] => Ok [x]
  | y :: r => do lt <- less x y; if lt then do r' <- ins_left less x r; Ok (y :: r') else Ok (x :: rev_sorted)
  end.
Definition insertion_sort (less : value -> value -> res bool) (l : list value) : res (list value) :=
  do r <- (fix go (l acc : list value) : res (list value) :=
             match l with [] => Ok acc | x :: rest => do acc' <- ins_left less x acc; go rest acc' end) l [];
  Ok (rev r).

(* ---------------------------------------------------------------- Freeze *)
Fixpoint freeze (fuel : nat) (v : value) (st : state) : res (value * state) :=
  match fuel with
  | O => OutOfFuel
  | S f =>
      match v with
      | VList sl | VFrozenList sl =>
          (* pyList.Freeze builds a frozen copy of the elements and then returns pyFrozenList{pyList: l}: the
             ORIGINAL slice in a wrapper; the elements stay as they are *)
          Ok (VFrozenList sl, st)
      | VDict i | VFrozenDict i =>
          (* pyDict.Freeze returns the copy, with every freezable value frozen *)
          do '(kvs, st1) <- mapM (fun kv st0 => do '(x, st') <- freeze f (snd kv) st0; Ok ((fst kv, x), st')) (dict_of st i) st;
          let '(n, st2) := alloc_dict kvs st1 in
          Ok (VFrozenDict n, st2)
      | _ => Ok (v, st)
      end
  end.

(* scope.Freeze over the locals of a file scope *)
Definition freeze_env (fuel : nat) (e : env) (st : state) : res (env * state) :=
  mapM (fun kv st0 => do '(x, st') <- freeze fuel (snd kv) st0; Ok ((fst kv, x), st')) e st.

(* ---------------------------------------------------------------- rendering (what the hook prints) *)
Fixpoint render (fuel : nat) (st : state) (v : value) : obs :=
  match fuel with
  | O => OOther
  | S f =>
      match v with
      | VInt z => OInt z
      | VStr x => OStr x
      | VBool b => OBool b
      | VNone => ONone
      | VList sl => OList false (s_cap sl - s_len sl)%nat (map (render f st) (list_items d st sl))
      | VFrozenList sl => OList true (s_cap sl - s_len sl)%nat (map (render f st) (list_items d st sl))
      | VNilList => ONil
      | VDict i => ODict false (map (fun kv => (fst kv, render f st (snd kv))) (sort_kvs (dict_of st i)))
      | VFrozenDict i => ODict true (map (fun kv => (fst kv, render f st (snd kv))) (sort_kvs (dict_of st i)))
      | VRange a b c => ORange a b c
      | VFunc i => OFunc (f_name (nth i (funcs st) (Func [] [] [] 0%nat)))
      | VBuiltin n => OFunc n
      end
  end.

Definition render_env (st : state) (e : env) : list (str * obs) :=
  map (fun kv => (fst kv, render 64%nat st (snd kv))) (sort_kvs e).

(* ---------------------------------------------------------------- constants *)
(* scope.Constant: literals, and list literals all of whose elements are constant.  cconst says whether the
   expression is one; const_alloc evaluates it (interpretValueExpression on it has no other effect). *)
Fixpoint is_const (fuel : nat) (e : expr) : bool :=
  match fuel with
  | O => false
  | S f =>
      match e with
      | Ex (XInt _ | XStr _ | XTrue | XFalse | XNone | XConst _) [] None => true
      | Ex (XList es) [] None => forallb (is_const f) es
      | _ => false
      end
  end.

Fixpoint const_alloc (fuel : nat) (e : expr) (st : state) : res (value * state) :=
  match fuel with
  | O => OutOfFuel
  | S f =>
      match e with
      | Ex (XInt z) [] None => Ok (VInt z, st)
      | Ex (XStr x) [] None => Ok (VStr x, st)
      | Ex XTrue [] None => Ok (VBool true, st)
      | Ex XFalse [] None => Ok (VBool false, st)
      | Ex XNone [] None => Ok (VNone, st)
      | Ex (XConst k) [] None => Ok (nth k (consts st) VNone, st)
      | Ex (XList es) [] None =>
          do '(vs, st1) <- mapM (const_alloc f) es st;
          let '(r, st2) := alloc_list vs (length vs) st1 in Ok (VList r, st2)
      | _ => Err EUnsupported
      end
  end.

(* optimiseExpressions (interpreter.go:271) on a subincluded file: every Expression that is a constant LIST
   literal becomes optimised.Constant - evaluated once, when the file is loaded.  (Scalar constants are folded
   too; that is unobservable and not modelled.)  The pass returns the rewritten tree and the constant
   expressions in the order of their numbers base, base+1, ... *)
Definition is_const_list (e : expr) : bool :=
  match e with Ex (XList (_ :: _)) [] None => is_const 32%nat e | _ => false end.

Fixpoint opt_expr (fuel : nat) (base : nat) (e : expr) (acc : list expr) : expr * list expr :=
  match fuel with
  | O => (e, acc)
  | S f =>
      if is_const_list e then (Ex (XConst (base + length acc)%nat) [] None, acc ++ [e])
      else
        match e with
        | Ex v ops iff =>
            let '(v', acc1) := opt_vexpr f base v acc in
            let '(ops', acc2) :=
              fold_left (fun '(l, a) i => match i with
                                          | OBin o x =>
                                              (* the operand is an Expression of its own: it can be a constant *)
                                              let '(x', a') := opt_operand f base x a in (l ++ [OBin o x'], a')
                                          | OUn u => (l ++ [OUn u], a)
                                          end) ops ([], acc1) in
            let '(iff', acc3) :=
              match iff with
              | None => (None, acc2)
              | Some (c, e2) => let '(c', a1) := opt_expr f base c acc2 in
                                let '(e2', a2) := opt_expr f base e2 a1 in (Some (c', e2'), a2)
              end in
            (Ex v' ops' iff', acc3)
        end
  end
with opt_operand (fuel : nat) (base : nat) (x : vexpr) (acc : list expr) : vexpr * list expr :=
  match fuel with
  | O => (x, acc)
  | S f =>
      if is_const_list (Ex x [] None) then (XConst (base + length acc)%nat, acc ++ [Ex x [] None])
      else opt_vexpr f base x acc
  end
with opt_vexpr (fuel : nat) (base : nat) (x : vexpr) (acc : list expr) : vexpr * list expr :=
  match fuel with
  | O => (x, acc)
  | S f =>
      let exprs (es : list expr) (a : list expr) : list expr * list expr :=
        fold_left (fun '(l, a0) e => let '(e', a1) := opt_expr f base e a0 in (l ++ [e'], a1)) es ([], a) in
      let oexpr (o : option expr) (a : list expr) : option expr * list expr :=
        match o with None => (None, a) | Some e => let '(e', a1) := opt_expr f base e a in (Some e', a1) end in
      match x with
      | XList es => let '(es', a) := exprs es acc in (XList es', a)
      | XComp e names it cond =>
          let '(e', a1) := opt_expr f base e acc in
          let '(it', a2) := opt_expr f base it a1 in
          let '(c', a3) := oexpr cond a2 in (XComp e' names it' c', a3)
      | XDict kvs =>
          let '(kvs', a) := fold_left (fun '(l, a0) kv => let '(k', a1) := opt_expr f base (fst kv) a0 in
                                                         let '(v', a2) := opt_expr f base (snd kv) a1 in
                                                         (l ++ [(k', v')], a2)) kvs ([], acc) in
          (XDict kvs', a)
      | XParen e => let '(e', a) := opt_expr f base e acc in (XParen e', a)
      | XCall n args =>
          let '(args', a) := fold_left (fun '(l, a0) na => let '(e', a1) := opt_expr f base (snd na) a0 in
                                                          (l ++ [(fst na, e')], a1)) args ([], acc) in
          (XCall n args', a)
      | XMeth b m args =>
          let '(b', a1) := opt_vexpr f base b acc in
          let '(args', a2) := exprs args a1 in (XMeth b' m args', a2)
      | XIndex b i => let '(b', a1) := opt_vexpr f base b acc in
                      let '(i', a2) := opt_expr f base i a1 in (XIndex b' i', a2)
      | XSlice b lo hi => let '(b', a1) := opt_vexpr f base b acc in
                          let '(lo', a2) := oexpr lo a1 in
                          let '(hi', a3) := oexpr hi a2 in (XSlice b' lo' hi', a3)
      | _ => (x, acc)
      end
  end.

Fixpoint opt_stmts (fuel : nat) (base : nat) (ss : list stmt) (acc : list expr) : list stmt * list expr :=
  match fuel with
  | O => (ss, acc)
  | S f =>
      let oe := opt_expr 64%nat base in
      fold_left (fun '(l, a) st =>
        let '(st', a') :=
          match st with
          | SAssign n e => let '(e', a1) := oe e a in (SAssign n e', a1)
          | SAug n e => let '(e', a1) := oe e a in (SAug n e', a1)
          | SIdxAssign n i e => let '(i', a1) := oe i a in let '(e', a2) := oe e a1 in (SIdxAssign n i' e', a2)
          | SIdxAug n i e => let '(i', a1) := oe i a in let '(e', a2) := oe e a1 in (SIdxAug n i' e', a2)
          | SUnpack ns e => let '(e', a1) := oe e a in (SUnpack ns e', a1)
          | SIf c body elifs els =>
              let '(c', a1) := oe c a in
              let '(body', a2) := opt_stmts f base body a1 in
              let '(elifs', a3) := fold_left (fun '(l0, a0) cb => let '(c0, b1) := oe (fst cb) a0 in
                                                                 let '(b0, b2) := opt_stmts f base (snd cb) b1 in
                                                                 (l0 ++ [(c0, b0)], b2)) elifs ([], a2) in
              let '(els', a4) := opt_stmts f base els a3 in
              (SIf c' body' elifs' els', a4)
          | SFor ns it body => let '(it', a1) := oe it a in
                               let '(body', a2) := opt_stmts f base body a1 in (SFor ns it' body', a2)
          | SDef n args body =>
              let '(args', a1) := fold_left (fun '(l0, a0) na => match snd na with
                                                                  | None => (l0 ++ [na], a0)
                                                                  | Some e => let '(e', b1) := oe e a0 in (l0 ++ [(fst na, Some e')], b1)
                                                                  end) args ([], a) in
              let '(body', a2) := opt_stmts f base body a1 in (SDef n args' body', a2)
          | SReturn (Some e) => let '(e', a1) := oe e a in (SReturn (Some e'), a1)
          | SCall n args =>
              let '(args', a1) := fold_left (fun '(l0, a0) na => let '(e', b1) := oe (snd na) a0 in
                                                                (l0 ++ [(fst na, e')], b1)) args ([], a) in
              (SCall n args', a1)
          | SAssert e => let '(e', a1) := oe e a in (SAssert e', a1)
          | _ => (st, a)
          end in
        (l ++ [st'], a')) ss ([], acc)
  end.

(* Parser.optimise drops statements that have no effect *)
Fixpoint drop_pass (fuel : nat) (ss : list stmt) : list stmt :=
  match fuel with
  | O => ss
  | S f =>
      flat_map (fun st => match st with
                          | SPass => []
                          | SIf c b elifs els => [SIf c (drop_pass f b) (map (fun cb => (fst cb, drop_pass f (snd cb))) elifs) (drop_pass f els)]
                          | SFor ns it b => [SFor ns it (drop_pass f b)]
                          | SDef n a b => [SDef n a (drop_pass f b)]
                          | _ => [st]
                          end) ss
  end.

(* ---------------------------------------------------------------- native builtins *)
(* signature: argument names with their declared type mask (0 = untyped) and default *)
Definition T_list : N := 16.   Definition T_str : N := 8.   Definition T_int : N := 4.
Definition T_bool : N := 2.    Definition T_dict : N := 32. Definition T_func : N := 64.

Definition native_sig (n : str) : option (list (str * N * option value) * bool (* varargs *)) :=
  let one (a : str) (t : N) := Some ([(a, t, None)], false) in
  if str_eqb n (s "len") then one (s "obj") (T_list + T_dict + T_str)%N
  else if str_eqb n (s "enumerate") then one (s "seq") T_list
  else if str_eqb n (s "any") then one (s "seq") T_list
  else if str_eqb n (s "all") then one (s "seq") T_list
  else if str_eqb n (s "reversed") then one (s "seq") T_list
  else if str_eqb n (s "sorted") then Some ([(s "seq", T_list, None); (s "key", T_func, Some VNone); (s "reverse", T_bool, Some (VBool false))], false)
  else if str_eqb n (s "min") then Some ([(s "seq", T_list, None); (s "key", T_func, Some VNone)], false)
  else if str_eqb n (s "max") then Some ([(s "seq", T_list, None); (s "key", T_func, Some VNone)], false)
  else if str_eqb n (s "range") then Some ([(s "start", T_int, None); (s "stop", T_int, Some VNone); (s "step", T_int, Some (VInt 1))], false)
  else if str_eqb n (s "str") then one (s "s") 0%N
  else if str_eqb n (s "bool") then one (s "b") 0%N
  else if str_eqb n (s "zip") then Some ([(s "args", 0%N, None)], true)
  else None.

(* string and dict methods: the same table shape, self first *)
Definition method_sig (n : str) : option (list (str * N * option value)) :=
  if str_eqb n (s "join") then Some [(s "self", T_str, None); (s "seq", T_list, None)]
  else if str_eqb n (s "split") then Some [(s "self", T_str, None); (s "on", T_str, Some (VStr (s " ")))]
  else if str_eqb n (s "startswith") then Some [(s "self", T_str, None); (s "s", T_str, None)]
  else if str_eqb n (s "endswith") then Some [(s "self", T_str, None); (s "s", T_str, None)]
  else if str_eqb n (s "upper") then Some [(s "self", T_str, None)]
  else if str_eqb n (s "lower") then Some [(s "self", T_str, None)]
  else if str_eqb n (s "get") then Some [(s "self", T_dict, None); (s "key", T_str, None); (s "default", 0%N, Some VNone)]
  else if str_eqb n (s "keys") then Some [(s "self", T_dict, None)]
  else if str_eqb n (s "values") then Some [(s "self", T_dict, None)]
  else if str_eqb n (s "items") then Some [(s "self", T_dict, None)]
  else None.
Definition str_methods : list str := [s "join"; s "split"; s "startswith"; s "endswith"; s "upper"; s "lower"].
Definition dict_methods : list str := [s "get"; s "keys"; s "values"; s "items"].

Definition ascii_map (f : N -> N) (x : str) : res str :=
  if forallb (fun b => N.ltb b 128) x then Ok (map f x) else Err EUnsupported.

(* the list argument of the natives that do args[i].(pyList): the frozen wrapper does NOT match *)
Definition strict_list (st : state) (v : value) : res (list value) :=
  match v with
  | VList sl => Ok (list_items d st sl)
  | VFrozenList sl => match d with Asp => Err EType | Py => Ok (list_items d st sl) end
  | VNilList => Ok []
  | _ => Err EType
  end.

Definition new_list (items : list value) (st : state) : value * state :=
  let '(r, st1) := alloc_list items (length items) st in (VList r, st1).

Definition native (fuel : nat) (n : str) (args : list value) (st : state) : res (value * state) :=
  let arg (i : nat) := nth i args VNone in
  if str_eqb n (s "len") then
    match arg 0%nat with
    | VList sl | VFrozenList sl => Ok (VInt (Z.of_nat (list_len d st sl)), st)
    | VNilList => Ok (VInt 0, st)
    | VDict i | VFrozenDict i => Ok (VInt (Z.of_nat (length (dict_of st i))), st)
    | VStr x => Ok (VInt (Z.of_nat (rune_count x)), st)
    | _ => Err EType
    end
  else if str_eqb n (s "str") then do x <- vstr fuel st true (arg 0%nat); Ok (VStr x, st)
  else if str_eqb n (s "bool") then Ok (VBool (truthy d st (arg 0%nat)), st)
  else if str_eqb n (s "enumerate") then
    do l <- strict_list st (arg 0%nat);
    do '(pairs, st1) <- mapM (fun iv st0 => Ok (new_list [VInt (Z.of_nat (fst iv)); snd iv] st0))
                             (combine (seq 0%nat (length l)) l) st;
    Ok (new_list pairs st1)
  else if str_eqb n (s "zip") then
    do ls <- mapR (strict_list st) args;
    match ls with
    | [] => Err EType
    | l0 :: _ =>
        if forallb (fun l => Nat.eqb (length l) (length l0)) ls then
          do '(rows, st1) <- mapM (fun i st0 => Ok (new_list (map (fun l => nth i l VNone) ls) st0)) (seq 0%nat (length l0)) st;
          Ok (new_list rows st1)
        else match d with
             | Asp => Err EType
             | Py => let m := fold_left Nat.min (map (@length value) ls) (length l0) in
                     do '(rows, st1) <- mapM (fun i st0 => Ok (new_list (map (fun l => nth i l VNone) ls) st0)) (seq 0 m) st;
                     Ok (new_list rows st1)
             end
    end
  else if str_eqb n (s "any") then do l <- strict_list st (arg 0%nat); Ok (VBool (existsb (truthy d st) l), st)
  else if str_eqb n (s "all") then do l <- strict_list st (arg 0%nat); Ok (VBool (forallb (truthy d st) l), st)
  else if str_eqb n (s "reversed") then do l <- strict_list st (arg 0%nat); Ok (new_list (rev l) st)
  else if str_eqb n (s "sorted") then
    do l <- strict_list st (arg 0%nat);
    match arg 1%nat, arg 2%nat with
    | VNone, VBool rv =>
        (* beyond 12 elements sort.Slice is pdqsort: which pairs it compares is not modelled, but on a list of ints only
           (or strings only) no comparison can fail and the sorted result is unique *)
        if Nat.ltb 12%nat (length l)
           && negb (forallb (fun v => match v with VInt _ => true | _ => false end) l
                    || forallb (fun v => match v with VStr _ => true | _ => false end) l)
        then Err EUnsupported else
        do r <- insertion_sort (fun x y => vcmp fuel st (if rv then Gt else Lt) x y) l;
        Ok (new_list r st)
    | VNone, _ => Err EType
    | _, _ => Err EUnsupported       (* key= functions are outside the modelled fragment *)
    end
  else if str_eqb n (s "min") || str_eqb n (s "max") then
    do l <- strict_list st (arg 0%nat);
    match arg 1%nat with
    | VNone =>
        match l with
        | [] => Err EType
        | x :: r =>
            let o := if str_eqb n (s "min") then Lt else Gt in
            do best <- (fix go (r : list value) (cur : value) : res value :=
                          match r with
                          | [] => Ok cur
                          | y :: r' => do b <- vcmp fuel st o y cur; go r' (if b then y else cur)
                          end) r x;
            Ok (best, st)
        end
    | _ => Err EUnsupported
    end
  else if str_eqb n (s "range") then
    match arg 0%nat, arg 1%nat, arg 2%nat with
    | VInt a, VInt b, VInt c => match d with
                                | Asp => Ok (VRange a b c, st)
                                | Py => do items <- range_items d a b c; Ok (new_list items st)
                                end
    | VInt a, _, VInt c => match d with       (* stop not an int (not passed): range(0, start) *)
                           | Asp => Ok (VRange 0 a c, st)
                           | Py => do items <- range_items d 0 a c; Ok (new_list items st)
                           end
    | _, _, _ => Err EType
    end
  else Err EUnsupported.

Definition native_method (fuel : nat) (n : str) (args : list value) (st : state) : res (value * state) :=
  let arg (i : nat) := nth i args VNone in
  let strs (l : list str) := new_list (map VStr l) st in
  match arg 0%nat with
  | VStr self =>
      if str_eqb n (s "join") then
        (* asStringList: unwraps the frozen wrapper, then every element must be a string *)
        match as_list (arg 1%nat) with
        | Some sl => do xs <- mapR (fun v => match v with VStr x => Ok x | _ => Err EType end) (list_items d st sl);
                     Ok (VStr (str_join self xs), st)
        | None => Err EType
        end
      else if str_eqb n (s "split") then
        match arg 1%nat with
        | VStr [] => Err (match d with Asp => EUnsupported | Py => EType end)
        | VStr sep => Ok (strs (str_split sep self))
        | _ => Err EType
        end
      else if str_eqb n (s "startswith") then match arg 1%nat with VStr p => Ok (VBool (str_prefix p self), st) | _ => Err EType end
      else if str_eqb n (s "endswith") then match arg 1%nat with VStr p => Ok (VBool (str_suffix p self), st) | _ => Err EType end
      else if str_eqb n (s "upper") then
        do r <- ascii_map (fun b => if N.leb 97 b && N.leb b 122 then (b - 32)%N else b) self; Ok (VStr r, st)
      else if str_eqb n (s "lower") then
        do r <- ascii_map (fun b => if N.leb 65 b && N.leb b 90 then (b + 32)%N else b) self; Ok (VStr r, st)
      else Err EUnsupported
  | VDict i | VFrozenDict i =>
      let kvs := dict_enum d (dict_of st i) in
      if str_eqb n (s "get") then
        match arg 1%nat with
        | VStr k => Ok (match env_get k kvs with Some v => v | None => arg 2%nat end, st)
        | _ => Err EType
        end
      else if str_eqb n (s "keys") then Ok (new_list (map (fun kv => VStr (fst kv)) kvs) st)
      else if str_eqb n (s "values") then Ok (new_list (map (@snd _ _) kvs) st)
      else if str_eqb n (s "items") then
        do '(pairs, st1) <- mapM (fun kv st0 => Ok (new_list [VStr (fst kv); snd kv] st0)) kvs st;
        Ok (new_list pairs st1)
      else Err EUnsupported
  | _ => Err EType
  end.

(* pyFunc.validateType *)
Definition validate (t : N) (def : option value) (v : value) : res value :=
  if N.eqb t 0 then Ok v
  else match v with
       | VNone => match def with None => Ok v | Some dv => Ok dv end
       | _ => if negb (N.eqb (N.land (type_tag v) t) 0) then Ok v else Err EType
       end.

(* ---------------------------------------------------------------- the evaluator *)
Inductive sres := RNone | RRet (v : value) | RBreak | RContinue.

Variable defs : list (str * prog).      (* the subincludable files of the run *)

Definition find_def (n : str) : option prog :=
  (fix go (l : list (str * prog)) := match l with [] => None | (k, p) :: r => if str_eqb n k then Some p else go r end) defs.

Definition items_of (ops : list opitem) : list (item vexpr) := map of_opitem ops.

Definition chain (evalx : vexpr -> state -> res (value * state)) (fuel : nat) (obj : value) (ops : list opitem) (st : state)
  : res (value * state) :=
  (* truthiness and the prefix operators are taken on the state the operand evaluation left: an operand of the
     chain can be an object the chain itself allocated (0 or [1] and 3) *)
  match d with
  | Asp => flat_ops (S := state) evalx (apply_bin fuel) (fun u v st0 => apply_un u st0 v) (fun v st0 => truthy d st0 v) obj (items_of ops) st
  | Py => py_ops (S := state) evalx (apply_bin fuel) (fun u v st0 => apply_un u st0 v) (fun v st0 => truthy d st0 v) obj (items_of ops) st
  end.

Fixpoint eval_expr (fuel : nat) (e : expr) (st : state) {struct fuel} : res (value * state) :=
  match fuel with
  | O => OutOfFuel
  | S f =>
      match e with
      | Ex v ops iff =>
          let main (st0 : state) :=
            do '(obj, st1) <- eval_vexpr f v st0;
            match ops with
            | [] => Ok (obj, st1)
            | _ => chain (eval_vexpr f) f obj ops st1
            end in
          match iff with
          | Some (c, e2) =>
              do '(cv, st1) <- eval_expr f c st;
              if truthy d st1 cv then main st1 else eval_expr f e2 st1
          | None => main st
          end
      end
  end

with eval_vexpr (fuel : nat) (x : vexpr) (st : state) {struct fuel} : res (value * state) :=
  match fuel with
  | O => OutOfFuel
  | S f =>
      match x with
      | XInt z => Ok (VInt z, st)
      | XStr x0 => Ok (VStr x0, st)
      | XTrue => Ok (VBool true, st)
      | XFalse => Ok (VBool false, st)
      | XNone => Ok (VNone, st)
      | XConst k => Ok (nth k (consts st) VNone, st)
      | XIdent n => match lookup n st with Some v => Ok (v, st) | None => Err EType end
      | XParen e => eval_expr f e st
      | XList es =>
          (* evaluateExpressions: make(pyList, len(exprs)); the empty literal is the shared zero-capacity emptyList *)
          do '(vs, st1) <- mapM (eval_expr f) es st;
          Ok (new_list vs st1)
      | XDict kvs =>
          do '(pairs, st1) <- mapM (fun kv st0 => do '(k, st') <- eval_expr f (fst kv) st0;
                                                 do '(v, st'') <- eval_expr f (snd kv) st';
                                                 match k with VStr ks => Ok ((ks, v), st'') | _ => Err EType end) kvs st;
          let '(n, st2) := alloc_dict (fold_left (fun acc kv => env_set (fst kv) (snd kv) acc) pairs []) st1 in
          Ok (VDict n, st2)
      | XComp e names it cond =>
          (* interpretList with a Comprehension: ret := make(pyList, 0, Len(iterable)); a new child scope *)
          do '(itv, st1) <- eval_expr f it st;
          do items <- iter_items st1 itv;
          let hint := match itv with
                      | VRange a b c => range_len a b c      (* pyRange.Len() *)
                      | _ => Z.of_nat (length items)
                      end in
          if hint <? 0 then Err EType else      (* makeslice: cap out of range *)
          let st2 := set_locals ([] :: locals st1) st1 in
          do '(out, st3) <-
             (fix go (l : list value) (acc : list value) (st0 : state) : res (list value * state) :=
                match l with
                | [] => Ok (rev acc, st0)
                | li :: r =>
                    do st' <- unpack_names names li st0;
                    do '(keep, st'') <- match cond with
                                        | None => Ok (true, st')
                                        | Some c => do '(cv, sx) <- eval_expr f c st'; Ok (truthy d sx cv, sx)
                                        end;
                    if keep then do '(v, sy) <- eval_expr f e st''; go r (v :: acc) sy
                    else go r acc st''
                end) items [] st2;
          let st4 := set_locals (tl (locals st3)) st3 in
          if Nat.ltb (Z.to_nat hint) (length out) then Err EUnsupported      (* append would have to grow the array *)
          else let '(r, st5) := alloc_list out (match d with Asp => Z.to_nat hint | Py => 0%nat end) st4 in
               Ok (VList r, st5)
      | XIndex b i =>
          do '(obj, st1) <- eval_vexpr f b st;
          do '(idx, st2) <- eval_expr f i st1;
          do v <- vindex st2 obj idx; Ok (v, st2)
      | XSlice b lo hi =>
          do '(obj, st1) <- eval_vexpr f b st;
          let oe (o : option expr) (st0 : state) : res (option value * state) :=
            match o with None => Ok (None, st0) | Some e => do '(v, st') <- eval_expr f e st0; Ok (Some v, st') end in
          (* interpretSlice evaluates Start, then (inside the type switch) End *)
          do '(lov, st2) <- oe lo st1;
          do '(hiv, st3) <- oe hi st2;
          vslice st3 obj lov hiv
      | XCall n args =>
          match lookup n st with
          | None => Err EType
          | Some fn => call_value f fn n args st
          end
      | XMeth b m args =>
          do '(obj, st1) <- eval_vexpr f b st;
          (* scope.property *)
          let call_m (table : list str) :=
            if existsb (str_eqb m) table then
              match method_sig m with
              | None => Err EUnsupported
              | Some sg =>
                  (* callNative with self: positional arguments, validateType against the declared types *)
                  if Nat.ltb (length sg) (S (length args)) then Err EType else
                  do '(vals, st2) <-
                     (fix go (l : list expr) (sg0 : list (str * N * option value)) (st0 : state) : res (list value * state) :=
                        match sg0 with
                        | [] => Ok ([], st0)
                        | (_, t, def) :: sr =>
                            match l with
                            | e :: r => do '(v, st') <- eval_expr f e st0; do v' <- validate t def v;
                                        do '(vs, st'') <- go r sr st'; Ok (v' :: vs, st'')
                            | [] => match def with
                                    | Some dv => do '(vs, st'') <- go [] sr st0; Ok (dv :: vs, st'')
                                    | None => Err EType
                                    end
                            end
                        end) args (tl sg) st1;
                  native_method f m (obj :: vals) st2
              end
            else if existsb (str_eqb m) (str_methods ++ dict_methods) then Err EType else Err EUnsupported in
          match obj with
          | VStr _ => call_m str_methods
          | VDict i | VFrozenDict i =>
              match env_get m (dict_of st1 i) with
              | Some _ => Err EUnsupported      (* d.key: the member, not the method *)
              | None => call_m dict_methods
              end
          | _ => Err EType                       (* lists, ints ... have no properties *)
          end
      end
  end

(* scope.callObject + pyFunc.Call *)
with call_value (fuel : nat) (fn : value) (name : str) (args : list (option str * expr)) (st : state) {struct fuel}
  : res (value * state) :=
  match fuel with
  | O => OutOfFuel
  | S f =>
      match fn with
      | VBuiltin n =>
          match native_sig n with
          | None =>
              (* map(mapper:function, seq:list), filter(filter:function, seq:list), reduce(reducer:function, seq:list, initializer=None):
                 the natives that call back into the interpreter *)
              if str_eqb n (s "map") || str_eqb n (s "filter") || str_eqb n (s "reduce") then
                let types := [T_func; T_list; 0%N] in
                let nformal := if str_eqb n (s "reduce") then 3%nat else 2%nat in
                if Nat.ltb nformal (length args) || existsb (fun a => match fst a with Some _ => true | None => false end) args then Err EUnsupported else
                do '(vals, st1) <-
                   (fix go (l : list (option str * expr)) (ts : list N) (st0 : state) : res (list value * state) :=
                      match l, ts with
                      | (_, e) :: r, t :: tr =>
                          do '(v, st') <- eval_expr f e st0; do v' <- validate t None v;
                          do '(vs, st'') <- go r tr st'; Ok (v' :: vs, st'')
                      | _, _ => Ok ([], st0)
                      end) args types st;
                if Nat.ltb (length vals) 2 then Err EType else      (* Missing required argument *)
                match nth 0%nat vals VNone with
                | VFunc fid =>
                    do l <- strict_list st1 (nth 1%nat vals VNone);
                    let call1 (xs : list value) (st0 : state) :=
                      let formals := f_args (nth fid (funcs st0) (Func [] [] [] 0%nat)) in
                      if Nat.ltb (length formals) (length xs) then Err EType
                      else run_func f fid (combine (map (@fst _ _) formals) xs) st0 in
                    if str_eqb n (s "map") then
                      do '(out, st2) <- mapM (fun x st0 => call1 [x] st0) l st1;
                      Ok (new_list out st2)
                    else if str_eqb n (s "filter") then
                      do '(keep, st2) <- mapM (fun x st0 => do '(r, st') <- call1 [x] st0; Ok ((truthy d st' r, x), st')) l st1;
                      let out := map (@snd _ _) (filter (@fst _ _) keep) in
                      match out with
                      | [] => match d with Asp => Ok (VNilList, st2) | Py => Ok (new_list [] st2) end   (* var ret pyList; nothing appended *)
                      | _ =>
                          (* append one element at a time from a nil slice: capacities 1, 2, 4, 8, 16 *)
                          let n0 := length out in
                          let cap := if Nat.leb n0 1 then 1%nat else if Nat.leb n0 2 then 2%nat else if Nat.leb n0 4 then 4%nat
                                     else if Nat.leb n0 8 then 8%nat else 16%nat in
                          if Nat.ltb 16 n0 then Err EUnsupported else
                          let '(r, st3) := alloc_list out (match d with Asp => cap | Py => 0%nat end) st2 in Ok (VList r, st3)
                      end
                    else
                      let init := nth 2%nat vals VNone in
                      match l with
                      | [] => Ok (init, st1)
                      | x :: r =>
                          let '(acc0, rest) := match init with VNone => (x, r) | _ => (init, l) end in
                          (fix go (l0 : list value) (acc : value) (st0 : state) : res (value * state) :=
                             match l0 with
                             | [] => Ok (acc, st0)
                             | y :: r0 => do '(acc', st') <- call1 [acc; y] st0; go r0 acc' st'
                             end) rest acc0 st1
                      end
                | VBuiltin _ => Err EUnsupported
                | _ => Err EType
                end
              else Err EUnsupported
          | Some (sg, varargs) =>
              (* callNative *)
              let slots := map (fun _ => @None value) sg in
              do '(filled, extra, st1) <-
                 (fix go (l : list (option str * expr)) (i : nat) (slots : list (option value)) (extra : list value) (st0 : state)
                    : res (list (option value) * list value * state) :=
                    match l with
                    | [] => Ok (slots, extra, st0)
                    | (None, e) :: r =>
                        if Nat.leb (length sg) i then
                          (if varargs then do '(v, st') <- eval_expr f e st0; go r (S i) slots (extra ++ [v]) st' else Err EType)
                        else
                          let '(_, t, def) := nth i sg ([], 0%N, None) in
                          do '(v, st') <- eval_expr f e st0; do v' <- validate t def v;
                          go r (S i) (list_set i (Some v') slots) extra st'
                    | (Some k, e) :: r =>
                        match (fix find (sg0 : list (str * N * option value)) (j : nat) : option nat :=
                                 match sg0 with [] => None | (a, _, _) :: sr => if str_eqb a k then Some j else find sr (S j) end) sg 0%nat with
                        | None => Err EType
                        | Some j =>
                            let '(_, t, def) := nth j sg ([], 0%N, None) in
                            do '(v, st') <- eval_expr f e st0; do v' <- validate t def v;
                            go r (S i) (list_set j (Some v') slots) extra st'
                        end
                    end) args 0%nat slots [] st;
              do vals <- mapR (fun sv => match fst sv with
                                         | Some v => Ok v
                                         | None => match snd sv with (_, _, Some dv) => Ok dv | _ => Err EType end
                                         end) (combine filled sg);
              native f n (vals ++ extra) st1
          end
      | VFunc id =>
          let fd := nth id (funcs st) (Func [] [] [] 0%nat) in
          let formals := f_args fd in
          (* arguments are evaluated in the caller's scope and bound in the new one *)
          do '(bound, st1) <-
             (fix go (l : list (option str * expr)) (i : nat) (acc : env) (st0 : state) : res (env * state) :=
                match l with
                | [] => Ok (acc, st0)
                | (None, e) :: r =>
                    if Nat.leb (length formals) i then Err EType else
                    do '(v, st') <- eval_expr f e st0;
                    go r (S i) (env_set (fst (nth i formals ([], DNo))) v acc) st'
                | (Some k, e) :: r =>
                    if existsb (fun a => str_eqb (fst a) k) formals then
                      do '(v, st') <- eval_expr f e st0; go r (S i) (env_set k v acc) st'
                    else Err EType
                end) args 0%nat [] st;
          run_func f id bound st1
      | _ => Err EType      (* Non-callable object *)
      end
  end

(* the second half of pyFunc.Call: defaults for the arguments not passed, then the body in a new scope whose
   parent is the scope the function was defined in *)
with run_func (fuel : nat) (id : nat) (bound : env) (st1 : state) {struct fuel} : res (value * state) :=
  match fuel with
  | O => OutOfFuel
  | S f =>
      let fd := nth id (funcs st1) (Func [] [] [] 0%nat) in
      let formals := f_args fd in
          do '(full, st2) <-
             (fix go (l : list (str * fdefault)) (acc : env) (st0 : state) : res (env * state) :=
                match l with
                | [] => Ok (acc, st0)
                | (a, df) :: r =>
                    match env_get a acc with
                    | Some _ => go r acc st0
                    | None =>
                        match df with
                        | DNo => Err EType
                        | DConst v => go r (env_set a v acc) st0
                        | DExpr e => do '(v, st') <- eval_expr f e st0; go r (env_set a v acc) st'   (* in the CALLER's scope *)
                        end
                    end
                end) formals bound st1;
          let saved_cur := cur st2 in
          let saved_locals := locals st2 in
          let st3 := set_locals [full] (set_cur (f_scope fd) st2) in
          do '(r, st4) <- exec_block f (f_body fd) st3;
          let st5 := set_locals saved_locals (set_cur saved_cur st4) in
          match r with
          | RRet v => Ok (v, st5)
          | _ => Ok (VNone, st5)
          end
  end

with exec_block (fuel : nat) (ss : list stmt) (st : state) {struct fuel} : res (sres * state) :=
  match fuel with
  | O => OutOfFuel
  | S f =>
      match ss with
      | [] => Ok (RNone, st)
      | s0 :: r =>
          do '(res0, st1) <- exec_stmt f s0 st;
          match res0 with
          | RNone => exec_block f r st1
          | _ => Ok (res0, st1)
          end
      end
  end

with exec_stmt (fuel : nat) (s0 : stmt) (st : state) {struct fuel} : res (sres * state) :=
  match fuel with
  | O => OutOfFuel
  | S f =>
      match s0 with
      | SPass => Ok (RNone, st)
      | SBreak => Ok (RBreak, st)
      | SContinue => Ok (RContinue, st)
      | SAssign n e => do '(v, st1) <- eval_expr f e st; Ok (RNone, set_var n v st1)
      | SAug n e =>
          match lookup n st with
          | None => Err EType
          | Some old =>
              do '(v, st1) <- eval_expr f e st;
              match d, old with
              | Py, VList sl =>
                  (* list.__iadd__: the object itself grows *)
                  match v with
                  | VList s2 | VFrozenList s2 =>
                      let st2 := set_arrays (list_set (s_arr sl) (arr_of st1 (s_arr sl) ++ list_items d st1 s2) (arrays st1)) st1 in
                      Ok (RNone, set_var n old st2)
                  | _ => Err EUnsupported
                  end
              | _, _ =>
                  (* s.Set(name, operator(Add, Lookup(name), value)) *)
                  do '(r, st2) <- apply_bin f Add old v st1; Ok (RNone, set_var n r st2)
              end
          end
      | SIdxAssign n i e =>
          match lookup n st with
          | None => Err EType
          | Some obj =>
              do '(idx, st1) <- eval_expr f i st;
              do '(v, st2) <- eval_expr f e st1;
              do st3 <- vindex_assign st2 obj idx v; Ok (RNone, st3)
          end
      | SIdxAug n i e =>
          match lookup n st with
          | None => Err EType
          | Some obj =>
              do '(idx, st1) <- eval_expr f i st;
              do old <- vindex st1 obj idx;
              do '(v, st2) <- eval_expr f e st1;
              match d, old with
              | Py, VList sl =>
                  match v with
                  | VList s2 | VFrozenList s2 =>
                      let st3 := set_arrays (list_set (s_arr sl) (arr_of st2 (s_arr sl) ++ list_items d st2 s2) (arrays st2)) st2 in
                      do st4 <- vindex_assign st3 obj idx old; Ok (RNone, st4)
                  | _ => Err EUnsupported
                  end
              | _, _ =>
                  do '(r, st3) <- apply_bin f Add old v st2;
                  do st4 <- vindex_assign st3 obj idx r; Ok (RNone, st4)
              end
          end
      | SUnpack names e =>
          do '(v, st1) <- eval_expr f e st;
          match names with
          | [] | [_] => Err EUnsupported
          | _ => do st2 <- unpack_names names v st1; Ok (RNone, st2)
          end
      | SAssert e => do '(v, st1) <- eval_expr f e st; if truthy d st1 v then Ok (RNone, st1) else Err EType
      | SReturn None => Ok (RRet VNone, st)
      | SReturn (Some e) => do '(v, st1) <- eval_expr f e st; Ok (RRet v, st1)
      | SIf c body elifs els =>
          do '(cv, st1) <- eval_expr f c st;
          if truthy d st1 cv then exec_block f body st1
          else (fix go (l : list (expr * list stmt)) (st0 : state) : res (sres * state) :=
                  match l with
                  | [] => exec_block f els st0
                  | (c1, b1) :: r => do '(v1, st') <- eval_expr f c1 st0;
                                     if truthy d st' v1 then exec_block f b1 st' else go r st'
                  end) elifs st1
      | SFor names it body =>
          do '(itv, st1) <- eval_expr f it st;
          do items <- iter_items st1 itv;
          (fix go (l : list value) (st0 : state) : res (sres * state) :=
             match l with
             | [] => Ok (RNone, st0)
             | li :: r =>
                 do st' <- unpack_names names li st0;
                 do '(r0, st'') <- exec_block f body st';
                 match r0 with
                 | RBreak => Ok (RNone, st'')
                 | RRet v => Ok (RRet v, st'')
                 | _ => go r st''
                 end
             end) items st1
      | SDef n args body =>
          (* newPyFunc: constant defaults are evaluated now, the others stay expressions *)
          do '(formals, st1) <- mapM (fun na st0 => match snd na with
                                                   | None => Ok ((fst na, DNo), st0)
                                                   | Some e => if is_const 32%nat e then do '(v, st') <- const_alloc 32%nat e st0; Ok ((fst na, DConst v), st')
                                                               else match d with
                                                                    | Asp => Ok ((fst na, DExpr e), st0)
                                                                    | Py => do '(v, st') <- eval_expr f e st0; Ok ((fst na, DConst v), st')   (* CPython: at definition *)
                                                                    end
                                                   end) args st;
          let id := length (funcs st1) in
          let st2 := set_funcs (funcs st1 ++ [Func n formals body (cur st1)]) st1 in
          Ok (RNone, set_var n (VFunc id) st2)
      | SCall n args =>
          match lookup n st with
          | None => Err EType
          | Some (VBuiltin b) =>
              if str_eqb b (s "subinclude") then
                match args, d with
                | [(None, Ex (XStr label) [] None)], Asp =>
                    match assoc_get label (subcache st) with
                    | Some globals =>
                        Ok (RNone, fold_left (fun acc kv => set_var (fst kv) (snd kv) acc) globals st)
                    | None =>
                        match find_def label with
                        | None => Err EType
                        | Some p =>
                            (* interpreter.Subinclude: parse, optimise, interpret in a scope of its own, freeze, cache *)
                            let base := length (consts st) in
                            let '(p', cexprs) := opt_stmts 32%nat base (drop_pass 32%nat p) [] in
                            do '(cvals, st1) <- mapM (const_alloc 32) cexprs st;
                            let st2 := set_consts (consts st1 ++ cvals) st1 in
                            let idx := length (fscopes st2) in
                            let saved_cur := cur st2 in
                            let saved_locals := locals st2 in
                            let st3 := set_locals [] (set_cur idx (set_fscopes (fscopes st2 ++ [[]]) st2)) in
                            do '(_, st4) <- exec_block f p' st3;
                            do '(frozen, st5) <- freeze_env 32%nat (nth idx (fscopes st4) []) st4;
                            let st6 := set_fscopes (list_set idx frozen (fscopes st5)) st5 in
                            let st7 := set_subcache ((label, frozen) :: subcache st6) (set_locals saved_locals (set_cur saved_cur st6)) in
                            Ok (RNone, fold_left (fun acc kv => set_var (fst kv) (snd kv) acc) frozen st7)
                        end
                    end
                | _, _ => Err EUnsupported
                end
              else do '(_, st1) <- call_value f (VBuiltin b) n args st; Ok (RNone, st1)
          | Some fn => do '(_, st1) <- call_value f fn n args st; Ok (RNone, st1)
          end
      end
  end.

(* ---------------------------------------------------------------- running files *)
Inductive outcome :=
| OErr                                        (* the interpreter reported an error *)
| OUnsup                                      (* model only: outside the modelled fragment / out of fuel *)
| OGlobals (after final : list (str * obs)).  (* the file's globals right after it ran, and at the end of the run *)

(* the statements of a file one after the other; when one raises, what the earlier ones did to shared objects
   stays done (the state before the failing statement is kept) *)
Fixpoint exec_top (fuel : nat) (ss : list stmt) (st : state) : option errkind * bool * state :=
  match ss with
  | [] => (None, false, st)
  | s0 :: r =>
      match exec_stmt fuel s0 st with
      | Ok (RNone, st1) => exec_top fuel r st1
      | Ok (_, st1) => (None, false, st1)
      | Err k => (Some k, false, st)
      | OutOfFuel => (None, true, st)
      end
  end.

(* interpretAll for each BUILD file in turn, on one interpreter *)
Fixpoint run_builds (fuel : nat) (builds : list prog) (st : state) : list (option nat * outcome) * state :=
  match builds with
  | [] => ([], st)
  | p :: r =>
      let idx := length (fscopes st) in
      let st1 := set_locals [] (set_cur idx (set_fscopes (fscopes st ++ [[]]) st)) in
      match exec_top fuel p st1 with
      | (None, false, st2) =>
          let after := render_env st2 (nth idx (fscopes st2) []) in
          let '(rest, st3) := run_builds fuel r st2 in
          ((Some idx, OGlobals after []) :: rest, st3)
      | (Some EType, _, st2) =>
          let '(rest, st3) := run_builds fuel r (set_locals [] st2) in
          ((None, OErr) :: rest, st3)
      | (_, _, st2) =>
          let '(rest, st3) := run_builds fuel r (set_locals [] st2) in
          ((None, OUnsup) :: rest, st3)
      end
  end.

Definition run (fuel : nat) (builds : list prog) : list outcome :=
  let '(outs, st) := run_builds fuel builds empty_state in
  map (fun io => match io with
                 | (Some idx, OGlobals after _) => OGlobals after (render_env st (nth idx (fscopes st) []))
                 | (_, o) => o
                 end) outs.

End Dialect.

Definition kvobs_eqb (eqb : obs -> obs -> bool) (a b : list (str * obs)) : bool :=
  list_eqb (fun x y => str_eqb (fst x) (fst y) && eqb (snd x) (snd y)) a b.

Definition outcome_eqb (a b : outcome) : bool :=
  match a, b with
  | OErr, OErr => true
  | OGlobals a1 f1, OGlobals a2 f2 => kvobs_eqb obs_eqb a1 a2 && kvobs_eqb obs_eqb f1 f2
  | _, _ => false
  end.
