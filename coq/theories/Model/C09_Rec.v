(* C09 follow-up 2 - the hash Please RECORDS for a path, across faults, processes and concurrency.
   Three parts, all parameterised by what gotrans reads off src/fs/hash.go (Gen/PathHashProg.v):
     (1) trees with entries that cannot be read: what hash() has written when it fails part-way;
     (2) a state machine over the file system WITH the user.plz_hash xattr of every path, one
         PathHasher per process (memo_store_requires_success, xattr_read_*, xattr_store_prefix);
     (3) several Hash calls on different paths running at once through one PathHasher, interleaved
         at the granularity of the single Read / Write of fileHash (file_copy_buffer).
   No proofs here. *)
From PlzV Require Import Base.Harness Gen.PathHashProg Model.C09.

(* ================= (1) trees with unreadable entries ================= *)
Inductive fnode :=
| FFile (c : str)
| FLink (t : str)
| FBad                                 (* an entry os.Open refuses: a socket, a mode-000 file *)
| FDir (es : list (str * fnode)).

(* the callbacks of the walk run in visit order until the first one that fails *)
Fixpoint seq_until (l : list (str * bool)) : str * bool :=
  match l with
  | [] => ([], true)
  | (b, ok) :: r => if ok then let (b', ok') := seq_until r in (b ++ b', ok') else (b, false)
  end.

(* bytes written to the hash, and whether the walk completed *)
Fixpoint pwalk (t : fnode) : str * bool :=
  match t with
  | FFile c => (run walk_file c [], true)
  | FLink t => (run walk_link [] t, true)
  | FBad => ([], false)
  | FDir es =>
      let (b, ok) := seq_until (map snd (visit_order (map (fun e => (fst e, pwalk (snd e))) es))) in
      (run walk_dir [] [] ++ b, ok)
  end.

(* PathHasher.hash without the xattr short-cut: (bytes written, err == nil) *)
Definition fstream (t : fnode) : str * bool :=
  match t with
  | FFile c => (run top_file c [], true)
  | FLink t => (run top_link_in_repo [] t, true)
  | FBad => ([], false)
  | FDir _ => pwalk t
  end.

Fixpoint all_some {A} (l : list (option A)) : option (list A) :=
  match l with
  | [] => Some []
  | Some x :: r => option_map (cons x) (all_some r)
  | None :: _ => None
  end.
(* the tree proper, when every entry can be read *)
Fixpoint to_node (t : fnode) : option node :=
  match t with
  | FFile c => Some (File c)
  | FLink t => Some (Link t)
  | FBad => None
  | FDir es => option_map Dir (all_some (map (fun e => option_map (pair (fst e)) (to_node (snd e))) es))
  end.

(* ================= (2) files with xattrs, processes, the memo ================= *)
(* A digest is represented by the stream it is the digest of (as in Model/C09.v).
   rfiles: path -> (tree, value of the user.plz_hash xattr on the path's own inode)
   rmemo:  the memo of the CURRENT process's PathHasher;   rx: its useXattrs *)
Record rstate := RState { rmemo : amap str; rx : bool; rfiles : amap (fnode * option str) }.
Definition rstate0 : rstate := RState [] false [].

Inductive rop :=
| RWrite (p : str) (t : fnode)            (* replace what is at p: new inode, no xattr *)
| REdit (p : str) (t : fnode)             (* edit IN PLACE: same inode, the xattr stays (nothing if p is missing) *)
| RRemove (p : str)
| RMove (o n : str)                       (* mv o n: the inode and its xattrs move (nothing if o is missing or o = n) *)
| RCopyA (o n : str)                      (* cp -a o n: new inode, xattrs copied *)
| RNewProc (xattrs : bool)                (* a new plz process: NewPathHasher(root, xattrs, ..) *)
| RHash (p : str) (recalc store : bool).  (* PathHasher.Hash(p, recalc, store, false) *)

Inductive robs :=
| RNone
| RMissing                                (* Hash: the path does not exist (no hash was started) *)
| RErr (written : str)                    (* Hash returned an error after writing these bytes *)
| RVal (v : str) (computed : bool).       (* Hash returned the digest of v; computed: it ran the hash function *)

Definition robs_eqb (a b : robs) : bool :=
  match a, b with
  | RNone, RNone | RMissing, RMissing => true
  | RErr x, RErr y => str_eqb x y
  | RVal v c, RVal v' c' => str_eqb v v' && Bool.eqb c c'
  | _, _ => false
  end.

Definition xattr_of (f : amap (fnode * option str)) (k : str) : option str :=
  match aget f k with Some (_, x) => x | None => None end.
Definition exists_at (f : amap (fnode * option str)) (k : str) : bool :=
  match aget f k with Some _ => true | None => false end.
(* xattr.LSet on a symlink itself is refused for the user.* namespace *)
Definition xattr_storable (t : fnode) : bool := match t with FLink _ => false | _ => true end.

(* the condition of the short-cut at the top of hash(): conjunct by conjunct as translated *)
Definition xattr_read_cond (read enabled : bool) (k : str) : bool :=
  (negb xattr_read_needs_read || read) && has_prefix xattr_read_prefix k
  && (negb xattr_read_needs_enabled || enabled).

Definition rstep (root : str) (st : rstate) (o : rop) : rstate * robs :=
  match o with
  | RWrite p t => (RState (rmemo st) (rx st) (aset (rfiles st) p (Some (t, None))), RNone)
  | REdit p t =>
      match aget (rfiles st) p with
      | Some (_, x) => (RState (rmemo st) (rx st) (aset (rfiles st) p (Some (t, x))), RNone)
      | None => (st, RNone)
      end
  | RRemove p => (RState (rmemo st) (rx st) (aset (rfiles st) p None), RNone)
  | RMove a b =>
      match aget (rfiles st) a with
      | Some e => if str_eqb a b then (st, RNone)
                  else (RState (rmemo st) (rx st) (aset (aset (rfiles st) b (Some e)) a None), RNone)
      | None => (st, RNone)
      end
  | RCopyA a b =>
      match aget (rfiles st) a with
      | Some e => if str_eqb a b then (st, RNone)
                  else (RState (rmemo st) (rx st) (aset (rfiles st) b (Some e)), RNone)
      | None => (st, RNone)
      end
  | RNewProc x => (RState [] x (rfiles st), RNone)
  | RHash p recalc store =>
      let k := ensure_relative root p in
      match (if recalc then None else aget (rmemo st) k) with
      | Some v => (st, RVal v false)
      | None =>
          match aget (rfiles st) k with
          | None => (st, RMissing)
          | Some (t, x) =>
              match (if xattr_read_cond (negb recalc) (rx st) k then x else None) with
              | Some v => (RState (aset (rmemo st) k (Some v)) (rx st) (rfiles st), RVal v false)
              | None =>
                  let (b, ok) := fstream t in
                  if ok then
                    (RState (aset (rmemo st) k (Some b)) (rx st)
                            (if store && rx st && has_prefix xattr_store_prefix k && xattr_storable t
                             then aset (rfiles st) k (Some (t, Some b)) else rfiles st),
                     RVal b true)
                  else
                    (RState (if memo_store_requires_success then rmemo st else aset (rmemo st) k (Some b))
                            (rx st) (rfiles st),
                     RErr b)
              end
          end
      end
  end.

(* ---- the protocol, as a ghost status per memo key and per path's xattr ----
   The only rules: never Hash(p, recalc=false) while the memo entry of p is MStale (the content changed
   under it in this process), nor - for p under plz-out/ in a process with xattrs on and no memo entry
   yet - while the stored xattr of p is XStale (an output edited in place after its hash was stored).
   Nothing is asked of paths outside plz-out/ beyond the memo rule. *)
Inductive mst := MAbsent | MValid | MStale.
Inductive xst := XNone | XValid | XStale.
Definition mst_eqb (a b : mst) : bool :=
  match a, b with MAbsent, MAbsent | MValid, MValid | MStale, MStale => true | _, _ => false end.
Definition xst_eqb (a b : xst) : bool :=
  match a, b with XNone, XNone | XValid, XValid | XStale, XStale => true | _, _ => false end.
Record rghost := RGhost { gm : amap mst; gx : amap xst }.
Definition rghost0 : rghost := RGhost [] [].
Definition mget (g : rghost) (k : str) : mst := match aget (gm g) k with Some x => x | None => MAbsent end.
Definition xget (g : rghost) (k : str) : xst := match aget (gx g) k with Some x => x | None => XNone end.
Definition mset (g : rghost) (k : str) (x : mst) : rghost := RGhost (aset (gm g) k (Some x)) (gx g).
Definition xset (g : rghost) (k : str) (x : xst) : rghost := RGhost (gm g) (aset (gx g) k (Some x)).
Definition mdemote (g : rghost) (k : str) : rghost := match mget g k with MValid => mset g k MStale | _ => g end.
Definition readable (t : fnode) : bool := match to_node t with Some _ => true | None => false end.
Definition outputs_prefix : str := s "plz-out/".

(* st: the state BEFORE the operation *)
Definition rg_step (root : str) (st : rstate) (g : rghost) (o : rop) : rghost :=
  match o with
  | RWrite p _ | RRemove p => xset (mdemote g p) p XNone
  | REdit p _ =>
      if exists_at (rfiles st) p
      then (let g' := mdemote g p in match xget g p with XValid => xset g' p XStale | _ => g' end)
      else g
  | RMove a b =>
      if exists_at (rfiles st) a && negb (str_eqb a b)
      then xset (xset (mdemote (mdemote g a) b) b (xget g a)) a XNone
      else g
  | RCopyA a b =>
      if exists_at (rfiles st) a && negb (str_eqb a b)
      then xset (mdemote g b) b (xget g a)
      else g
  | RNewProc _ => RGhost [] (gx g)
  | RHash p recalc store =>
      let k := ensure_relative root p in
      if negb recalc && negb (mst_eqb (mget g k) MAbsent) then g           (* answered from the memo *)
      else match aget (rfiles st) k with
           | None => g
           | Some (t, _) =>
               if negb recalc && rx st && has_prefix outputs_prefix k && negb (xst_eqb (xget g k) XNone)
               then mset g k (match xget g k with XValid => MValid | _ => MStale end)   (* answered from the xattr *)
               else if readable t
               then (let g' := mset g k MValid in
                     if store && rx st && has_prefix outputs_prefix k && xattr_storable t
                     then xset g' k XValid else g')
               else g                                                     (* failed: nothing is recorded *)
           end
  end.

Definition rallowed (root : str) (st : rstate) (g : rghost) (o : rop) : bool :=
  match o with
  | RHash p false _ =>
      let k := ensure_relative root p in
      match mget g k with
      | MStale => false
      | MValid => true
      | MAbsent => negb (rx st && has_prefix outputs_prefix k && xst_eqb (xget g k) XStale)
      end
  | _ => true
  end.

Fixpoint rexec (root : str) (st : rstate) (g : rghost) (ops : list rop) : list (rop * robs * bool * rstate) :=
  match ops with
  | [] => []
  | o :: r =>
      let (st', out) := rstep root st o in
      (o, out, rallowed root st g o, st') :: rexec root st' (rg_step root st g o) r
  end.
Definition rfollows (root : str) (st : rstate) (g : rghost) (ops : list rop) : bool :=
  forallb (fun e => snd (fst e)) (rexec root st g ops).

(* ================= (3) concurrent hashing through one PathHasher ================= *)
(* what one Hash call does to its hash object, in order: h.Write of bytes the call owns (the marker,
   a link target), or fileHash: Read the file into the copy buffer, then h.Write(buffer[:n]).
   (Files here are shorter than the copy buffer: one Read, one Write; an empty file writes nothing.) *)
Inductive item := IConst (b : str) | ICopy (b : str).
Definition item_bytes (i : item) : str := match i with IConst b | ICopy b => b end.
Definition leaf_item (o : option str) : list item :=
  match o with
  | Some [] => []
  | Some c => [ICopy c]
  | None => [IConst marker]
  end.
Definition items_of (n : node) : list item :=
  match n with
  | Link t => [IConst marker; IConst t]
  | _ => flat_map leaf_item (tleaves n)
  end.

(* pend = Some n: n bytes have been read into the buffer; the next step of this call is h.Write(buffer[:n]) *)
Record thread := Thread { todo : list item; pend : option nat; acc : str; priv : str }.
Record cstate := CState { threads : list thread; shared : str }.
Definition thread0 (n : node) : thread := Thread (items_of n) None [] [].

(* one micro-step of one call; returns the new shared buffer *)
Definition tstep (sh : str) (t : thread) : thread * str :=
  match pend t with
  | Some n =>
      let buffer := match file_copy_buffer with BufPrivate => priv t | BufShared => sh end in
      (Thread (todo t) None (acc t ++ firstn n buffer) (priv t), sh)
  | None =>
      match todo t with
      | [] => (t, sh)
      | IConst b :: r => (Thread r None (acc t ++ b) (priv t), sh)
      | ICopy b :: r =>
          match file_copy_buffer with
          | BufPrivate => (Thread r (Some (length b)) (acc t) b, sh)
          | BufShared => (Thread r (Some (length b)) (acc t) (priv t), b ++ skipn (length b) sh)
          end
      end
  end.

Fixpoint step_nth (i : nat) (ts : list thread) (sh : str) : list thread * str :=
  match ts, i with
  | [], _ => ([], sh)
  | t :: r, O => let (t', sh') := tstep sh t in (t' :: r, sh')
  | t :: r, S j => let (r', sh') := step_nth j r sh in (t :: r', sh')
  end.
Definition cstep (c : cstate) (i : nat) : cstate :=
  let (ts, sh) := step_nth i (threads c) (shared c) in CState ts sh.
(* a schedule: which call takes its next micro-step *)
Definition crun (sched : list nat) (c : cstate) : cstate := fold_left cstep sched c.
Definition finished (t : thread) : bool :=
  match todo t, pend t with [], None => true | _, _ => false end.

(* ================= correspondence cases ================= *)
Inductive case :=
| COld (c : C09.case)
| CRec (root : str) (trace : list (rop * robs * bool))   (* one file system, several processes: what every Hash returned
                                                            and whether the harness' protocol tracker allowed it *)
| CConc (ns : list node) (sched : list nat) (observed : list str).
   (* Hash of |ns| different paths at once through one PathHasher under the recorded schedule: the bytes each wrote *)
Coercion COld : C09.case >-> case.

Definition check (c : case) : bool :=
  match c with
  | COld c => C09.check c
  | CRec root trace =>
      list_eqb (fun a b => robs_eqb (snd (fst a)) (snd (fst b)) && Bool.eqb (snd a) (snd b))
               (map (fun e => fst e) (rexec root rstate0 rghost0 (map (fun e => fst (fst e)) trace)))
               trace
  | CConc ns sched observed =>
      let c := crun sched (CState (map thread0 ns) []) in
      forallb finished (threads c) && list_eqb str_eqb (map acc (threads c)) observed
  end.
