(* C16 follow-up 2 - WHAT IS EVALUATED, not only which value comes out.  No proofs here.

   (1) flat_ops_g: scope.interpretOps with the if / else-if chain of its mixed-precedence branch taken from the list of guards
       gotrans TRANSLATES from interpreter.go (Gen/C16Builtins.interpret_ops_guards), instead of being written out by hand as in
       Model/C16_Ops.v flat_ops.  The state S is threaded through every operand evaluation, so "the operand was evaluated"
       is visible as a state change (a function that writes into a dict).
   (2) comprehension scopes: the loop variables of a comprehension are bound by scope.Set in the scope `cs`, which is either a
       child scope (cs := s.NewScope(..)) or the enclosing scope itself (cs := s) - read off interpretJoin / interpretList by
       gotrans (Gen/C16Builtins.join_comp_scope / list_comp_scope).  join_run is interpretJoin's comprehension branch over a
       stack of scopes; list_run is interpretList's, followed by strJoin (the generic path of 'sep'.join([...])). *)
From PlzV Require Import Base.Harness Gen.AspTables Gen.C16Builtins Model.C16_Syntax Model.C16_Prim Model.C16_Ops.
Local Open Scope Z_scope.

(* ---------------------------------------------------------------- (1) the guards of interpretOps *)
Inductive gaction := ARet | AUnary | AFall.

(* the first guard of the chain whose condition holds *)
Fixpoint guard_action (gs : list opsguard) (decides unary : bool) : gaction :=
  match gs with
  | [] => AFall
  | GShortCircuit :: r => if decides then ARet else guard_action r decides unary
  | GUnary :: r => if unary then AUnary else guard_action r decides unary
  end.

Section EvalG.
  Context {X V S : Type}.
  Variable evalx : X -> S -> res (V * S).
  Variable apply_bin : binop -> V -> V -> S -> res (V * S).
  Variable apply_un : unop -> V -> S -> res V.
  Variable truthy : V -> S -> bool.
  Variable gs : list opsguard.

  (* ops[0].Op.Lazy() && obj.IsTruthy() != (ops[0].Op == And) *)
  Definition decides (obj : V) (i0 : item X) (st : S) : bool :=
    alazy (ikey i0) && negb (Bool.eqb (truthy obj st) (key_is_and (ikey i0))).

  Fixpoint flat_ops_g (obj : V) (ops : list (item X)) (st : S) : res (V * S) :=
    match ops with
    | [] => Ok (obj, st)
    | [i] => interp_op_x evalx apply_bin apply_un truthy obj i st
    | i0 :: ((i1 :: _) as rest) =>
        if aprec (ikey i0) >=? aprec (ikey i1) then
          rbind (interp_op_x evalx apply_bin apply_un truthy obj i0 st) (fun '(r, st1) => flat_ops_g r rest st1)
        else match guard_action gs (decides obj i0 st) (item_is_un i0) with
             | ARet => Ok (obj, st)
             | AUnary =>
                 match i0 with
                 | IUn u => rbind (flat_ops_g obj rest st) (fun '(r, st1) => lift_un apply_un u r st1)
                 | IBin _ _ => Err EType
                 end
             | AFall =>
                 (* nobj := s.interpretOps(s.interpretExpression(ops[0].Expr), ops[1:]); interpretOp(obj, {Op, Constant nobj}) *)
                 match i0 with
                 | IBin o x =>
                     rbind (evalx x st) (fun '(r0, st1) =>
                     rbind (flat_ops_g r0 rest st1) (fun '(n, st2) => interp_op_v apply_bin truthy obj o n st st2))
                 | IUn _ => Err EType            (* ops[0].Expr == nil: interpretExpression dereferences nil *)
                 end
             end
    end.
End EvalG.

(* every operator of the rest binds tighter than i0 *)
Definition all_tighter {X} (i0 : item X) (rest : list (item X)) : bool :=
  forallb (fun j => aprec (ikey i0) <? aprec (ikey j)) rest.

(* ---------------------------------------------------------------- (2) the scope of a comprehension's variables *)
Section Scopes.
  Context {V : Type}.
  Definition env := list (str * V).
  Definition stack := list env.      (* innermost scope first; scope.parent = the tail *)

  (* s.locals[name] = value *)
  Fixpoint eset (k : str) (v : V) (e : env) : env :=
    match e with
    | [] => [(k, v)]
    | (k0, v0) :: r => if str_eqb k k0 then (k, v) :: r else (k0, v0) :: eset k v r
    end.
  (* scope.Set: always the innermost scope *)
  Definition sset (k : str) (v : V) (st : stack) : stack :=
    match st with [] => [[(k, v)]] | e :: r => eset k v e :: r end.
  Fixpoint eget (k : str) (e : env) : option V :=
    match e with [] => None | (k0, v0) :: r => if str_eqb k k0 then Some v0 else eget k r end.
  (* scope.Lookup: locals, then the parent *)
  Fixpoint slookup (k : str) (st : stack) : option V :=
    match st with [] => None | e :: r => match eget k e with Some v => Some v | None => slookup k r end end.

  Variable elem : stack -> str.    (* cs.interpretExpression(list.Values[0]) - reads the scopes *)
  Variable cond : stack -> bool.   (* comp.If == nil || cs.interpretExpression(comp.If).IsTruthy() *)

  (* cs.evaluateComprehension(it, comp, callback) for one loop name; the callback of interpretJoin writes into the builder *)
  Fixpoint join_loop (name : str) (base : str) (items : list V) (cs : stack) (first : bool) (acc : str) : str * stack :=
    match items with
    | [] => (acc, cs)
    | it :: r =>
        let cs1 := sset name it cs in                       (* unpackNames *)
        if cond cs1 then join_loop name base r cs1 false (acc ++ (if first then [] else base) ++ elem cs1)
        else join_loop name base r cs1 first acc
    end.

  (* the callback of interpretList appends to ret *)
  Fixpoint list_loop (name : str) (items : list V) (cs : stack) (acc : list str) : list str * stack :=
    match items with
    | [] => (acc, cs)
    | it :: r =>
        let cs1 := sset name it cs in
        if cond cs1 then list_loop name r cs1 (acc ++ [elem cs1]) else list_loop name r cs1 acc
    end.

  (* where cs comes from, and what the enclosing scope s looks like afterwards *)
  Definition enter (sc : compscope) (s : stack) : stack := match sc with JChild => [] :: s | JSame => s end.
  Definition leave (sc : compscope) (cs : stack) : stack := match sc with JChild => tl cs | JSame => cs end.

  (* scope.interpretJoin, the branch with a comprehension: the joined string and the enclosing scopes afterwards *)
  Definition join_run (sc : compscope) (name base : str) (items : list V) (s : stack) : str * stack :=
    let '(out, cs') := join_loop name base items (enter sc s) true [] in (out, leave sc cs').

  (* the generic path: scope.interpretList builds the list, strJoin joins it *)
  Definition list_run (sc : compscope) (name : str) (items : list V) (s : stack) : list str * stack :=
    let '(out, cs') := list_loop name items (enter sc s) [] in (out, leave sc cs').
  Definition generic_join_run (sc : compscope) (name base : str) (items : list V) (s : stack) : str * stack :=
    let '(l, s') := list_run sc name items s in (str_join base l, s').
End Scopes.
