(* C07 - the correspondence check of the C07 harness: rule-hash cases (shared with C08) and source-hash cases, each
   instantiated with the program regenerated from the source. *)
From PlzV Require Import Base.Harness Model.C08 Model.C08_Tie Model.C07_Src.
From PlzV Require Gen.C07SourceHash.

Inductive case :=
| Rule (c : C08.case)
| Src (c : src_case).

Definition check (c : case) : bool :=
  match c with
  | Rule c => C08_Tie.check c
  | Src c => src_check_with C07SourceHash.prog c
  end.
