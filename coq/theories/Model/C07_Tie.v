(* C07 - the correspondence check of the C07 harness: rule-hash cases (shared with C08), source-hash cases, require /
   provide cases, path-hasher cases (memo histories, xattr histories) and filegroup-link histories (invocations of the
   real binary interleaved with edits of a hard-linked source), each instantiated with what gotrans regenerated from
   the source. *)
From PlzV Require Import Base.Harness Model.C08 Model.C08_Tie Model.C07_Src Model.C07_Provide Model.C07_Hasher Model.C07_Link.
From PlzV Require Gen.C07SourceHash Gen.C07Provide Gen.C07Hasher.

Inductive case :=
| Rule (c : C08.case)
| Src (c : src_case)
| Prov (c : prov_case)
| Hasher (c : hasher_case)
| Link (c : link_case).

Definition check (c : case) : bool :=
  match c with
  | Rule c => C08_Tie.check c
  | Src c => src_check_with C07SourceHash.prog c
  | Prov c => prov_check_with C07Provide.provide_range c
  | Hasher c => hasher_check_with C07Hasher.memo_guarded C07Hasher.xattr_rule c
  | Link c => link_check_with lk_same_branch c
  end.
