(* C34 - output trees are copied and linked faithfully.
   Executable model of src/fs/copy.go (RecursiveCopy, RecursiveLink, RecursiveCopyOrLinkFile,
   CopyOrLinkFile, copySymlink), src/fs/walk.go (WalkMode over godirwalk: pre-order, symlinks not
   followed) and the part of src/fs/fs.go they call (CopyFile, WriteFile).  No proofs here.

   The wrapper argument tuples and WriteFile's default mode are regenerated from the source
   (Gen/C34Copy.v). *)
From PlzV Require Import Base.Harness Gen.C34Copy.

(* ---------------------------------------------------------------- file trees ---------------- *)
(* File ino perm content: `ino` identifies the inode: two File nodes with the same non-zero ino are
   hard links to one inode; ino 0 = an inode created by the operation under test.  perm = the
   permission bits (mode & 07777).  Directory modes are not modelled: every directory the code
   creates gets DirPermissions &^ umask whatever the source had. *)
Inductive node :=
| File (ino : N) (perm : N) (c : str)
| Dir (es : list (str * node))      (* entries in listing order (godirwalk: sorted by name) *)
| Link (t : str).                   (* symlink with the target string t, verbatim *)

Definition path := list str.        (* path relative to `from` resp. `to`: name[len(from):] *)
Definition dest := option node.     (* what is at a path; None = nothing there *)
Definition world := list (str * node).   (* the directory that holds both `from` and `to` *)

Fixpoint assoc (x : str) (es : list (str * node)) : option node :=
  match es with
  | [] => None
  | (y, v) :: r => if str_eqb x y then Some v else assoc x r
  end.

(* replace in place, or append a new entry *)
Fixpoint set (x : str) (v : node) (es : list (str * node)) : list (str * node) :=
  match es with
  | [] => [(x, v)]
  | (y, w) :: r => if str_eqb x y then (y, v) :: r else (y, w) :: set x v r
  end.

(* ---------------------------------------------------------------- OS steps ------------------ *)
(* Result of one filesystem call sequence on the destination: the new node at the root of the
   destination, an error (the Go function returns err), or a situation this model does not
   describe (a destination path that runs through a symlink).  The theorems prove RUnsup
   unreachable for a fresh destination. *)
Inductive R := ROk (n : node) | RErr | RUnsup.

(* Walk down p from d and apply f to what is found at the end.  mk = true creates missing
   directories on the way (os.MkdirAll, and WriteFile's MkdirAll of the parent); mk = false fails
   with ENOENT (os.Symlink, os.Link).  A regular file on the way is ENOTDIR. *)
Fixpoint upd (mk : bool) (p : path) (f : dest -> R) (d : dest) : R :=
  match p with
  | [] => f d
  | x :: q =>
      match d with
      | Some (Dir es) =>
          match upd mk q f (assoc x es) with
          | ROk c => ROk (Dir (set x c es))
          | r => r
          end
      | None =>
          if mk then match upd mk q f None with
                     | ROk c => ROk (Dir [(x, c)])
                     | r => r
                     end
          else RErr
      | Some (File _ _ _) => RErr
      | Some (Link _) => RUnsup
      end
  end.

(* os.MkdirAll(dest, DirPermissions): fine if a directory is there already *)
Definition f_mkdir (d : dest) : R :=
  match d with
  | None => ROk (Dir [])
  | Some (Dir es) => ROk (Dir es)
  | Some (File _ _ _) => RErr
  | Some (Link _) => RUnsup        (* os.Stat follows it *)
  end.

(* os.Symlink(target, dest) / os.Link(from, dest): EEXIST if anything is there *)
Definition f_create (x : node) (d : dest) : R :=
  match d with
  | None => ROk x
  | Some _ => RErr
  end.

(* WriteFile's last step, rename(temp, to): replaces a file or a symlink, fails on a directory
   (and so does the os.Create of renameFile's fallback) *)
Definition f_rename (x : node) (d : dest) : R :=
  match d with
  | Some (Dir _) => RErr
  | _ => ROk x
  end.

(* WriteFile: `if mode == 0 { mode = 0664 }`; the constant is regenerated from fs.go *)
Definition eff (m : N) : N := if N.eqb m 0 then default_file_mode else m.

(* CopyFile(from, to, mode) once `from` has been opened and read: MkdirAll(dir of to), CreateTemp
   there, write, Chmod(eff mode), rename onto `to`.  The new file is a new inode (ino 0).  The
   directory creation and the rename are one descent here; they differ only in what is left
   behind when the rename fails, which is not observed (see `check`). *)
Definition copy_file_atomic (m : N) (p : path) (c : str) : dest -> R :=
  upd true p (f_rename (File 0 (eff m) c)).

(* ---------------------------------------------------------------- WriteFile's temporary file - *)
(* WriteFile does not write `to`: it writes a TEMPORARY SIBLING of `to` and renames it onto `to`.
   How the sibling is named and opened is TRANSLATED from fs.go (Gen.write_file_temp):
     None            os.CreateTemp(dir, file): a name nobody has (O_EXCL, retried) -> TempUnique
     Some (pre, suf) a fixed name pre ++ file ++ suf opened O_CREATE|O_TRUNC       -> TempFixed
   Proof/C34.v proves: with TempUnique the protocol below IS copy_file_atomic, for every directory,
   every name and every unused temporary name; with ANY fixed name it is not (a sibling of that name
   is emptied in place - the same inode - and renamed away). *)
Inductive temp_policy := TempUnique | TempFixed (pre suf : str).

Definition temp_policy_of (g : option (String.string * String.string)) : temp_policy :=
  match g with None => TempUnique | Some (p, q) => TempFixed (s p) (s q) end.

Definition temp_policy_now : temp_policy := temp_policy_of write_file_temp.

(* rename(t, _) takes the entry t out of the directory *)
Fixpoint remove (x : str) (es : list (str * node)) : list (str * node) :=
  match es with
  | [] => []
  | (y, v) :: r => if str_eqb x y then r else (y, v) :: remove x r
  end.

(* a name no entry of the directory has: longer than all of them together (what the random suffix of
   os.CreateTemp achieves; the theorems hold for EVERY unused name, this is the one `check` runs) *)
Definition name_lengths (es : list (str * node)) : nat :=
  fold_right (fun e a => (length (fst e) + a)%nat) O es.

Definition unique_temp (x : str) (es : list (str * node)) : str :=
  x ++ repeat 48%N (S (name_lengths es)).

Definition temp_name (pol : temp_policy) (x : str) (es : list (str * node)) : str :=
  match pol with
  | TempUnique => unique_temp x es
  | TempFixed pre suf => pre ++ x ++ suf
  end.

(* opening the temporary file, d = what has that name *)
Definition open_temp (pol : temp_policy) (d : dest) : R :=
  match d with
  | None => ROk (File 0 384 [])                        (* created: a new inode, 0600 *)
  | Some n =>
      match pol with
      | TempUnique => RErr                             (* O_EXCL: EEXIST *)
      | TempFixed _ _ =>
          match n with
          | File j pm _ => ROk (File j pm [])          (* O_TRUNC: the EXISTING inode j, emptied *)
          | Dir _ => RErr                              (* EISDIR *)
          | Link _ => RUnsup                           (* followed *)
          end
      end
  end.

(* WriteFile(content c, to = <the directory es>/x, mode m) with the temporary file named t:
   open t, io.Copy, Close, Chmod(eff m), renameFile(t, x) *)
Definition write_in_dir (t : str) (pol : temp_policy) (m : N) (x : str) (c : str) (es : list (str * node)) : R :=
  match open_temp pol (assoc t es) with
  | ROk (File j _ _) =>
      let es1 := set t (File j (eff m) c) es in
      match f_rename (File j (eff m) c) (assoc x es1) with
      | ROk v => ROk (Dir (set x v (remove t es1)))
      | r => r
      end
  | ROk _ => RUnsup
  | r => r
  end.

(* ... where d is what is at filepath.Dir(to) (MkdirAll creates it) *)
Definition f_write (pol : temp_policy) (m : N) (x : str) (c : str) (d : dest) : R :=
  match d with
  | None => write_in_dir (temp_name pol x []) pol m x c []
  | Some (Dir es) => write_in_dir (temp_name pol x es) pol m x c es
  | Some (File _ _ _) => RErr
  | Some (Link _) => RUnsup
  end.

Fixpoint split_last (p : path) : option (path * str) :=
  match p with
  | [] => None
  | x :: q => match split_last q with
              | None => Some ([], x)
              | Some (q', y) => Some (x :: q', y)
              end
  end.

(* CopyFile as it runs.  For p = [] (`to` itself, a single file) the directory is the one that holds
   `from` and `to`; the model's result is the entry `to` alone, so that case stays atomic (a unique
   name is unused there as well). *)
Definition copy_file (m : N) (p : path) (c : str) : dest -> R :=
  match split_last p with
  | None => copy_file_atomic m p c
  | Some (q, x) => upd true q (f_write temp_policy_now m x c)
  end.

(* ---------------------------------------------------------------- copy.go ------------------- *)
Record cfg := Cfg {
  mode : N;            (* 'mode' is the mode of the destination file *)
  link : bool;
  fallback : bool;
  link_ok : bool       (* the OS: does link(2) between the two places work (same device)? *)
}.

(* os.Open(from) + reading it *)
Inductive opened := OContent (c : str) | OErr | OUnsup.

(* CopyOrLinkFile(from, to, fromMode, toMode, link, fallback); src = what Lstat(from) sees,
   o = what opening `from` gives (only consulted on the copy paths). *)
Definition copy_or_link (k : cfg) (p : path) (src : node) (o : opened) (d : dest) : R :=
  let copy (m : N) := match o with
                      | OContent c => copy_file m p c d
                      | OErr => RErr
                      | OUnsup => RUnsup
                      end in
  if link k then
    match src with
    | Link t => upd false p (f_create (Link t)) d      (* Readlink + os.Symlink *)
    | File i pm c =>
        match (if link_ok k then upd false p (f_create (File i pm c)) d else RErr) with
        | RErr => if fallback k then copy pm else RErr  (* toMode = info.Mode() of `from` *)
        | r => r
        end
    | Dir _ => RUnsup                                   (* never called on a directory *)
    end
  else copy (mode k).

(* WalkMode(from, ...): every node below `from` with its relative path, `from` itself first,
   pre-order, symlinks reported and not followed. *)
Definition pfx (x : str) (e : path * node) : path * node := (x :: fst e, snd e).

Fixpoint walk (n : node) : list (path * node) :=
  ([], n) ::
  match n with
  | Dir es =>
      (fix go (l : list (str * node)) : list (path * node) :=
         match l with
         | [] => []
         | (x, c) :: r => map (pfx x) (walk c) ++ go r
         end) es
  | _ => []
  end.

(* the callback of RecursiveCopyOrLinkFile; dest = filepath.Join(to, name[len(from):]) *)
Definition visit (k : cfg) (e : path * node) (d : dest) : R :=
  match snd e with
  | Dir _ => upd true (fst e) f_mkdir d                       (* os.MkdirAll(dest, DirPermissions) *)
  | Link t => upd false (fst e) (f_create (Link t)) d         (* copySymlink *)
  | File i pm c => copy_or_link k (fst e) (File i pm c) (OContent c) d
  end.

(* the walk stops at the first error *)
Inductive wres := WDone (d : dest) | WFailed | WUnsup.

Fixpoint run_walk (k : cfg) (l : list (path * node)) (d : dest) : wres :=
  match l with
  | [] => WDone d
  | e :: r =>
      match visit k e d with
      | ROk n => run_walk k r (Some n)
      | RErr => WFailed
      | RUnsup => WUnsup
      end
  end.

Inductive outcome := Done (n : node) | Failed | Unsupported.

(* os.Open of a top-level symlink follows it.  Only targets that are a plain name in the same
   directory are described; fuel = number of entries + 1, so running out of fuel means a cycle
   (ELOOP).  (The kernel gives up after 40 links: worlds are assumed smaller than that.) *)
Definition plain_name (t : str) : bool :=
  negb (existsb (N.eqb 47) t) && negb (str_eqb t []) && negb (str_eqb t (s ".")) && negb (str_eqb t (s "..")).

Fixpoint open_node (fuel : nat) (w : world) (n : node) : opened :=
  match n with
  | File _ _ c => OContent c
  | Dir _ => OErr                         (* open succeeds, read says EISDIR *)
  | Link t =>
      match fuel with
      | O => OErr
      | S f => if plain_name t
               then match assoc t w with
                    | None => OErr
                    | Some n' => open_node f w n'
                    end
               else OUnsup
      end
  end.

Definition of_R (r : R) : outcome :=
  match r with ROk n => Done n | RErr => Failed | RUnsup => Unsupported end.

(* RecursiveCopyOrLinkFile(from = a, to = b, ...) in the directory w *)
Definition copy_top (k : cfg) (w : world) (a b : str) : outcome :=
  match assoc a w with
  | None => Failed                                                  (* Lstat(from) fails *)
  | Some (Dir es) =>
      match run_walk k (walk (Dir es)) (assoc b w) with
      | WDone (Some n) => Done n
      | WDone None => Failed       (* unreachable: a walk is never empty *)
      | WFailed => Failed
      | WUnsup => Unsupported
      end
  | Some src => of_R (copy_or_link k [] src (open_node (S (length w)) w src) (assoc b w))
  end.

(* RecursiveCopy(from, to, mode) and RecursiveLink(from, to): argument tuples from the source *)
Definition cfg_of (args : option N * bool * bool) (m : N) (lok : bool) : cfg :=
  let '(m0, l, f) := args in Cfg (match m0 with None => m | Some x => x end) l f lok.
Definition recursive_copy (m : N) := cfg_of recursive_copy_args m true.
Definition recursive_link (lok : bool) := cfg_of recursive_link_args 0 lok.

(* ---------------------------------------------------------------- the property's vocabulary - *)
Fixpoint map_files (f : N -> N -> str -> node) (n : node) : node :=
  match n with
  | File i pm c => f i pm c
  | Link t => Link t
  | Dir es =>
      Dir ((fix go (l : list (str * node)) : list (str * node) :=
              match l with
              | [] => []
              | (x, c) :: r => (x, map_files f c) :: go r
              end) es)
  end.

(* what is left when inode identity and permission bits are forgotten: names, kinds, contents,
   directories (also empty ones) and symlink targets *)
Definition erase : node -> node := map_files (fun _ _ c => File 0 0 c).

(* what a file of the source becomes *)
Definition file_result (k : cfg) (i pm : N) (c : str) : node :=
  if link k then (if link_ok k then File i pm c else File 0 (eff pm) c)
  else File 0 (eff (mode k)) c.

(* can a regular file be placed at all? *)
Definition placeable (k : cfg) : bool := negb (link k) || link_ok k || fallback k.

(* does the tree contain a regular file? *)
Fixpoint has_file (n : node) : bool :=
  match n with
  | File _ _ _ => true
  | Link _ => false
  | Dir es =>
      (fix go (l : list (str * node)) : bool :=
         match l with
         | [] => false
         | (_, c) :: r => has_file c || go r
         end) es
  end.

(* names: non-empty, no '/', not "." or ".." ; unique within a directory *)
Fixpoint nodupb (l : list str) : bool :=
  match l with
  | [] => true
  | x :: r => negb (existsb (str_eqb x) r) && nodupb r
  end.

Fixpoint wfb (n : node) : bool :=
  match n with
  | Dir es =>
      nodupb (map fst es) && forallb plain_name (map fst es) &&
      (fix go (l : list (str * node)) : bool :=
         match l with
         | [] => true
         | (_, c) :: r => wfb c && go r
         end) es
  | _ => true
  end.

(* ---------------------------------------------------------------- existing destinations ----- *)
(* The specification of a copy INTO whatever is at the destination already (Proof/C34_Merge.v
   proves that the walk computes exactly this, for every source tree and every destination).

   place_file: what one regular file of the source does to whatever is at its path. *)
Definition place_file (k : cfg) (i pm : N) (c : str) (d : dest) : R :=
  copy_or_link k [] (File i pm c) (OContent c) d.

(* merge k src d: the destination after the call, by recursion on the SOURCE tree:
     file    : placed over what is there (place_file),
     symlink : created, EEXIST if anything is there,
     dir     : created if nothing is there, kept (with all it holds) if a directory is there, an
               error if a file is there; then the entries of the source one after the other, each
               into the entry of the same name. *)
Fixpoint merge (k : cfg) (n : node) (d : dest) : R :=
  match n with
  | File i pm c => place_file k i pm c d
  | Link t => f_create (Link t) d
  | Dir es =>
      let go :=
        (fix go (l : list (str * node)) (ds : list (str * node)) : R :=
           match l with
           | [] => ROk (Dir ds)
           | (x, c) :: r =>
               match merge k c (assoc x ds) with
               | ROk c' => go r (set x c' ds)
               | e => e
               end
           end) in
      match d with
      | None => go es []
      | Some (Dir ds) => go es ds
      | Some (File _ _ _) => RErr
      | Some (Link _) => RUnsup
      end
  end.

(* what is at a relative path *)
Fixpoint lookup (p : path) (n : node) : option node :=
  match p with
  | [] => Some n
  | x :: q =>
      match n with
      | Dir es => match assoc x es with Some c => lookup q c | None => None end
      | _ => None
      end
  end.

Definition lookup_d (p : path) (d : dest) : option node :=
  match d with Some n => lookup p n | None => None end.

Definition is_none (d : dest) : bool := match d with None => true | Some _ => false end.
Definition is_dir (d : dest) : bool := match d with Some (Dir _) => true | _ => false end.

(* can the entry s of the source be placed over d?  (the closed form of "merge succeeds") *)
Definition leaf_ok (k : cfg) (d : dest) : bool :=
  if link k then (link_ok k && is_none d) || (fallback k && negb (is_dir d)) else negb (is_dir d).

Fixpoint clash_free (k : cfg) (s : node) (d : dest) : bool :=
  match s with
  | File _ _ _ => leaf_ok k d
  | Link _ => is_none d
  | Dir es =>
      let go := fun ds =>
        (fix go (l : list (str * node)) : bool :=
           match l with
           | [] => true
           | (x, c) :: r => clash_free k c (assoc x ds) && go r
           end) es in
      match d with
      | None => go []
      | Some (Dir ds) => go ds
      | Some (File _ _ _) => false
      | Some (Link _) => false
      end
  end.

(* every entry of s is present in d with the same kind, the same contents (files), the same target
   (symlinks); d may hold more *)
Fixpoint covers (s d : node) : bool :=
  match s, d with
  | File _ _ c, File _ _ c' => str_eqb c c'
  | Link t, Link t' => str_eqb t t'
  | Dir es, Dir ds =>
      (fix go (l : list (str * node)) : bool :=
         match l with
         | [] => true
         | (x, c) :: r => match assoc x ds with Some c' => covers c c' | None => false end && go r
         end) es
  | _, _ => false
  end.

(* the names of regular files below a node, as (inode label, mode bits, contents) *)
Fixpoint files (n : node) : list (N * N * str) :=
  match n with
  | File i pm c => [(i, pm, c)]
  | Link _ => []
  | Dir es =>
      (fix go (l : list (str * node)) : list (N * N * str) :=
         match l with
         | [] => []
         | (_, c) :: r => files c ++ go r
         end) es
  end.

Definition files_d (d : dest) : list (N * N * str) :=
  match d with Some n => files n | None => [] end.

(* Hard links mean: one inode, one mode, one content.  A list of file names is consistent when
   names with the same label of a pre-existing inode (label <> 0) agree on mode and contents.  A
   write THROUGH a destination name into an inode it shares with the source would give that label
   two different contents in the world after the call. *)
Definition consistent (l : list (N * N * str)) : Prop :=
  forall i p c p' c', i <> 0%N -> In (i, p, c) l -> In (i, p', c') l -> p = p' /\ c = c'.

Fixpoint has_link (n : node) : bool :=
  match n with
  | File _ _ _ => false
  | Link _ => true
  | Dir es =>
      (fix go (l : list (str * node)) : bool :=
         match l with
         | [] => false
         | (_, c) :: r => has_link c || go r
         end) es
  end.

(* ---------------------------------------------------------------- path spelling ------------- *)
(* `dest := filepath.Join(to, name[len(from):])` in the walk callback.  godirwalk reports names below
   filepath.Clean(root): the root itself as `cleaned` (the FIRST callback), an entry as
   cleaned ++ "/" ++ rel.  Go's slice expression name[n:] panics when n > len(name).  A `from` that is
   not a directory is never walked (no slicing).

   Since the fix of finding unclean-from-directory-panics the directory branch starts with
   `from = filepath.Clean(from)`: the prefix that is stripped is the cleaned one.  Whether it does is
   READ from the regenerated statement list: the first statement guarded by info.IsDir(). *)
Definition rel_of (from name : str) : option str :=
  if Nat.leb (length from) (length name) then Some (skipn (length from) name) else None.

Local Open Scope string_scope.
Definition guard_isdir := "(info.IsDir())".
Definition stmt_clean := "from = filepath.Clean(from)".
Local Close Scope string_scope.

Definition cleans_first : bool :=
  match filter (fun st => String.eqb (fst st) guard_isdir) prog_RecursiveCopyOrLinkFile with
  | st :: _ => String.eqb (snd st) stmt_clean
  | [] => false
  end.

(* the value of `from` inside the callback; cleaned = filepath.Clean(from) as Go computes it (Clean is
   idempotent: the walk below the cleaned path reports the same names) *)
Definition prefix_stripped (from cleaned : str) : str := if cleans_first then cleaned else from.

Definition walk_panics (from cleaned : str) (isdir : bool) : bool :=
  isdir && match rel_of (prefix_stripped from cleaned) cleaned with None => true | Some _ => false end.

(* ---------------------------------------------------------------- walks at the same time ---- *)
(* A parallel build runs many tree copies at once, each in its own goroutine.  godirwalk reads a
   directory in TWO steps: getdents INTO a buffer (syscall.ReadDirent(fd, scratchBuffer)), then the
   names are parsed OUT OF the buffer.  Whose buffer it is, is TRANSLATED from the godirwalk.Options
   literal in walk.go (Gen.walk_options): no ScratchBuffer option / a make(...) = a buffer of this
   walk alone; a package-level variable = ONE buffer for every walk of the process.

   A walker = one RecursiveCopyOrLinkFile(from, to = w_b, ...) over a directory, as a task stack. *)
Local Open Scope string_scope.
Definition buffer_shared : bool :=
  existsb (fun o => String.eqb (fst o) "ScratchBuffer" && String.prefix "pkgvar:" (snd o)) walk_options.
Local Close Scope string_scope.

Inductive task :=
| TNode (p : path) (n : node)                   (* the callback on one entry *)
| TFill (p : path) (es : list (str * node))     (* getdents of the open directory es INTO the buffer *)
| TParse (p : path) (es : list (str * node)).   (* names OUT OF the buffer; each is an entry of the open directory *)

Inductive wstat := Running | Errd | Unsupd.

Record walker := Walker {
  w_k : cfg;
  w_b : str;                 (* the destination: an entry of the world *)
  w_todo : list task;
  w_buf : list str;          (* its own buffer (used when buffers are not shared) *)
  w_st : wstat
}.

(* the callbacks for the names found in the buffer: a name that is not in the directory being read
   (it came from somebody else's getdents) is ENOENT at the first Lstat/Link/Open *)
Fixpoint entry_tasks (p : path) (es : list (str * node)) (names : list str) : option (list task) :=
  match names with
  | [] => Some []
  | x :: r =>
      match assoc x es, entry_tasks p es r with
      | Some c, Some l => Some (TNode (p ++ [x]) c :: l)
      | _, _ => None
      end
  end.

Definition stop (wk : walker) (st : wstat) : walker := Walker (w_k wk) (w_b wk) [] (w_buf wk) st.
Definition todo (wk : walker) (l : list task) : walker := Walker (w_k wk) (w_b wk) l (w_buf wk) (w_st wk).
Definition with_buf (wk : walker) (b : list str) : walker := Walker (w_k wk) (w_b wk) (w_todo wk) b (w_st wk).

(* one step of a walker: rd = what it finds in the buffer, d = what is at its destination;
   result: the walker, the destination, and what it wrote into the buffer (if it did) *)
Definition wstep (rd : list str) (wk : walker) (d : dest) : walker * dest * option (list str) :=
  match w_st wk, w_todo wk with
  | Running, TNode p n :: r =>
      match visit (w_k wk) (p, n) d with
      | ROk d' => (todo wk (match n with Dir es => TFill p es :: r | _ => r end), Some d', None)
      | RErr => (stop wk Errd, d, None)
      | RUnsup => (stop wk Unsupd, d, None)
      end
  | Running, TFill p es :: r => (todo wk (TParse p es :: r), d, Some (map fst es))
  | Running, TParse p es :: r =>
      match entry_tasks p es rd with
      | Some ts => (todo wk (ts ++ r), d, None)
      | None => (stop wk Errd, d, None)
      end
  | _, _ => (wk, d, None)
  end.

Definition finished (wk : walker) : bool :=
  match w_st wk, w_todo wk with
  | Running, _ :: _ => false
  | _, _ => true
  end.

(* a walker on its own *)
Definition solo_step (s : walker * dest) : walker * dest :=
  let '(wk', d', bw) := wstep (w_buf (fst s)) (fst s) (snd s) in
  (match bw with Some b => with_buf wk' b | None => wk' end, d').

Fixpoint solo_iter (n : nat) (s : walker * dest) : walker * dest :=
  match n with
  | O => s
  | S m => solo_iter m (solo_step s)
  end.

(* many walkers in one world, one shared buffer besides their own ones *)
Record sys := Sys { s_w : world; s_buf : list str; s_ws : list walker }.

Fixpoint replace_nth (i : nat) (x : walker) (l : list walker) : list walker :=
  match l, i with
  | [], _ => []
  | _ :: r, O => x :: r
  | y :: r, S j => y :: replace_nth j x r
  end.

Definition put (b : str) (d : dest) (w : world) : world :=
  match d with Some n => set b n w | None => w end.

(* walker i takes one step (the scheduler picked its goroutine) *)
Definition sys_step (shared : bool) (i : nat) (st : sys) : sys :=
  match nth_error (s_ws st) i with
  | None => st
  | Some wk =>
      let '(wk', d', bw) := wstep (if shared then s_buf st else w_buf wk) wk (assoc (w_b wk) (s_w st)) in
      let wk'' := if shared then wk' else match bw with Some b => with_buf wk' b | None => wk' end in
      Sys (put (w_b wk) d' (s_w st))
          (if shared then match bw with Some b => b | None => s_buf st end else s_buf st)
          (replace_nth i wk'' (s_ws st))
  end.

(* a schedule = which goroutine runs next, step after step: ANY list *)
Fixpoint sys_run (shared : bool) (sched : list nat) (st : sys) : sys :=
  match sched with
  | [] => st
  | i :: r => sys_run shared r (sys_step shared i st)
  end.

Definition start (spec : cfg * str * node) : walker :=
  let '(k, b, src) := spec in Walker k b [TNode [] src] [] Running.

(* ---------------------------------------------------------------- correspondence cases ------ *)
Fixpoint node_eqb (a b : node) : bool :=
  match a, b with
  | File i p c, File j q e => N.eqb i j && N.eqb p q && str_eqb c e
  | Link t, Link u => str_eqb t u
  | Dir es, Dir fs =>
      (fix go (l : list (str * node)) (m : list (str * node)) : bool :=
         match l, m with
         | [], [] => true
         | (x, c) :: r, (y, e) :: r' => str_eqb x y && node_eqb c e && go r r'
         | _, _ => false
         end) es fs
  | _, _ => false
  end.

Fixpoint world_eqb (a b : world) : bool :=
  match a, b with
  | [], [] => true
  | (x, c) :: r, (y, e) :: r' => str_eqb x y && node_eqb c e && world_eqb r r'
  | _, _ => false
  end.

(* A directory is a set of entries: both sides are compared with the entries sorted by name
   (the harness lists them sorted; the model appends new entries). *)
Fixpoint insert_e (e : str * node) (l : list (str * node)) : list (str * node) :=
  match l with
  | [] => [e]
  | h :: r => if str_ltb (fst h) (fst e) then h :: insert_e e r else e :: l
  end.

Fixpoint canon (n : node) : node :=
  match n with
  | Dir es =>
      Dir ((fix go (l : list (str * node)) : list (str * node) :=
              match l with
              | [] => []
              | (x, c) :: r => insert_e (x, canon c) (go r)
              end) es)
  | _ => n
  end.

Definition canon_world (w : world) : world := map (fun e => (fst e, canon (snd e))) w.

(* What the implementation did: no error and the whole directory afterwards (entries in the
   order of w, a new `to` last), or an error.  After an error only the error is compared: the
   destination may hold a partial copy and a temporary file with a random name. *)
Inductive obs := ObsOk (after : world) | ObsErr.

(* CaseSpelling: RecursiveCopy/RecursiveLink called with `from` spelled in some way; cleaned =
   filepath.Clean(from) as Go computes it; isdir = `from` is a directory; panicked = the call
   panicked. *)
Inductive case :=
| Case (k : cfg) (w : world) (a b : str) (o : obs)
| CaseSpelling (from cleaned : str) (isdir : bool) (panicked : bool).

Definition check (c : case) : bool :=
  match c with
  | Case k w a b o =>
      match copy_top k w a b, o with
      | Done n, ObsOk after => world_eqb (canon_world (set b n w)) (canon_world after)
      | Failed, ObsErr => true
      | _, _ => false
      end
  | CaseSpelling f cl isdir p => Bool.eqb p (walk_panics f cl isdir)
  end.
