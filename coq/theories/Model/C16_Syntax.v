(* C16/C17/C18 - the BUILD language (asp).  Shared syntax and values.  No proofs here.

   The AST is the one the Go parser builds (src/parse/asp/grammar.go, grammar_parse.go):
   an Expression is ONE value followed by a FLAT list of operator items, plus an optional inline if.
   parseUnconditionalExpressionInPlace hoists the operators of the right operand into the parent's
   list, so the operand of a binary item is a bare ValueExpression; a unary - / not in front of an
   operand is hoisted as well and appears as an item WITHOUT operand right AFTER the item whose
   operand it precedes in the source (at the head of the list when it precedes the first value). *)
From PlzV Require Import Base.Harness.

Inductive binop := Add | Sub | Mul | Div | FloorDiv | Mod | Lt | Gt | Le | Ge | Eq | Ne | In | NotIn
                 | And | Or | Union | Is | IsNot.
Inductive unop := Neg | Not.

Inductive expr :=
| Ex (v : vexpr) (ops : list opitem) (iff : option (expr * expr))   (* v ops [if cond else e] *)
with vexpr :=
| XInt (z : Z) | XStr (s : str) | XTrue | XFalse | XNone
| XList (es : list expr)
| XComp (e : expr) (names : list str) (it : expr) (cond : option expr)  (* [e for names in it if cond] *)
| XDict (kvs : list (expr * expr))
| XParen (e : expr)                       (* Tuple with exactly one value: plain grouping *)
| XIdent (n : str)
| XCall (n : str) (args : list (option str * expr))      (* n(args): IdentExpr with one Call action *)
| XMeth (b : vexpr) (m : str) (args : list expr)          (* b.m(args) *)
| XIndex (b : vexpr) (i : expr)                           (* b[i] *)
| XSlice (b : vexpr) (lo hi : option expr)                (* b[lo:hi] *)
| XConst (k : nat)                        (* optimised.Constant: the k-th pre-evaluated constant (build_defs only) *)
with opitem :=
| OBin (o : binop) (v : vexpr)
| OUn (u : unop).

Inductive stmt :=
| SAssign (n : str) (e : expr)
| SAug (n : str) (e : expr)
| SIdxAssign (n : str) (i e : expr)
| SIdxAug (n : str) (i e : expr)
| SUnpack (names : list str) (e : expr)
| SIf (c : expr) (body : list stmt) (elifs : list (expr * list stmt)) (els : list stmt)
| SFor (names : list str) (it : expr) (body : list stmt)
| SDef (n : str) (args : list (str * option expr)) (body : list stmt)
| SReturn (e : option expr)
| SCall (n : str) (args : list (option str * expr))
| SAssert (e : expr)
| SPass | SBreak | SContinue.

Definition prog := list stmt.

(* ---- values ---- *)
(* A Go slice: a window (offset, length, capacity) into a backing array of the heap. *)
Record slice := Slice { s_arr : nat; s_off : nat; s_len : nat; s_cap : nat }.

Inductive value :=
| VInt (z : Z) | VStr (s : str) | VBool (b : bool) | VNone
| VList (sl : slice)            (* pyList *)
| VFrozenList (sl : slice)      (* pyFrozenList{pyList} *)
| VNilList                      (* a nil pyList (filter() with no match); never produced by the modelled fragment *)
| VDict (id : nat)              (* pyDict: a Go map, i.e. a reference *)
| VFrozenDict (id : nat)        (* pyFrozenDict{pyDict} *)
| VRange (a b c : Z)            (* *pyRange *)
| VFunc (id : nat)              (* *pyFunc defined by a def statement: index into the function table *)
| VBuiltin (n : str).           (* a native builtin of the root scope *)

(* Observable rendering of a value (what the verif hook serialises). *)
Inductive obs :=
| OInt (z : Z) | OStr (s : str) | OBool (b : bool) | ONone
| OList (frozen : bool) (spare : nat) (items : list obs)    (* spare = cap - len *)
| ONil
| ODict (frozen : bool) (kvs : list (str * obs))            (* keys in sorted order *)
| ORange (a b c : Z)
| OFunc (n : str)
| OOther.

Fixpoint obs_eqb (a b : obs) {struct a} : bool :=
  match a, b with
  | OInt x, OInt y => Z.eqb x y
  | OStr x, OStr y => str_eqb x y
  | OBool x, OBool y => Bool.eqb x y
  | ONone, ONone => true
  | OList f1 s1 l1, OList f2 s2 l2 =>
      Bool.eqb f1 f2 && Nat.eqb s1 s2 &&
      (fix go (l1 l2 : list obs) : bool :=
         match l1, l2 with
         | [], [] => true
         | x :: r1, y :: r2 => obs_eqb x y && go r1 r2
         | _, _ => false
         end) l1 l2
  | ONil, ONil => true
  | ODict f1 k1, ODict f2 k2 =>
      Bool.eqb f1 f2 &&
      (fix go (l1 l2 : list (str * obs)) : bool :=
         match l1, l2 with
         | [], [] => true
         | (ka, x) :: r1, (kb, y) :: r2 => str_eqb ka kb && obs_eqb x y && go r1 r2
         | _, _ => false
         end) k1 k2
  | ORange a1 b1 c1, ORange a2 b2 c2 => Z.eqb a1 a2 && Z.eqb b1 b2 && Z.eqb c1 c2
  | OFunc x, OFunc y => str_eqb x y
  | OOther, OOther => true
  | _, _ => false
  end.

(* "plain" rendering: what json.dumps prints on the Python side (no wrapper types, no capacity;
   a range is rendered as the list of its items by the Python prelude, so the comparison with
   CPython goes through obs_plain_eqb which treats frozen/unfrozen alike). *)
Fixpoint obs_plain_eqb (a b : obs) {struct a} : bool :=
  match a, b with
  | OInt x, OInt y => Z.eqb x y
  | OStr x, OStr y => str_eqb x y
  | OBool x, OBool y => Bool.eqb x y
  | ONone, ONone => true
  | OList _ _ l1, OList _ _ l2 =>
      (fix go (l1 l2 : list obs) : bool :=
         match l1, l2 with
         | [], [] => true
         | x :: r1, y :: r2 => obs_plain_eqb x y && go r1 r2
         | _, _ => false
         end) l1 l2
  | ODict _ k1, ODict _ k2 =>
      (fix go (l1 l2 : list (str * obs)) : bool :=
         match l1, l2 with
         | [], [] => true
         | (ka, x) :: r1, (kb, y) :: r2 => str_eqb ka kb && obs_plain_eqb x y && go r1 r2
         | _, _ => false
         end) k1 k2
  | OFunc x, OFunc y => str_eqb x y
  | _, _ => false
  end.

(* ---- results ---- *)
Inductive errkind :=
| EType        (* a panic of the interpreter: wrong operand types, bad index, unknown name, ... *)
| EUnsupported (* the program left the modelled fragment: the model refuses, it does not guess *)
| EFloat.      (* Python side only: the value is a float, which the BUILD language does not have *)

Inductive res (A : Type) :=
| Ok (a : A)
| Err (k : errkind)
| OutOfFuel.
Arguments Ok {A} a.
Arguments Err {A} k.
Arguments OutOfFuel {A}.

Definition binop_eqb (a b : binop) : bool :=
  match a, b with
  | Add, Add | Sub, Sub | Mul, Mul | Div, Div | FloorDiv, FloorDiv | Mod, Mod | Lt, Lt | Gt, Gt | Le, Le | Ge, Ge
  | Eq, Eq | Ne, Ne | In, In | NotIn, NotIn | And, And | Or, Or | Union, Union | Is, Is | IsNot, IsNot => true
  | _, _ => false
  end.

Definition all_binops : list binop :=
  [Add; Sub; Mul; Div; FloorDiv; Mod; Lt; Gt; Le; Ge; Eq; Ne; In; NotIn; And; Or; Union; Is; IsNot].
Definition all_unops : list unop := [Neg; Not].

(* comparison operators: the ones Python chains *)
Definition is_cmp (o : binop) : bool :=
  match o with Lt | Gt | Le | Ge | Eq | Ne | In | NotIn | Is | IsNot => true | _ => false end.
Definition is_lazy (o : binop) : bool := match o with And | Or => true | _ => false end.
