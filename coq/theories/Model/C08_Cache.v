(* C08 - the memoising wrapper build.RuleHash(state, target, runtime, postBuild) around ruleHash, as a small state
   machine.  Definitions only.  The wrapper's shape (`wrapper`, Model/C08.v) is regenerated from the source by gotrans
   (Gen/RuleHashProg.v `rule_hash_wrapper`); this file gives its semantics.

   State: the target's attributes (they CAN change between two calls: a pre-build function runs before the first hash of
   a build; a post-build function (add_out, set_command, add_label, add_dep ...) and the outputs found in an output
   directory change the target after it has been built) and the memo target.RuleHash (None = empty slice).
   Events: an attribute change, or a call of RuleHash(state, target, rt, pb) whose result is observed. *)
From PlzV Require Import Base.Harness Model.C08.

Fixpoint beval {V} (val : V -> bool) (e : bexp V) : bool :=
  match e with
  | BVar v => val v
  | BConst b => b
  | BNot a => negb (beval val a)
  | BAnd a b => beval val a && beval val b
  | BOr a b => beval val a || beval val b
  end.

Definition mvar_val (t : target) (v : mvar) : bool :=
  match v with
  | MPostBuildFn => t_post_build t                 (* target.PostBuildFunction != nil *)
  | MOutputDirs => negb (is_nil (t_output_dirs t))  (* len(target.OutputDirectories) > 0 *)
  end.

(* BuildTarget.BuildCouldModifyTarget() *)
Definition could_modify (w : wrapper) (t : target) : bool := beval (mvar_val t) (w_could_modify w).

(* What the build step really does, whatever BuildCouldModifyTarget says: it runs the post-build function if there is one
   and adds the files found in the output directories if there are any (build_step.go: runPostBuildFunction,
   addOutputDirectoriesToBuildOutput, addOutDirOutsFromMetadata).  This is the notion the property is stated with. *)
Definition build_can_modify (t : target) : bool := t_post_build t || negb (is_nil (t_output_dirs t)).

Definition wvar_val (rt pb cm : bool) (v : wvar) : bool :=
  match v with WRuntime => rt | WPostBuild => pb | WCouldModify => cm end.

Definition rt_of (a : rtarg) (rt : bool) : bool := match a with RtParam => rt | RtConst b => b end.

Inductive event :=
| EvSet (t' : target)        (* the attributes become t' (any change whatsoever) *)
| EvCall (rt pb : bool).     (* RuleHash(state, target, rt, pb) *)

(* one observed call: its arguments, the attributes at the time of the call, the value returned *)
Record call_obs (D : Type) := CallObs { c_rt : bool; c_pb : bool; c_target : target; c_result : D }.
Arguments CallObs {D} c_rt c_pb c_target c_result.
Arguments c_rt {D} c.
Arguments c_pb {D} c.
Arguments c_target {D} c.
Arguments c_result {D} c.

Section Machine.
  Variable D : Type.
  Variable H : str -> D.         (* SHA-1 *)
  Variable p : program.          (* ruleHash *)
  Variable w : wrapper.          (* RuleHash *)

  Definition mstate := (target * option D)%type.

  (* RuleHash(state, target, rt, pb): the value returned and the new memo *)
  Definition call (rt pb : bool) (st : mstate) : D * option D :=
    let (t, memo) := st in
    if beval (wvar_val rt pb (could_modify w t)) (w_bypass w) then (H (ser p (rt_of (w_bypass_rt w) rt) t), memo)
    else match memo with
         | Some h => (h, memo)
         | None => let h := H (ser p (rt_of (w_fill_rt w) rt) t) in (h, Some h)
         end.

  Fixpoint calls (st : mstate) (evs : list event) : list (call_obs D) :=
    match evs with
    | [] => []
    | EvSet t' :: r => calls (t', snd st) r
    | EvCall rt pb :: r =>
        let (h, memo) := call rt pb st in CallObs rt pb (fst st) h :: calls (fst st, memo) r
    end.

  (* The histories the build can produce: once a hash has been memoised, the attributes of a target change only if
     the build can modify it (it has a post-build function or output directories, before and after the change: neither
     can be removed).  Before anything is memoised (parsing, the pre-build function) every change is allowed. *)
  Fixpoint valid (st : mstate) (evs : list event) : Prop :=
    match evs with
    | [] => True
    | EvSet t' :: r =>
        (snd st = None \/ (build_can_modify (fst st) = true /\ build_can_modify t' = true)) /\ valid (t', snd st) r
    | EvCall rt pb :: r => valid (fst st, snd (call rt pb st)) r
    end.
End Machine.

(* ---------------------------------------------------------------------------------------------- cases *)

(* A history performed on ONE real core.BuildTarget: the attributes after construction, then attribute changes through
   the real adders (the stored state read back after each) and real build.RuleHash calls.  For each call the harness
   gives the stream whose SHA-1 IS the value the real call returned (found among the streams of the stored states seen so
   far, both runtime flags; a call whose value matches none of them is recorded with a stream no model can produce). *)
Inductive cev :=
| CSet (t : target)
| CCall (rt pb : bool) (stream : str).

Inductive ccase :=
| CRule (c : C08.case)
| CCache (t0 : target) (evs : list cev).

Definition cev_event (e : cev) : event :=
  match e with CSet t => EvSet t | CCall rt pb _ => EvCall rt pb end.

Definition cev_streams (evs : list cev) : list str :=
  flat_map (fun e => match e with CSet _ => [] | CCall _ _ st => [st] end) evs.

(* with the identity as hash function the machine returns the stream itself *)
Definition ccheck_with (p : program) (w : wrapper) (c : ccase) : bool :=
  match c with
  | CRule c => check_with p c
  | CCache t0 evs =>
      list_eqb str_eqb
        (map (@c_result str) (calls str (fun x => x) p w (t0, None) (map cev_event evs)))
        (cev_streams evs)
  end.
