(* C33 - visibility and test_only restrictions.  Executable model of
     src/core/build_label.go : IsAllSubpackages, IsAllTargets, Includes, Parent, CanSee, isExperimental
     src/core/build_target.go: BuildTarget.CanSee, CheckDependencyVisibility
     src/core/state.go       : experimentalLabels built from config.Parse.ExperimentalDir
   Labels are records of three byte strings; every prefix test is the textual one the code performs.
   No proofs here. *)
From PlzV Require Import Base.Harness.

(* type BuildLabel struct { PackageName, Name, Subrepo string } *)
Record label := mkLabel { l_sub : str; l_pkg : str; l_name : str }.

Definition label_eqb (a b : label) : bool :=
  str_eqb (l_sub a) (l_sub b) && str_eqb (l_pkg a) (l_pkg b) && str_eqb (l_name a) (l_name b).

(* the fields of BuildTarget that CheckDependencyVisibility reads:
   Label, Visibility, Test != nil, TestOnly, dependencies[i].declared (in declaration order) *)
Record target := mkTarget {
  t_label : label; t_vis : list label; t_test : bool; t_testonly : bool; t_deps : list label }.

(* strings.HasPrefix x p *)
Fixpoint has_prefix (p x : str) : bool :=
  match p, x with
  | [], _ => true
  | a :: p', b :: x' => N.eqb a b && has_prefix p' x'
  | _ :: _, [] => false
  end.

Definition dots : str := s "...".
Definition all_ : str := s "all".
Definition slash : str := s "/".
Definition hash_c : N := 35.        (* '#' *)
Definition underscore_c : N := 95.  (* '_' *)

Definition is_all_subpackages (l : label) : bool := str_eqb (l_name l) dots.
Definition is_all_targets (l : label) : bool := str_eqb (l_name l) all_.

(* func (label BuildLabel) Includes(that BuildLabel) bool   -- Subrepo is not looked at *)
Definition includes (lab that : label) : bool :=
  if (str_eqb (l_pkg lab) [] && is_all_subpackages lab)
     || str_eqb (l_pkg that) (l_pkg lab)
     || has_prefix (l_pkg lab ++ slash) (l_pkg that)
  then
    if is_all_subpackages lab then true
    else if str_eqb (l_pkg lab) (l_pkg that)
         then str_eqb (l_name lab) (l_name that) || is_all_targets lab
         else false
  else false.

(* strings.IndexRune(name, '#') and name[:index]: Some (bytes before the first '#') / None *)
Fixpoint before (c : N) (x : str) : option str :=
  match x with
  | [] => None
  | a :: r => if N.eqb a c then Some []
              else match before c r with Some p => Some (a :: p) | None => None end
  end.

(* strings.TrimLeft(x, "_") *)
Fixpoint trim_left (c : N) (x : str) : str :=
  match x with
  | a :: r => if N.eqb a c then trim_left c r else x
  | [] => []
  end.

(* func (label BuildLabel) Parent() BuildLabel *)
Definition parent (l : label) : label :=
  match before hash_c (l_name l) with
  | None => l
  | Some pre =>
      if has_prefix [underscore_c] (l_name l)
      then mkLabel (l_sub l) (l_pkg l) (trim_left underscore_c pre)
      else l
  end.

(* state.experimentalLabels = [BuildLabel{PackageName: exp, Name: "..."} for exp in ExperimentalDir] *)
Definition state := list str.     (* config.Parse.ExperimentalDir *)
Definition exp_labels (st : state) : list label := map (fun d => mkLabel [] d dots) st.

(* func (label BuildLabel) isExperimental(state) bool *)
Definition is_experimental (st : state) (l : label) : bool :=
  if negb (str_eqb (l_sub l) []) then false
  else existsb (fun e => includes e l) (exp_labels st).

(* func (label BuildLabel) CanSee(state, dep *BuildTarget) bool *)
Definition can_see (st : state) (lab : label) (dep : target) : bool :=
  if str_eqb (l_pkg lab) (l_pkg (t_label dep)) then true
  else if is_experimental st (t_label dep) && negb (is_experimental st lab) then false
  else
    let p := parent lab in
    if existsb (fun v => includes v p) (t_vis dep) then true
    else if str_eqb (l_pkg (t_label dep)) (l_pkg p) then true
    else if is_experimental st lab then true
    else false.

(* state.Graph.TargetOrDie: the graph is keyed by the whole label *)
Definition graph := list target.
Fixpoint lookup (g : graph) (l : label) : option target :=
  match g with
  | [] => None
  | t :: r => if label_eqb (t_label t) l then Some t else lookup r l
  end.

Inductive result :=
| ROk
| RInvisible (dep : label)     (* "Target <dep> isn't visible to <target>" *)
| RTestOnly (dep : label)      (* "Target <target> can't depend on <dep>, it's marked test_only" *)
| RDie (declared : label).     (* TargetOrDie on a label that is not in the graph *)

(* the loop of CheckDependencyVisibility over target.dependencies *)
Fixpoint check_deps (st : state) (g : graph) (t : target) (ds : list label) : result :=
  match ds with
  | [] => ROk
  | dl :: r =>
      match lookup g dl with
      | None => RDie dl
      | Some dep =>
          if negb (can_see st (t_label t) dep) then RInvisible (t_label dep)
          else if t_testonly dep && negb (t_test t) && negb (t_testonly t) then
            if is_experimental st (t_label t) then check_deps st g t r
            else RTestOnly (t_label dep)
          else check_deps st g t r
      end
  end.

Definition check_visibility (st : state) (g : graph) (t : target) : result :=
  check_deps st g t (t_deps t).

(* ---- correspondence cases ---- *)
Inductive case :=
| CCheck (st : state) (g : graph) (t : target) (out : result)
| CCanSee (st : state) (lab : label) (dep : target) (out : bool)
| CIncludes (a b : label) (out : bool)
| CParent (l out : label).

Definition result_eqb (a b : result) : bool :=
  match a, b with
  | ROk, ROk => true
  | RInvisible x, RInvisible y => label_eqb x y
  | RTestOnly x, RTestOnly y => label_eqb x y
  | RDie x, RDie y => label_eqb x y
  | _, _ => false
  end.

Definition check (c : case) : bool :=
  match c with
  | CCheck st g t out => result_eqb (check_visibility st g t) out
  | CCanSee st lab dep out => Bool.eqb (can_see st lab dep) out
  | CIncludes a b out => Bool.eqb (includes a b) out
  | CParent l out => label_eqb (parent l) out
  end.
