(* C20 - build labels round-trip; target patterns select exactly their targets.
   Executable model of
     src/core/build_label.go : validatePackageName, validateTargetName, TryParseBuildLabel, ParseBuildLabelParts,
                               parseBuildLabelSubrepo, String, IsOriginalTarget, Includes, Matches, Parent,
                               isExperimental, CanSee
     src/core/state.go       : NewBuildState (experimentalLabels), BuildState.ShouldInclude / AddOriginalTarget
                               (the ExcludeTargets test), expandOriginalPseudoTarget (package selection),
                               SetIncludeAndExclude (with the caller's slice as state: sie_with)
     src/core/build_label.go : LooksLikeABuildLabel, parseMaybeRelativeBuildLabel (the part that needs no repo root)
     src/please.go           : the one option slice of a process, appended to and handed to a fresh state per build (op)
     src/parse/asp/targets.go: validateSandbox
   A Go string is its bytes (Base.Harness.str).  Every strings.* function used is called with ASCII
   arguments only, so the byte model is exact (IndexRune(':'), ContainsAny(ASCII set), TrimRight("/") ...).
   The character sets, reserved suffixes, the sentinel and the three selection conditions (Matches' `...`
   branch, the outer test of Includes, the experimental-dir test of validateSandbox) are NOT written here:
   they come from Gen/LabelTables.v, regenerated from the source by gotrans at every check.

   Slicing is modelled by splitting: `idx := IndexRune(t, ':'); t[:idx], t[idx+1:]` is `split_byte`;
   `idx := Index(t, "//"); t[:idx], t[idx:]` is `split_dslash`; `t[LastIndexByte(t,'/')+1:]` (or t when there
   is no slash) is `last_seg`.  ParseBuildLabelParts and parseBuildLabelSubrepo call each other on ever
   shorter suffixes; the model recurses on explicit fuel (length of the string + 1), `None` = out of fuel,
   proved unreachable (Proof/C20_Parse.v parts_fuel_enough, try_parse_never_out_of_fuel).

   Not modelled: the repo-root half of parseMaybeRelativeBuildLabel (MustFindRepoRoot, filepath.Join), the directory walk behind a
   command-line `//p/...` (FindAllBuildFiles: property C22), subrepo packages in PackageMap, logging.
   No proofs here. *)
From Coq Require Import String.
From PlzV Require Import Base.Harness Gen.LabelTables.
Local Open Scope list_scope.

Definition lit (x : string) : str := s x.

(* ---- strings ------------------------------------------------------------------------------------------ *)

Definition has_prefix := LabelTables.has_prefix.          (* strings.HasPrefix(x, pre) = has_prefix pre x *)
Definition has_suffix (suf x : str) : bool := has_prefix (rev suf) (rev x).

Definition is_nil {A} (l : list A) : bool := match l with [] => true | _ => false end.

Definition mem_byte (c : N) (set : str) : bool := existsb (N.eqb c) set.
(* strings.ContainsAny(x, set), set ASCII *)
Definition contains_any (x set : str) : bool := existsb (fun c => mem_byte c set) x.
(* strings.Contains(x, "//") *)
Fixpoint contains_dslash (x : str) : bool :=
  match x with
  | a :: ((b :: _) as r) => (N.eqb a 47 && N.eqb b 47) || contains_dslash r
  | _ => false
  end.

(* idx := IndexRune/IndexByte(x, c): Some (x[:idx], x[idx+1:]) *)
Fixpoint split_byte (c : N) (x : str) : option (str * str) :=
  match x with
  | [] => None
  | b :: r => if N.eqb b c then Some ([], r)
              else match split_byte c r with Some (p, q) => Some (b :: p, q) | None => None end
  end.

(* idx := strings.Index(x, "//"): Some (x[:idx], x[idx:]) *)
Fixpoint split_dslash (x : str) : option (str * str) :=
  match x with
  | a :: ((b :: _) as r) =>
      if N.eqb a 47 && N.eqb b 47 then Some ([], x)
      else match split_dslash r with Some (p, q) => Some (a :: p, q) | None => None end
  | _ => None
  end.

Fixpoint take_while (f : N -> bool) (x : str) : str :=
  match x with [] => [] | b :: r => if f b then b :: take_while f r else [] end.
Fixpoint drop_while (f : N -> bool) (x : str) : str :=
  match x with [] => [] | b :: r => if f b then drop_while f r else x end.

(* if idx := LastIndexByte(x, '/'); idx != -1 { x[idx+1:] } else { x } *)
Definition last_seg (x : str) : str := rev (take_while (fun b => negb (N.eqb b 47)) (rev x)).
(* strings.TrimRight(x, "/"), strings.TrimLeft(x, "_") *)
Definition trim_right (c : N) (x : str) : str := rev (drop_while (N.eqb c) (rev x)).
Definition trim_left (c : N) (x : str) : str := drop_while (N.eqb c) x.
(* x[:len(x)-n] *)
Definition drop_last (n : nat) (x : str) : str := rev (skipn n (rev x)).

Definition head_is (c : N) (x : str) : bool := match x with b :: _ => N.eqb b c | [] => false end.
Definition last_is (c : N) (x : str) : bool := head_is c (rev x).

(* ---- validatePackageName / validateTargetName ----------------------------------------------------------- *)

(* name == "" || (name[0] != '/' && name[len(name)-1] != '/' && !ContainsAny(name, set) && !Contains(name, "//")) *)
Definition valid_pkg (n : str) : bool :=
  is_nil n || (negb (head_is 47 n) && negb (last_is 47 n) && negb (contains_any n (lit pkg_forbidden))
               && negb (contains_dslash n)).

(* name != "" && !ContainsAny(name, set) && (name[0] != '.' || name == "...") && !HasSuffix(._build) && !HasSuffix(._test) *)
Definition valid_name (n : str) : bool :=
  negb (is_nil n) && negb (contains_any n (lit name_forbidden))
  && (negb (head_is 46 n) || str_eqb n (lit all_subpackages_name))
  && negb (has_suffix (lit build_dir_suffix) n) && negb (has_suffix (lit test_dir_suffix) n).

(* ---- labels ------------------------------------------------------------------------------------------- *)

Record label := L { l_pkg : str; l_name : str; l_sub : str }.

Definition label_eqb (a b : label) : bool :=
  str_eqb (l_pkg a) (l_pkg b) && str_eqb (l_name a) (l_name b) && str_eqb (l_sub a) (l_sub b).

Definition zero_label := L [] [] [].
Definition original_target := L [] (lit original_target_name) [].
Definition is_all_sub (l : label) : bool := str_eqb (l_name l) (lit all_subpackages_name).
Definition is_all_targets (l : label) : bool := str_eqb (l_name l) (lit all_targets_name).

(* ---- ParseBuildLabelParts / parseBuildLabelSubrepo ------------------------------------------------------ *)

Definition parts := (str * str * str)%type.
Definition fail3 : parts := ([], [], []).

(* parseBuildLabelSubrepo(target, currentPath); `rec` is ParseBuildLabelParts with less fuel *)
Definition subrepo_with (rec : str -> str -> str -> option parts) (target cur : str) : option parts :=
  let continue (pq : str * str) :=
    let (pre, rest) := pq in
    if mem_byte 58 pre then Some fail3                      (* strings.ContainsRune(target[:idx], ':') *)
    else match rec rest cur [] with
         | Some (p, n, _) => Some (p, n, pre)
         | None => None
         end in
  match split_dslash target with
  | Some pq => continue pq
  | None =>
      match split_byte 58 target with
      | Some (pre, post) => continue (pre, 58%N :: post)     (* target[:idx], target[idx:] *)
      | None => Some ([], last_seg target, target)           (* both `@sub/dir/name` and `@name` *)
      end
  end.

Fixpoint parts_fuel (fuel : nat) (target cur subrepo : str) : option parts :=
  match fuel with
  | O => None
  | S f =>
      match target with
      | c0 :: ((c1 :: r2) as r1) =>                                         (* len(target) >= 2 *)
          if N.eqb c0 58 then
            if valid_name r1 then Some (cur, r1, []) else Some fail3
          else if N.eqb c0 64 then subrepo_with (parts_fuel f) r1 cur
          else if has_prefix (lit "///") target then subrepo_with (parts_fuel f) (skipn 3 target) cur
          else if negb (N.eqb c0 47) || negb (N.eqb c1 47) then Some fail3
          else match split_byte 58 target with
               | Some (pre, name) =>
                   let pkg := skipn 2 pre in
                   if negb (valid_pkg pkg) || negb (valid_name name) || str_eqb name (lit all_subpackages_name)
                   then Some fail3 else Some (pkg, name, subrepo)
               | None =>
                   if negb (valid_pkg r2) then Some fail3
                   else if has_suffix (lit "/...") target
                   then Some (trim_right 47 (drop_last 3 r2), lit all_subpackages_name, [])
                   else Some (r2, last_seg r2, subrepo)
                   (* LastIndexByte(target,'/') always finds the second slash, so the third return of the Go
                      code (`target[2:], target[2:]`) is dead; last_seg r2 = target[idx+1:] since r2 = target[2:] *)
               end
      | _ => Some fail3
      end
  end.

Definition parse_parts (target cur subrepo : str) : option parts :=
  parts_fuel (S (length target)) target cur subrepo.

(* TryParseBuildLabel: error iff name == "".  None here = error; out of fuel is reported as OutOfFuel. *)
Inductive parsed := Parsed (l : label) | Invalid | OutOfFuel.

Definition try_parse (target cur subrepo : str) : parsed :=
  match parse_parts target cur subrepo with
  | None => OutOfFuel
  | Some (p, n, sr) => if is_nil n then Invalid else Parsed (L p n sr)
  end.

(* ---- String() ----------------------------------------------------------------------------------------- *)

Definition print (l : label) : str :=
  if label_eqb l zero_label then []
  else if label_eqb l original_target then lit original_target_string
  else
    let s0 := lit "//" ++ l_pkg l in
    let s1 := if is_nil (l_sub l) then s0 else lit "///" ++ l_sub l ++ s0 in
    (* the order of `if label.Subrepo != "" { s = "///" + ... }` and the `...` returns is the source's (Gen) *)
    let s := if print_subrepo_prefix_first then s1 else s0 in
    if is_all_sub l then (if is_nil (l_pkg l) then s ++ lit "..." else s ++ lit "/...")
    else s1 ++ lit ":" ++ l_name l.

(* ---- the known ways a parsed label fails to print to something that parses back to it ------------------------- *)

Inductive defect := ImpliedNameUnvalidated | SubrepoTrailingSlash | OriginalTargetSentinel.

(* ImpliedNameUnvalidated: the name is not a valid target name (only the short forms //pkg, @sub, ///sub produce one:
   they take the last path component unchecked).  SubrepoTrailingSlash: the subrepo ends in '/' (@sub/:name).
   OriginalTargetSentinel: //:_ORIGINAL, which String() prints as "command-line targets". *)
Definition defect_class (l : label) : option defect :=
  if label_eqb l original_target then Some OriginalTargetSentinel
  else if negb (valid_name (l_name l)) then Some ImpliedNameUnvalidated
  else if last_is 47 (l_sub l) then Some SubrepoTrailingSlash
  else None.

(* ---- Includes / Matches / Parent ------------------------------------------------------------------------ *)

Definition includes (pat that : label) : bool :=
  if includes_guard_cond (l_pkg pat) (l_pkg that) (is_all_sub pat) then
    if is_all_sub pat then true
    else if str_eqb (l_pkg pat) (l_pkg that) then str_eqb (l_name pat) (l_name that) || is_all_targets pat
    else false
  else false.

(* index := IndexRune(Name,'#'); if index == -1 || !HasPrefix(Name,"_") { return label }; Name = TrimLeft(Name[:index], "_") *)
Definition parent (l : label) : label :=
  match split_byte 35 (l_name l) with
  | None => l
  | Some (pre, _) => if negb (head_is 95 (l_name l)) then l else L (l_pkg l) (trim_left 95 pre) (l_sub l)
  end.

Definition matches (pat other : label) : bool :=
  if is_all_sub pat then matches_allsub_cond (l_pkg pat) (l_pkg other)
  else if is_all_targets pat then str_eqb (l_pkg pat) (l_pkg other)
  else label_eqb pat (parent other).

(* ---- experimental directories --------------------------------------------------------------------------- *)

(* NewBuildState: experimentalLabels = [BuildLabel{PackageName: exp, Name: "..."} for exp in ExperimentalDir] *)
Definition experimental_labels (dirs : list str) : list label :=
  map (fun d => L d (lit all_subpackages_name) []) dirs.

Definition is_experimental (dirs : list str) (l : label) : bool :=
  (* `if label.Subrepo != "" { return false }`: there or not as in the source (Gen) *)
  if is_experimental_subrepo_guard && negb (is_nil (l_sub l)) then false
  else existsb (fun e => includes e l) (experimental_labels dirs).

(* BuildLabel.CanSee(state, dep): dep is given by its label and its visibility list *)
Definition can_see (dirs : list str) (l dep : label) (vis : list label) : bool :=
  if str_eqb (l_pkg l) (l_pkg dep) then true
  else if is_experimental dirs dep && negb (is_experimental dirs l) then false
  else
    let p := parent l in
    if existsb (fun v => includes v p) vis then true
    else if str_eqb (l_pkg dep) (l_pkg p) then true
    else is_experimental dirs l.

(* ---- validateSandbox ------------------------------------------------------------------------------------ *)

Record sbx_target := T {
  t_label : label; t_filegroup : bool; t_remote : bool; t_sandbox : bool;
  t_test : option bool                                    (* target.Test == nil, or Some target.Test.Sandbox *)
}.

(* true = nil error (accepted) *)
Definition validate_sandbox (whitelist : list label) (dirs : list str) (t : sbx_target) : bool :=
  if t_filegroup t || is_nil whitelist then true
  else if negb (t_remote t) && (t_sandbox t && match t_test t with None => true | Some b => b end) then true
  else if str_eqb (l_pkg (t_label t)) (lit "_please") then true
  else if existsb (fun w => matches w (t_label t)) whitelist then true
  else existsb (fun d => sandbox_expdir_cond (l_pkg (t_label t)) d) dirs.

(* ---- exclusion and expansion of pseudo-targets (state.go) ---------------------------------------------------- *)

(* for _, e := range state.ExcludeTargets { if e.Includes(label) { excluded } } *)
Definition excluded (excl : list label) (l : label) : bool := existsb (fun e => includes e l) excl.

(* expandOriginalPseudoTarget, package selection: for name := range PackageMap() { if label.Includes(BuildLabel{PackageName: name}) } ;
   for :all, PackageByLabel(label) *)
Definition selected_packages (pat : label) (pkgs : list str) : list str :=
  if is_all_targets pat then filter (str_eqb (l_pkg pat)) pkgs
  else filter (fun q => includes pat (L q [] [])) pkgs.

(* the labels it returns (no include/exclude tags, justTests = false), before sort.Sort *)
Definition expand (excl : list label) (pat : label) (graph : list (str * list str)) : list label :=
  flat_map (fun pn : str * list str =>
              if existsb (str_eqb (fst pn)) (selected_packages pat (map fst graph))
              then filter (fun l => negb (excluded excl l)) (map (fun n => L (fst pn) n []) (snd pn))
              else []) graph.

(* ---- SetIncludeAndExclude and the caller's exclude slice (state.go, please.go) ------------------------------- *)

(* LooksLikeABuildLabel: the condition is translated from the source (Gen.looks_like_label_cond). *)
Definition looks_like_label (e : str) : bool := looks_like_label_cond e.

(* parseMaybeRelativeBuildLabel(e, ""): a string that starts with ':' or that neither parses nor starts with "//" needs the
   repository root (MustFindRepoRoot, InitialPackagePath) - not modelled: None.  None is also log.Fatalf (the exclude does
   not parse): in both cases the process does not get past SetIncludeAndExclude. *)
Definition parse_exclude (e : str) : option label :=
  if has_prefix (lit ":") e then None
  else
    let t := if negb (has_prefix (lit "//") e) && has_prefix (lit "/") e then 47%N :: e else e in
    match try_parse t [] [] with
    | Parsed l => Some l
    | _ => None
    end.

(* A Go slice of strings as the callee sees it.  The caller's exclude slice is `arr` (its elements [0:len]); the
   state's Exclude is either backed by an array of its own (Fresh, nil included) or is the view arr[0:n] of the
   CALLER's backing array (Alias n).  append on a view whose length is below the array's writes in place. *)
Inductive gslice := Fresh (l : list str) | Alias (n : nat).

Fixpoint set_nth (n : nat) (e : str) (arr : list str) : list str :=
  match arr, n with
  | [], _ => []
  | _ :: r, O => e :: r
  | a :: r, S n' => a :: set_nth n' e r
  end.

Definition slice_elems (arr : list str) (sl : gslice) : list str :=
  match sl with Fresh l => l | Alias n => firstn n arr end.

(* x = append(x, e).  The view never outgrows the part of the array the caller can see (Proof/C20_Exclude.v alias_inv:
   n <= index of the loop < len); beyond it the append no longer touches what the caller sees, and the model lets it
   move to an array of its own. *)
Definition slice_append (arr : list str) (sl : gslice) (e : str) : list str * gslice :=
  match sl with
  | Fresh l => (arr, Fresh (l ++ [e]))
  | Alias n => if Nat.ltb n (length arr) then (set_nth n e arr, Alias (S n)) else (arr, Fresh (firstn n arr ++ [e]))
  end.

(* for _, e := range exclude { ... }: k elements to go, i the index; e is read from the array as it is NOW *)
Fixpoint sie_loop (k i : nat) (arr : list str) (ex : gslice) (et : list label) : option (list str * gslice * list label) :=
  match k with
  | O => Some (arr, ex, et)
  | S k' =>
      let e := nth i arr [] in
      if looks_like_label e then
        match parse_exclude e with
        | Some l => sie_loop k' (S i) arr ex (et ++ [l])
        | None => None
        end
      else let (arr', ex') := slice_append arr ex e in sie_loop k' (S i) arr' ex' et
  end.

Definition init_slice (i : slice_init) : gslice :=
  match i with InitNil => Fresh [] | InitArgEmptyPrefix => Alias 0 end.

(* state.SetIncludeAndExclude(include, exclude) on a state whose ExcludeTargets are et0 (they are appended to, never reset):
   Some (the caller's slice afterwards, state.Exclude, state.ExcludeTargets) *)
Definition sie_with (init : slice_init) (et0 : list label) (arr : list str) : option (list str * list str * list label) :=
  match sie_loop (length arr) 0 arr (init_slice init) et0 with
  | Some (arr', ex, et) => Some (arr', slice_elems arr' ex, et)
  | None => None
  end.

(* the function as the source has it today: the initialisation is the translated one *)
Definition set_include_exclude := sie_with sie_exclude_init.

(* One plz process (src/please.go): opts.BuildFlags.Exclude is ONE slice for the whole process;
   OAppend xs = `opts.BuildFlags.Exclude = append(opts.BuildFlags.Exclude, xs...)` (query changes, runBuild),
   OBuild     = Please(): a fresh state, state.SetIncludeAndExclude(.., opts.BuildFlags.Exclude).
   Observed at every build: the option slice after the call, state.Exclude, state.ExcludeTargets and, for the probe
   labels, whether ShouldInclude / AddOriginalTarget drop them (`excluded`). *)
Inductive op := OAppend (xs : list str) | OBuild.

Definition build_obs := (list str * list str * list label * list bool)%type.

Fixpoint run_session_with (init : slice_init) (probes : list label) (ops : list op) (arr : list str) : option (list build_obs) :=
  match ops with
  | [] => Some []
  | OAppend xs :: r => run_session_with init probes r (arr ++ xs)
  | OBuild :: r =>
      match sie_with init [] arr with
      | None => None
      | Some (arr', ex, et) =>
          match run_session_with init probes r arr' with
          | Some os => Some ((arr', ex, et, map (excluded et) probes) :: os)
          | None => None
          end
      end
  end.

Definition run_session := run_session_with sie_exclude_init.

(* ---- correspondence cases ------------------------------------------------------------------------------- *)

(* all strings prefix ++ w, |w| <= depth, over the alphabet, in pre-order *)
Fixpoint enum (alphabet : str) (depth : nat) (prefix : str) : list str :=
  prefix :: match depth with
            | O => []
            | S d => flat_map (fun c => enum alphabet d (prefix ++ [c])) alphabet
            end.

Definition accepted (cur : str) (xs : list str) : list (str * label) :=
  flat_map (fun x => match try_parse x cur [] with Parsed l => [(x, l)] | _ => [] end) xs.

(* The accepted strings of a group with their labels as one byte string - per entry
   target SP pkg SP name SP subrepo '|' - and a 60-bit polynomial digest of it.  SP and '|' occur in no string
   over the enumeration alphabet the harness uses, nor in its current package, so the encoding is injective
   there.  Large groups are compared by (number of accepted strings, digest): a list of 30 000 string literals
   takes Coq minutes to elaborate.  Groups of short strings are compared entry by entry (CEnum). *)
Definition encode_accepted (l : list (str * label)) : str :=
  flat_map (fun e : str * label =>
              fst e ++ 32%N :: l_pkg (snd e) ++ 32%N :: l_name (snd e) ++ 32%N :: l_sub (snd e) ++ [124%N]) l.

(* h := (h*257 + b + 1) mod 2^60 *)
Definition digest_step (h b : N) : N := N.land (N.shiftl h 8 + h + b + 1) 1152921504606846975%N.
Definition digest (x : str) : N := fold_left digest_step x 0%N.

Definition pair_eqb (a b : str * label) : bool := str_eqb (fst a) (fst b) && label_eqb (snd a) (snd b).

Inductive case :=
| CEnum (alphabet : str) (depth : nat) (prefix cur : str) (acc : list (str * label))
| CEnumDigest (alphabet : str) (depth : nat) (prefix cur : str) (count : nat) (dig : N)
| CParse (target cur subrepo : str) (out : option label)
| CPrint (l : label) (out : str)
| CSelect (pats others : list label) (inc mat : list (list bool))   (* Includes / Matches, one row per pattern *)
| CParent (l out : label)
| CSandbox (whitelist : list label) (dirs : list str) (t : sbx_target) (ok : bool)
| CCanSee (dirs : list str) (l dep : label) (vis : list label) (out : bool)
| CExpand (excl : list label) (pat : label) (graph : list (str * list str)) (out : list label)
| CSession (arr0 : list str) (ops : list op) (probes : list label) (out : list build_obs)
    (* one process: the option slice, appends and builds; per build (slice after, Exclude, ExcludeTargets, excluded probes) *)
| CBatch (cs : list case).                       (* several small cases in one (one Coq case costs ~5 ms of overhead) *)

Definition parsed_eqb (p : parsed) (o : option label) : bool :=
  match p, o with
  | Parsed l, Some l' => label_eqb l l'
  | Invalid, None => true
  | _, _ => false
  end.

Definition subset_eqb (a b : list label) : bool :=
  forallb (fun x => existsb (label_eqb x) b) a && forallb (fun x => existsb (label_eqb x) a) b
  && Nat.eqb (length a) (length b).

Definition obs_eqb (a b : build_obs) : bool :=
  match a, b with
  | (arr, ex, et, ex_row), (arr', ex', et', ex_row') =>
      list_eqb str_eqb arr arr' && list_eqb str_eqb ex ex' && list_eqb label_eqb et et' && list_eqb Bool.eqb ex_row ex_row'
  end.

Fixpoint check (c : case) : bool :=
  match c with
  | CEnum al d pre cur acc => list_eqb pair_eqb (accepted cur (enum al d pre)) acc
  | CEnumDigest al d pre cur n dig =>
      let acc := accepted cur (enum al d pre) in
      Nat.eqb (length acc) n && N.eqb (digest (encode_accepted acc)) dig
  | CParse t cur sr out => parsed_eqb (try_parse t cur sr) out
  | CPrint l out => str_eqb (print l) out
  | CSelect pats others inc mat =>
      list_eqb (list_eqb Bool.eqb) (map (fun p => map (includes p) others) pats) inc
      && list_eqb (list_eqb Bool.eqb) (map (fun p => map (matches p) others) pats) mat
  | CParent l out => label_eqb (parent l) out
  | CSandbox w d t ok => Bool.eqb (validate_sandbox w d t) ok
  | CCanSee d l dep vis out => Bool.eqb (can_see d l dep vis) out
  | CExpand excl pat g out => subset_eqb (expand excl pat g) out      (* the implementation sorts; compared as sets of equal size *)
  | CSession arr0 ops probes out =>
      match run_session probes ops arr0 with
      | Some os => list_eqb obs_eqb os out
      | None => false
      end
  | CBatch cs => forallb check cs
  end.
