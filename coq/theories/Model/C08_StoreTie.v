(* C08 - the correspondence check of bin/check C08: the cases of Model/C08_CacheTie.v, histories of builds against one
   output directory (Model/C08_Store.v) and targets whose sources are given as BuildInputs (Model/C08_Srcs.v), all
   instantiated with what gotrans regenerated from the source. *)
From PlzV Require Import Base.Harness Model.C08 Model.C08_Cache Model.C08_CacheTie Model.C08_Store Model.C08_Srcs
  Gen.RuleHashProg.

(* One step of a history performed with the REAL needsBuilding / writeRuleHash on real files: a build of the definition t
   (other = the harness rebuilds whatever needsBuilding says; needs = what the real needsBuilding answered), or the
   deletion of a file. *)
Inductive sev :=
| SBuild (t : target) (other needs : bool)
| SRemove (o : str).

Inductive case :=
| SOld (c : C08_CacheTie.case)
| SStore (evs : list sev) (final : list (str * option str))
    (* final: for every path of the history, the stream whose SHA-1 is the rule part of the record found on the file at the
       end (None: no file or no record) *)
| SSrcs (rt : bool) (t : target) (ins : list input) (named : igroups) (stream : str).
    (* t is the stored state of a real target whose Sources / NamedSources are these inputs *)

Definition sev_event (e : sev) : sevent :=
  match e with SBuild t other _ => SvBuild t other | SRemove o => SvRemove o end.
Definition sev_obs (evs : list sev) : list bool :=
  flat_map (fun e => match e with SBuild _ _ nb => [nb] | SRemove _ => [] end) evs.

Definition stores_b (t : target) (ins : list input) (named : igroups) : bool :=
  list_eqb str_eqb (t_srcs t) (map input_string ins)
  && list_eqb (fun a b => str_eqb (fst a) (fst b) && list_eqb str_eqb (snd a) (snd b)) (t_named_srcs t) (strs_of named).

Definition check (c : case) : bool :=
  match c with
  | SOld c => C08_CacheTie.check c
  | SStore evs final =>
      let (dk, obs) := srun str str_eqb (fun x => x) prog stored_reader_body [] (map sev_event evs) in
      list_eqb Bool.eqb obs (sev_obs evs)
      && forallb (fun pf => option_eqb str_eqb (attr_of str dk (fst pf)) (snd pf)) final
  | SSrcs rt t ins named stream =>
      stores_b t ins named && str_eqb (ser_srcs prog srcs_skip rt t ins named) stream
  end.
