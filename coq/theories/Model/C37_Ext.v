(* C37, extension - require/provide in dependency resolution, and $(worker ...) commands.  Executable model of
     src/core/build_target.go        : provideFor (the nil/empty test, the guards, the loop over other.Requires),
                                        isDataFor, resolveOneDependency (what DependenciesFor(label) holds after
                                        resolution: the target itself, or the targets it provides for the requirer)
     src/core/command_replacements.go : replaceSequenceLabel on resolved dependencies (deps[0], IsTool(label) asked of
                                        the label as DECLARED), workerReplacement (the regular expression),
                                        workerAndArgs, replaceWorkerSequence, ReplaceTestSequences with its $(worker test,
                                        WorkerCommandAndArgs / TestWorkerCommand (both are workerAndArgs on a command)
   The guards of provideFor (provide_guards) and the body of workerAndArgs (worker_steps: a straight-line program
   over the error variable, with the literal flags of the worker expansion) are regenerated from the source by
   gotrans (Gen/CmdReplTables.v); this file interprets whatever is listed there.
   Everything else (check_and_replace, scan, the passes, quote, ...) is Model/C37.v, used as it is.
   Not modelled: provides of provided targets (recursivelyProvideFor), provides on sources (IterSources of a source
   label), fs.ExpandHomePath (worker names do not contain ~), strings.TrimSpace on non-ASCII white space.
   No proofs here. *)
From Coq Require Import String.
From PlzV Require Import Base.Harness Gen.CmdReplTables.
From PlzV Require Model.C20.
From PlzV Require Import Model.C37.
Local Open Scope list_scope.

(* ---- require / provide -------------------------------------------------------------------------------------------- *)

Record pext := PX {
  px_requires : list str;                              (* Requires of the current target, in order *)
  px_provides : list (lbl * list (str * list lbl));    (* Provides of the targets of the graph that have a non-nil map *)
  px_data : list lbl }.                                (* labels of AllData() of the current target *)

Definition no_px : pext := PX [] [] [].

Fixpoint assoc_lbl {B} (k : lbl) (m : list (lbl * B)) : option B :=
  match m with
  | [] => None
  | (a, b) :: r => if lbl_eqb a k then Some b else assoc_lbl k r
  end.

(* `if <cond> { return nil, false }` *)
Definition guard_fires (w : world) (px : pext) (d : lbl) (g : provide_guard) : bool :=
  match g with
  | GuardData => existsb (lbl_eqb d) (px_data px)      (* target.isDataFor(other) *)
  | GuardTool => is_tool w d                            (* other.IsTool(target.Label) *)
  end.

(* for _, require := range other.Requires { if label, present := target.Provides[require]; present { ret = append(ret, label...); found = true } } *)
Fixpoint collect (pv : list (str * list lbl)) (reqs : list str) : list lbl * bool :=
  match reqs with
  | [] => ([], false)
  | r :: rest =>
      let (ls, f) := collect pv rest in
      match assoc r pv with Some l => (l ++ ls, true) | None => (ls, f) end
  end.

(* depTarget.provideFor(target), depTarget = the target labelled d *)
Definition provide_for (guards : list provide_guard) (w : world) (px : pext) (d : lbl) : option (list lbl) :=
  match assoc_lbl d (px_provides px) with
  | None => None                                        (* target.Provides == nil *)
  | Some pv =>
      if is_nil (px_requires px) then None
      else if existsb (guard_fires w px d) guards then None
      else let (ls, f) := collect pv (px_requires px) in if f then Some ls else None
  end.

(* resolveOneDependency: the labels of dep.deps for the declared label k *)
Definition resolve (w : world) (px : pext) (k : lbl) : list lbl :=
  match provide_for provide_guards w px k with Some ls => ls | None => [k] end.

(* replaceSequenceLabel: deps := target.DependenciesFor(label); len(deps) == 0 -> panic; deps[0], target.IsTool(label) *)
Definition replace_label_p (w : world) (px : pext) (test : bool) (fl : flags) (l : C20.label) (ep inp : str)
           (all_outputs : bool) : res (str * list piece) :=
  let k := label_key l in
  if lbl_eqb k (t_lbl (w_self w)) then check_and_replace w test fl true false all_outputs (w_self w) ep inp
  else match find_dep w dep_lookup k with
       | Some k' =>
           match resolve w px k' with
           | [] => RErr
           | k2 :: _ =>
               match lookup_tgt k2 (w_graph w) with
               | Some d => check_and_replace w test fl false (is_tool w k') all_outputs d ep inp
               | None => RErr
               end
           end
       | None => RErr
       end.

Definition replace_sequence_p (w : world) (px : pext) (test : bool) (fl : flags) (inp : str) : res (str * list piece) :=
  let '(runnable, multiple, dir, outp, hash) := fl in
  if looks_like_label inp then
    let (lbl_s, ep) := split_entry_point inp in
    match C20.try_parse lbl_s (w_pkg w) [] with
    | C20.OutOfFuel => RFuel
    | C20.Invalid => RErr
    | C20.Parsed l => replace_label_p w px test fl l ep lbl_s true
    end
  else
    if runnable && existsb (input_string_is inp) (w_tools w) then ROk (inp, [PRaw inp])
    else if hash then ROk (w_fhash w (join (w_pkg w) inp), [PRaw (w_fhash w (join (w_pkg w) inp))])
    else if has_prefix (s "/") inp then ROk (inp, [PRaw inp])
    else let p := PFile InTmp (join (w_pkg w) inp) in ROk (piece_text p, [p]).

Fixpoint run_passes_p (w : world) (px : pext) (test : bool) (ps : list (string * nat * flags)) (cmd : str) : res str :=
  match ps with
  | [] => ROk cmd
  | (kw, off, fl) :: r =>
      bind (scan (pass_prefix kw) off (replace_sequence_p w px test fl) cmd 0) (run_passes_p w px test r)
  end.

(* replaceSequencesInternal *)
Definition expand_cmd_p (w : world) (px : pext) (test : bool) (cmd : str) : res str :=
  bind (run_passes_p w px test passes cmd) (fun c => ROk (replace_all (s unescape_from) (s unescape_to) c 0)).

(* ---- the worker regular expression ----------------------------------------------------------------------------------- *)

(* workerReplacement (Gen.worker_regex, pinned in Proof/C37_Ext.v) on a whole command, leftmost-first and greedy:
   group 1 = anything without a newline, then the literal "$(worker ", group 2 = one or more bytes other than the
   closing parenthesis, the parenthesis, spaces, group 3 = bytes other than the ampersand, then optionally spaces,
   two ampersands, spaces and group 4 = anything without a newline, to the end of the text.
   The LAST "$(worker " whose tail has the shape wins, because group 1 is greedy. *)
Definition wpre : str := s "$(worker ".
Definition has_nl (x : str) : bool := C20.mem_byte 10%N x.

Fixpoint take_until (c : N) (x : str) : str * str :=
  match x with
  | [] => ([], [])
  | a :: r => if N.eqb a c then ([], x) else let (t, rest) := take_until c r in (a :: t, rest)
  end.

(* after "$(worker ": groups 2, 3 and 4 *)
Definition parse_tail (t : str) : option (str * str * str) :=
  match span_arg t with
  | Some (S n) =>
      let m2 := firstn (S n) t in
      let rest := C20.drop_while (N.eqb 32) (skipn (S n + 1) t) in
      let (m3, rest2) := take_until 38%N rest in
      match rest2 with
      | [] => Some (m2, m3, [])
      | _ :: 38%N :: r4 =>
          let m4 := C20.drop_while (N.eqb 32) r4 in
          if has_nl m4 then None else Some (m2, m3, m4)
      | _ => None
      end
  | _ => None
  end.

(* Some (group 1, (group 2, group 3, group 4)) *)
Fixpoint find_worker (x : str) : option (str * (str * str * str)) :=
  match x with
  | [] => None
  | c :: r =>
      match find_worker r with
      | Some (m1, g) => if N.eqb c 10 then None else Some (c :: m1, g)
      | None =>
          if has_prefix wpre x then
            match parse_tail (skipn (length wpre) x) with Some g => Some ([], g) | None => None end
          else None
      end
  end.

(* strings.TrimSpace, ASCII white space *)
Definition is_space (c : N) : bool :=
  N.eqb c 32 || N.eqb c 9 || N.eqb c 10 || N.eqb c 11 || N.eqb c 12 || N.eqb c 13.
Definition trim_space (x : str) : str := rev (C20.drop_while is_space (rev (C20.drop_while is_space x))).

(* ---- workerAndArgs: the interpreter of the regenerated program -------------------------------------------------------- *)

Inductive wres :=
| WOk (worker args local : str)
| WErr            (* a non-nil error *)
| WPanic          (* a Go panic that nothing recovers *)
| WFatal          (* log.Fatalf *)
| WFuel
| WBogus.         (* accepted although a value handed out comes from a failed expansion (or the program is ill-formed) *)

Definition lift (r : res str) : wres :=
  match r with ROk t => WOk [] [] t | RErr => WErr | RFatal => WFatal | RFuel => WFuel end.

Definition set_slot (sl : nat -> option (res str)) (i : nat) (v : res str) : nat -> option (res str) :=
  fun j => if Nat.eqb i j then Some v else sl j.

(* exp: what replaceSequencesInternal(state, target, <part>, false) gives; wk: the worker expansion;
   err: `err != nil` at this point *)
Fixpoint run_steps (exp : wpart -> res str) (wk : res str) (steps : list wstep)
         (sl : nat -> option (res str)) (err : bool) (worker : option str) : wres :=
  match steps with
  | [] => WBogus
  | WExpand i p :: r =>
      match exp p with
      | RFatal => WFatal
      | RFuel => WFuel
      | ROk t => run_steps exp wk r (set_slot sl i (ROk t)) false worker
      | RErr => run_steps exp wk r (set_slot sl i RErr) true worker
      end
  | WCheck :: r => if err then WErr else run_steps exp wk r sl err worker
  | WWorker :: r =>
      match wk with
      | ROk t => run_steps exp wk r sl err (Some t)
      | RErr => WPanic                      (* replaceWorkerSequence runs outside the recover of replaceSequencesInternal *)
      | RFatal => WFatal
      | RFuel => WFuel
      end
  | WReturn a l with_err :: _ =>
      if with_err && err then WErr
      else match sl a, sl l, worker with
           | Some (ROk x), Some (ROk y), Some t => WOk t x y
           | _, _, _ => WBogus
           end
  end.

Definition part_text (m3 m4 : str) (p : wpart) : str :=
  match p with PArgsTrim => trim_space m3 | PArgs => m3 | PLocal => m4 end.

(* replaceWorkerSequence(state, target, match[2], flags...) *)
Definition worker_seq (w : world) (px : pext) (m2 : str) : res str :=
  if looks_like_label m2 then
    match replace_sequence_p w px worker_test worker_flags m2 with
    | ROk tp => ROk (fst tp) | RErr => RErr | RFatal => RFatal | RFuel => RFuel
    end
  else ROk m2.

Definition worker_and_args (w : world) (px : pext) (cmd : str) : wres :=
  match find_worker cmd with
  | None => lift (expand_cmd_p w px false cmd)                      (* return "", "", cmd, err *)
  | Some (m1, (m2, m3, m4)) =>
      if negb (is_nil m1) then WPanic                               (* cannot have any commands preceding them *)
      else run_steps (fun p => expand_cmd_p w px false (part_text m3 m4 p)) (worker_seq w px m2)
                     worker_steps (fun _ => None) false None
  end.

(* ReplaceTestSequences *)
Definition replace_test_sequences (w : world) (px : pext) (cmd : str) : wres :=
  if is_nil cmd then lift (expand_cmd_p w px true (s "$(exe :" ++ lb_name (t_lbl (w_self w)) ++ s ")"))
  else if has_prefix (s test_worker_prefix) cmd then
    match worker_and_args w px cmd with WOk _ _ l => WOk [] [] l | r => r end
  else lift (expand_cmd_p w px true cmd).

(* ---- correspondence cases ---------------------------------------------------------------------------------------------- *)

Inductive wmode :=
| MWorker        (* WorkerCommandAndArgs / TestWorkerCommand: workerAndArgs on the (test) command *)
| MTestSeq.      (* ReplaceTestSequences *)

Inductive woutcome := WOOk (worker args local : str) | WOErr | WOPanic | WOFatal.

Definition woutcome_eqb (r : wres) (o : woutcome) : bool :=
  match r, o with
  | WOk a b c, WOOk x y z => str_eqb a x && str_eqb b y && str_eqb c z
  | WErr, WOErr => true
  | WPanic, WOPanic => true
  | WFatal, WOFatal => true
  | _, _ => false
  end.

Definition mk_px (reqs : list str) (provs : list (lbl * list (str * list lbl))) (data : list lbl) : pext :=
  PX reqs provs data.

Inductive case :=
| COld (c : C37.case)
| CCmdP (w : world) (px : pext) (cmd : str) (o : outcome)               (* ReplaceSequences in a world with provides *)
| CWorker (w : world) (px : pext) (m : wmode) (cmd : str) (o : woutcome).

Definition check (c : case) : bool :=
  match c with
  | COld c => C37.check c
  | CCmdP w px cmd o => outcome_eqb (expand_cmd_p w px false cmd) o
  | CWorker w px MWorker cmd o => woutcome_eqb (worker_and_args w px cmd) o
  | CWorker w px MTestSeq cmd o => woutcome_eqb (replace_test_sequences w px cmd) o
  end.
