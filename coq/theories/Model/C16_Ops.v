(* C16 - evaluation of a flat operator chain.  No proofs here.

   flat_ops is a transcription of scope.interpretOps / interpretOp (interpreter.go:633-686), generic in
   the operand syntax X, the value type V and the threaded state S.  asp_tree is the grouping that
   interpretOps induces; py_tree is the grouping CPython's grammar gives the same token sequence
   (operator-precedence parsing with Python's table, left associative binary operators, prefix `not`
   and unary minus, chained comparisons).  Precedence() and Lazy() come from the REGENERATED tables
   Gen/AspTables.v. *)
From Coq Require Import String.
From PlzV Require Import Base.Harness Gen.AspTables Model.C16_Syntax.
Local Open Scope Z_scope.

Definition binop_name (o : binop) : string :=
  match o with
  | Add => "Add" | Sub => "Subtract" | Mul => "Multiply" | Div => "Divide" | FloorDiv => "FloorDivide"
  | Mod => "Modulo" | Lt => "LessThan" | Gt => "GreaterThan" | Le => "LessThanOrEqual"
  | Ge => "GreaterThanOrEqual" | Eq => "Equal" | Ne => "NotEqual" | In => "In" | NotIn => "NotIn"
  | And => "And" | Or => "Or" | Union => "Union" | Is => "Is" | IsNot => "IsNot"
  end%string.
Definition unop_name (u : unop) : string := match u with Neg => "Negate" | Not => "Not" end%string.

Fixpoint lookup_prec (n : string) (t : list (string * Z)) : Z :=
  match t with
  | [] => asp_prec_default
  | (k, v) :: r => if String.eqb n k then v else lookup_prec n r
  end.

(* an operator of the chain, binary or prefix *)
Inductive opkey := KB (o : binop) | KU (u : unop).
Definition key_name (k : opkey) : string := match k with KB o => binop_name o | KU u => unop_name u end.
(* Operator.Precedence() and Operator.Lazy(), through the regenerated tables *)
Definition aprec (k : opkey) : Z := lookup_prec (key_name k) asp_prec_table.
Definition alazy (k : opkey) : bool := existsb (String.eqb (key_name k)) asp_lazy.

(* CPython's grammar (Grammar/python.gram: disjunction < conjunction < inversion < comparison < bitwise_or
   < ... < sum < term < factor), higher number = binds tighter.  Hand-written from the reference manual
   6.17 "Operator precedence"; this is the SPECIFICATION side. *)
Definition pyprec (k : opkey) : Z :=
  match k with
  | KB Or => 1
  | KB And => 2
  | KU Not => 3
  | KB (Lt | Gt | Le | Ge | Eq | Ne | In | NotIn | Is | IsNot) => 4
  | KB Union => 5
  | KB (Add | Sub) => 9
  | KB (Mul | Div | FloorDiv | Mod) => 10
  | KU Neg => 11
  end.

Definition all_keys : list opkey := map KB all_binops ++ map KU all_unops.

(* One entry of Expression.Op: OpExpression{Op, Expr} with Expr == nil for the prefix operators. *)
Inductive item (X : Type) := IBin (o : binop) (x : X) | IUn (u : unop).
Arguments IBin {X} o x.
Arguments IUn {X} u.

Definition ikey {X} (i : item X) : opkey := match i with IBin o _ => KB o | IUn u => KU u end.
Definition item_is_cmp {X} (i : item X) : bool := match i with IBin o _ => is_cmp o | IUn _ => false end.
Definition item_is_un {X} (i : item X) : bool := match i with IUn _ => true | _ => false end.
Definition key_is_and (k : opkey) : bool := match k with KB And => true | _ => false end.

Definition of_opitem (i : opitem) : item vexpr :=
  match i with OBin o v => IBin o v | OUn u => IUn u end.

(* ---- grouping trees ---- *)
Inductive tree (X V : Type) :=
| TLeaf (x : X)                 (* an operand still to be evaluated *)
| TVal (v : V)                  (* an operand already evaluated (the first value of an Expression) *)
| TUn (u : unop) (t : tree X V)
| TBin (o : binop) (l r : tree X V).
Arguments TLeaf {X V} x.
Arguments TVal {X V} v.
Arguments TUn {X V} u t.
Arguments TBin {X V} o l r.

Section Grouping.
  Context {X V : Type}.
  Notation tree := (tree X V).

  Definition node (i : item X) (acc : tree) : tree :=
    match i with IBin o x => TBin o acc (TLeaf x) | IUn u => TUn u acc end.

  (* the grouping of interpretOps: reduce to the left while the next operator is not tighter, otherwise
     hand the WHOLE remaining list to the right operand (or, for a prefix operator, to its operand) *)
  Fixpoint asp_tree (acc : tree) (ops : list (item X)) : tree :=
    match ops with
    | [] => acc
    | [i] => node i acc
    | i0 :: ((i1 :: _) as rest) =>
        if aprec (ikey i0) >=? aprec (ikey i1) then asp_tree (node i0 acc) rest
        else match i0 with
             | IBin o x => TBin o acc (asp_tree (TLeaf x) rest)
             | IUn u => TUn u (asp_tree acc rest)
             end
    end.

  (* CPython: operator-precedence parsing with an explicit stack *)
  Inductive sentry :=
  | SBin (l : tree) (o : binop) (chain : option tree)  (* l o _ ; chain = Some m: l is a comparison chain ending in m *)
  | SUn (u : unop).

  Definition reduce1 (e : sentry) (cur : tree) : tree :=
    match e with
    | SUn u => TUn u cur
    | SBin l o None => TBin o l cur
    | SBin l o (Some m) => TBin And l (TBin o m cur)     (* a < b == c  is  (a < b) and (b == c) *)
    end.

  Definition eprec (e : sentry) : Z := match e with SBin _ o _ => pyprec (KB o) | SUn u => pyprec (KU u) end.

  (* an incoming binary operator o of precedence p closes every pending operator that binds at least as
     tightly (all binary operators are left associative); two comparison operators at one level chain *)
  Fixpoint reduce_while (p : Z) (o : binop) (stk : list sentry) (cur : tree) : list sentry * tree * option tree :=
    match stk with
    | [] => ([], cur, None)
    | e :: r =>
        if eprec e >? p then reduce_while p o r (reduce1 e cur)
        else if eprec e =? p then
          match e with
          | SBin _ o1 _ => if is_cmp o1 && is_cmp o then (r, reduce1 e cur, Some cur)
                           else reduce_while p o r (reduce1 e cur)
          | SUn _ => reduce_while p o r (reduce1 e cur)
          end
        else (stk, cur, None)
    end.

  Definition finish (stk : list sentry) (cur : tree) : tree := fold_left (fun c e => reduce1 e c) stk cur.

  Fixpoint py_sy (stk : list sentry) (cur : tree) (ops : list (item X)) : tree :=
    match ops with
    | [] => finish stk cur
    | IUn u :: rest => py_sy (SUn u :: stk) cur rest
    | IBin o x :: rest =>
        let '(stk1, cur1, ch) := reduce_while (pyprec (KB o)) o stk cur in
        py_sy (SBin cur1 o ch :: stk1) (TLeaf x) rest
    end.

  Definition py_tree (acc : tree) (ops : list (item X)) : tree := py_sy [] acc ops.

  (* ---- the safe chains: where the two groupings coincide ---- *)
  Fixpoint ops_safe (ops : list (item X)) : bool :=
    match ops with
    | [] => true
    | [_] => true
    | i0 :: ((i1 :: _) as rest) =>
        (if aprec (ikey i0) >=? aprec (ikey i1)
         then negb (item_is_cmp i0 && item_is_cmp i1) && negb (item_is_un i1)
         else forallb (fun j => aprec (ikey i0) <? aprec (ikey j)) rest)
        && ops_safe rest
    end.

  (* Narrow classes of the chains outside ops_safe: the first place, scanning from the left, where
     interpretOps and CPython part ways. *)
  Inductive chain_defect :=
  | DRestAsRightOperand   (* a op1 b op2 c op3 d with prec op1 < prec op2 and prec op3 <= prec op1: 10 - 2 * 3 - 1 *)
  | DLazyDropsTail        (* the same shape with op1 = and/or: a falsy/truthy left operand drops the tail: 0 and 1 == 1 or 5 *)
  | DPrefixTakesRest      (* not a == b or c ; the prefix operator is applied to the whole remaining chain *)
  | DNegTakesRest         (* a * -b + c : unary minus in the middle makes a * ((-b) + c) *)
  | DCmpNotChained        (* a < b == c *)
  | DPrefixAfterTighter.  (* a == not b : not valid Python *)

  Fixpoint chain_class (ops : list (item X)) : option chain_defect :=
    match ops with
    | [] => None
    | [_] => None
    | i0 :: ((i1 :: _) as rest) =>
        if aprec (ikey i0) >=? aprec (ikey i1) then
          if item_is_cmp i0 && item_is_cmp i1 then Some DCmpNotChained
          else if item_is_un i1 then Some DPrefixAfterTighter
          else chain_class rest
        else if forallb (fun j => aprec (ikey i0) <? aprec (ikey j)) rest then chain_class rest
        else match i0, i1 with
             | IUn _, _ => Some DPrefixTakesRest
             | IBin o _, IUn Neg => Some DNegTakesRest
             | IBin o _, _ => if alazy (KB o) then Some DLazyDropsTail else Some DRestAsRightOperand
             end
    end.
End Grouping.

(* ---- evaluation ---- *)
(* Truthiness and the prefix operators are taken on the state AT HAND (the one the operand evaluation left):
   an operand evaluated inside the chain can be an object allocated by the chain itself. *)
Section Eval.
  Context {X V S : Type}.
  Variable evalx : X -> S -> res (V * S).
  Variable apply_bin : binop -> V -> V -> S -> res (V * S).  (* strict binary operators; arguments in source order *)
  Variable apply_un : unop -> V -> S -> res V.
  Variable truthy : V -> S -> bool.

  Definition rbind {A B} (r : res A) (f : A -> res B) : res B :=
    match r with Ok a => f a | Err k => Err k | OutOfFuel => OutOfFuel end.

  Definition lift_un (u : unop) (v : V) (st : S) : res (V * S) :=
    rbind (apply_un u v st) (fun r => Ok (r, st)).

  (* and / or look at the truthiness of their left operand; interpretOps looks at it a second time after the right
     operand was evaluated.  An operand evaluation that CHANGES the truthiness of the left operand (a function
     that fills the dict on the left) is outside the model: it refuses. *)
  Definition recheck {A} (obj : V) (st st1 : S) (k : res A) : res A :=
    if Bool.eqb (truthy obj st1) (truthy obj st) then k else Err EUnsupported.

  (* interpretOp with the operand still an expression: `case And, Or` evaluates it only when needed *)
  Definition interp_op_x (obj : V) (i : item X) (st : S) : res (V * S) :=
    match i with
    | IUn u => lift_un u obj st
    | IBin o x =>
        match o with
        | And | Or => if Bool.eqb (truthy obj st) (binop_eqb o And)
                      then rbind (evalx x st) (fun '(r, st1) => recheck obj st st1 (Ok (r, st1)))
                      else Ok (obj, st)
        | _ => rbind (evalx x st) (fun '(r, st1) => apply_bin o obj r st1)
        end
    end.

  (* interpretOp with Expr = a Constant (the already computed right operand nobj); st is the state in which
     interpretOps looked at obj before it evaluated the operand, st2 the one it is in now *)
  Definition interp_op_v (obj : V) (o : binop) (n : V) (st st2 : S) : res (V * S) :=
    match o with
    | And | Or => recheck obj st st2 (if Bool.eqb (truthy obj st2) (binop_eqb o And) then Ok (n, st2) else Ok (obj, st2))
    | _ => apply_bin o obj n st2
    end.

  Fixpoint flat_ops (obj : V) (ops : list (item X)) (st : S) : res (V * S) :=
    match ops with
    | [] => Ok (obj, st)
    | [i] => interp_op_x obj i st
    | i0 :: ((i1 :: _) as rest) =>
        if aprec (ikey i0) >=? aprec (ikey i1) then
          rbind (interp_op_x obj i0 st) (fun '(r, st1) => flat_ops r rest st1)
        else if alazy (ikey i0) && negb (Bool.eqb (truthy obj st) (key_is_and (ikey i0))) then Ok (obj, st)
        else match i0 with
             | IUn u => rbind (flat_ops obj rest st) (fun '(r, st1) => lift_un u r st1)
             | IBin o x =>
                 rbind (evalx x st) (fun '(r0, st1) =>
                 rbind (flat_ops r0 rest st1) (fun '(n, st2) => interp_op_v obj o n st st2))
             end
    end.

  Fixpoint teval (t : tree X V) (st : S) : res (V * S) :=
    match t with
    | TLeaf x => evalx x st
    | TVal v => Ok (v, st)
    | TUn u t1 => rbind (teval t1 st) (fun '(v, st1) => lift_un u v st1)
    | TBin o l r =>
        rbind (teval l st) (fun '(a, st1) =>
          match o with
          | And | Or => if Bool.eqb (truthy a st1) (binop_eqb o And)
                        then rbind (teval r st1) (fun '(b, st2) => recheck a st1 st2 (Ok (b, st2)))
                        else Ok (a, st1)
          | _ => rbind (teval r st1) (fun '(b, st2) => apply_bin o a b st2)
          end)
    end.

  (* CPython's evaluation of the chain *)
  Definition py_ops (obj : V) (ops : list (item X)) (st : S) : res (V * S) :=
    teval (py_tree (TVal obj) ops) st.
End Eval.
