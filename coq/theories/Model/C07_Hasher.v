(* C07 - the path hasher's two stores.  Executable model of the memo of fs.PathHasher (Hash, CopyHash, MoveHash:
   src/fs/hash.go) and of the extended attributes PathHasher.hash reads and storeHash writes.  No proofs here.

   Every source hash `plz hash --detailed` prints is a digest PathHasher.Hash returned; it is deterministic across
   invocations only if (a) what the memo returns is what a fresh process would compute and (b) what one invocation
   leaves in the xattr of an output is what the next one expects to find there.  `gotrans C07Hasher` regenerates from
   the source: whether the memo store in Hash is guarded by `err == nil` (memo_guarded), the rule by which
   NewPathHasher derives the attribute name from the algorithm (xattr_rule), and the list of algorithms for which
   core.NewBuildState creates hashers (algos).

   MEMO.  hasher.memo is a Go map path |-> []byte, where nil is the marker CopyHash leaves (`do not read xattrs,
   recompute`).  An entry carries a GHOST component, the path whose digest it is (it is not part of the
   implementation's state and `memo_check` ignores it); it lets the invariant say of WHICH path a memoised digest is.
   The raw computation hasher.hash(path, ..) is external: every Hash operation of a history carries the answer the
   raw computation gives at that moment (`raw`).  Modelled as written: the memo hit (present && cached != nil), the nil
   marker (recompute), PathExists (RawMissing: error, nothing recorded), the store after the computation (guarded or
   not), moveOrCopyHash (copy of the entry INCLUDING a nil marker, delete of a plz-out/tmp source on move, nil marker
   for a copy of an unknown path).  Not modelled: hasher.wait (concurrent callers of one path share the pending
   result), SetHash, ensureRelative (the harness uses relative paths), the xattr read inside hash (part XATTR).

   XATTR.  The attributes of the files under plz-out/ form ONE store (path, attribute name) |-> value shared by all
   hashers of all invocations.  An operation XHash is Hash(path, recalc, store, false) on a FRESH hasher of one
   algorithm (a new plz process: empty memo) for a path under plz-out/: unless recalc, the attribute named after the
   algorithm is read and returned when present; otherwise the digest is computed (external: carried by the operation)
   and, when `store`, written.  An entry carries as GHOST component the algorithm that wrote it. *)
From PlzV Require Import Base.Harness Model.C08.

(* ---------------------------------------------------------------------------------------------- memo *)

Inductive mentry :=
| MNil                               (* memo[path] = nil *)
| MVal (origin : str) (v : str).     (* memo[path] = v; ghost: v was computed as the digest of `origin` *)

Definition memo := list (str * mentry).    (* latest binding first *)

Inductive raw :=
| RawMissing              (* !PathExists(path) *)
| RawOk (d : str)         (* hasher.hash returned (d, nil) *)
| RawErr (partial : str). (* hasher.hash returned (partial, err), partial = h.Sum(nil) of what had been read *)

Inductive hop :=
| HHash (p : str) (recalc : bool) (w : raw)     (* hasher.Hash(p, recalc, false, false) *)
| HCopy (old new : str)                         (* hasher.CopyHash(old, new) *)
| HMove (old new : str).                        (* hasher.MoveHash(old, new) *)

Inductive hres :=
| ResNone                            (* CopyHash / MoveHash *)
| ResErr                             (* (_, err) *)
| ResOk (origin : str) (d : str).    (* (d, nil); ghost: the path d is the digest of *)

Fixpoint has_prefix (pre x : str) : bool :=
  match pre, x with
  | [], _ => true
  | a :: pre', b :: x' => N.eqb a b && has_prefix pre' x'
  | _ :: _, [] => false
  end.

Definition mremove (p : str) (m : memo) : memo := filter (fun kv => negb (str_eqb p (fst kv))) m.

Definition hstep (guarded : bool) (m : memo) (o : hop) : memo * hres :=
  match o with
  | HHash p recalc w =>
      match (if recalc then None else lookup p m) with
      | Some (MVal org v) => (m, ResOk org v)
      | _ =>
          match w with
          | RawMissing => (m, ResErr)
          | RawOk d => ((p, MVal p d) :: m, ResOk p d)
          | RawErr part => (if guarded then m else (p, MVal p part) :: m, ResErr)
          end
      end
  | HCopy old new =>
      match lookup old m with
      | Some e => ((new, e) :: m, ResNone)
      | None => ((new, MNil) :: m, ResNone)
      end
  | HMove old new =>
      match lookup old m with
      | Some e => let m1 := (new, e) :: m in
                  (if has_prefix (s "plz-out/tmp") old then mremove old m1 else m1, ResNone)
      | None => (m, ResNone)
      end
  end.

Fixpoint hrun (guarded : bool) (m : memo) (h : list hop) : memo * list hres :=
  match h with
  | [] => (m, [])
  | o :: r => let (m1, x) := hstep guarded m o in let (m2, xs) := hrun guarded m1 r in (m2, x :: xs)
  end.

(* what the harness observes of a result: no ghost *)
Inductive obs := ONone | OErr | OOk (d : str).

Definition res_matches (r : hres) (o : obs) : bool :=
  match r, o with
  | ResNone, ONone => true
  | ResErr, OErr => true
  | ResOk _ d, OOk d' => str_eqb d d'
  | _, _ => false
  end.

Fixpoint all2 {A B} (f : A -> B -> bool) (a : list A) (b : list B) : bool :=
  match a, b with
  | [], [] => true
  | x :: a', y :: b' => f x y && all2 f a' b'
  | _, _ => false
  end.

(* ---------------------------------------------------------------------------------------------- xattr names *)

Inductive sfx := SfxEmpty | SfxUnderscoreAlgo.    (* "" | "_" + algo *)

(* NewPathHasher:  hashSuffix := <init>;  if algo != / == <lit> { hashSuffix = <then> };  xattrName: <base> + hashSuffix *)
Record xrule := XRule { xr_base : str; xr_init : sfx; xr_neq : bool; xr_lit : str; xr_then : sfx }.

Definition sfx_eval (x : sfx) (algo : str) : str :=
  match x with SfxEmpty => [] | SfxUnderscoreAlgo => s "_" ++ algo end.

Definition xattr_name (r : xrule) (algo : str) : str :=
  let c := if xr_neq r then negb (str_eqb algo (xr_lit r)) else str_eqb algo (xr_lit r) in
  xr_base r ++ sfx_eval (if c then xr_then r else xr_init r) algo.

Fixpoint nodupb (l : list str) : bool :=
  match l with
  | [] => true
  | x :: r => negb (existsb (str_eqb x) r) && nodupb r
  end.

(* the condition under which the hashers of different algorithms do not read each other's attributes *)
Definition names_distinct (r : xrule) (algos : list str) : bool := nodupb (map (xattr_name r) algos).

(* ---------------------------------------------------------------------------------------------- xattr store *)

(* (path, attribute name) |-> (ghost: writing algorithm, value); latest binding first *)
Definition xstore := list ((str * str) * (str * str)).

Definition xget (st : xstore) (p n : str) : option (str * str) :=
  match find (fun e => str_eqb p (fst (fst e)) && str_eqb n (snd (fst e))) st with
  | Some e => Some (snd e)
  | None => None
  end.

(* Hash(p, recalc, store, false) on a fresh hasher of `algo`, p under plz-out/; d = the digest a computation gives *)
Inductive xop := XHash (algo p : str) (recalc store : bool) (d : str).

(* result: (ghost: algorithm whose digest is returned, value) *)
Definition xstep (r : xrule) (st : xstore) (o : xop) : xstore * (str * str) :=
  match o with
  | XHash algo p recalc store d =>
      let n := xattr_name r algo in
      match (if recalc then None else xget st p n) with
      | Some av => (st, av)
      | None => (if store then ((p, n), (algo, d)) :: st else st, (algo, d))
      end
  end.

Fixpoint xrun (r : xrule) (st : xstore) (h : list xop) : xstore * list (str * str) :=
  match h with
  | [] => (st, [])
  | o :: t => let (st1, x) := xstep r st o in let (st2, xs) := xrun r st1 t in (st2, x :: xs)
  end.

(* ---------------------------------------------------------------------------------------------- cases *)

(* CMemo: a history performed on ONE real PathHasher (xattrs off) over a real tree; the raw answers were taken from a
   fresh hasher on the tree as it was at that moment; observed = what the long-lived hasher returned.
   CXattr: a history performed on real files under plz-out/ with fresh real hashers (xattrs on); the digests `d` were
   taken from fresh hashers with xattrs off; observed = what the real calls returned. *)
Inductive hasher_case :=
| CMemo (h : list hop) (observed : list obs)
| CXattr (h : list xop) (observed : list str).

Definition hasher_check_with (guarded : bool) (r : xrule) (c : hasher_case) : bool :=
  match c with
  | CMemo h obs => all2 res_matches (snd (hrun guarded [] h)) obs
  | CXattr h obs => all2 (fun x o => str_eqb (snd x) o) (snd (xrun r [] h)) obs
  end.
