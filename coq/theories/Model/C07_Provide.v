(* C07 - require / provide.  Executable model of BuildTarget.provideFor / ProvideFor (src/core/build_target.go) and of
   core.recursivelyProvideFor (src/core/utils.go).  No proofs here.

   ProvideFor decides which labels a dependency is replaced by when it reaches IterInputs / IterSources, and with them
   the sequence of sources build.sourceHash feeds into the hash and `plz hash --detailed` prints.  target.Provides is a
   Go MAP (language |-> labels): it is presented here as an association list in SOME enumeration order, and the loop of
   provideFor is regenerated from the source by `gotrans C07Provide` as a value of type `ploop` (which of the two
   collections the loop ranges over), so that a loop that ranges over the map is modelled as what it is - a walk in
   enumeration order - and the order-independence theorem (Proof/C07_Provide.v) stops applying to it.

   Modelled as written: the three guards of provideFor (Provides == nil || len(Requires) == 0; isDataFor; IsTool),
   the loop, `found`, the fallback of ProvideFor to the target's own label; recursivelyProvideFor (first against the
   dependency, then - when that gives the label itself - against the top-level target; a label providing itself is
   yielded and not followed) with recursion on explicit fuel (None = out of fuel; the code does not terminate on a
   provide cycle either).
   Idealised: isDataFor / IsTool of a pair of targets are membership tests of the label in finite label lists. *)
From PlzV Require Import Base.Harness Model.C08.

(* which collection the loop of provideFor ranges over *)
Inductive ploop :=
| PRangeRequires     (* for _, require := range other.Requires { if label, present := target.Provides[require]; present {..} } *)
| PRangeProvides.    (* for lang, labels := range target.Provides { if slices.Contains(other.Requires, lang) {..} } *)

(* the loop: (ret, found) *)
Definition provide_loop (lp : ploop) (provides : lgroups) (requires : list str) : list label * bool :=
  match lp with
  | PRangeRequires =>
      let hits := flat_map (fun r => match lookup r provides with Some ls => [ls] | None => [] end) requires in
      (concat hits, negb (is_nil hits))
  | PRangeProvides =>
      let hits := filter (fun kv => existsb (str_eqb (fst kv)) requires) provides in
      (flat_map snd hits, negb (is_nil hits))
  end.

(* one target as far as require / provide reads it *)
Record pnode := PNode {
  pn_provides : lgroups;        (* target.Provides, in some enumeration order *)
  pn_requires : list str;       (* target.Requires *)
  pn_data : list label;         (* labels of target.AllData() *)
  pn_tools : list label         (* labels for which target.IsTool is true *)
}.

Definition empty_pnode : pnode := PNode [] [] [] [].

Definition lmem (l : label) (ls : list label) : bool := existsb (label_eqb l) ls.

(* target.ProvideFor(other); self = target.Label *)
Definition provide_for (lp : ploop) (self : label) (target other : pnode) : list label :=
  if is_nil (pn_provides target) || is_nil (pn_requires other) then [self]
  else if lmem self (pn_data other) then [self]
  else if lmem self (pn_tools other) then [self]
  else let r := provide_loop lp (pn_provides target) (pn_requires other) in
       if snd r then fst r else [self].

Definition pgraph := list (label * pnode).

Definition find_pnode (g : pgraph) (l : label) : pnode :=
  match find (fun kv => label_eqb l (fst kv)) g with Some kv => snd kv | None => empty_pnode end.

Definition is_self (ret : list label) (d : label) : bool :=
  match ret with [x] => label_eqb x d | _ => false end.

(* recursivelyProvideFor(graph, target, dependency, dep) *)
Fixpoint rec_provide (lp : ploop) (g : pgraph) (target dependency : label) (fuel : nat) (d : label) : option (list label) :=
  match fuel with
  | O => None
  | S f =>
      let dn := find_pnode g d in
      let ret := provide_for lp d dn (find_pnode g dependency) in
      let ret2 := if is_self ret d then provide_for lp d dn (find_pnode g target) else ret in
      if is_self ret d && is_self ret2 d then Some [d]
      else fold_right (fun r acc =>
                         match (if label_eqb r d then Some [r] else rec_provide lp g target dependency f r), acc with
                         | Some x, Some y => Some (x ++ y)
                         | _, _ => None
                         end) (Some []) ret2
  end.

(* ---------------------------------------------------------------------------------------------- cases *)

Definition labels_eqb := list_eqb label_eqb.

(* CProv: one real dependency / requirer pair; `observed` = what the real ProvideFor returned on each of a number of
   repeated calls (Go randomises map iteration per loop).  CRec: a real graph; `observed` = the labels the real
   recursion yields (None never: the harness only builds acyclic provide chains). *)
Inductive prov_case :=
| CProv (self : label) (target other : pnode) (observed : list (list label))
| CRec (g : pgraph) (target dependency d : label) (fuel : nat) (observed : list (list label)).

Definition prov_check_with (lp : ploop) (c : prov_case) : bool :=
  match c with
  | CProv self t o obs => negb (is_nil obs) && forallb (labels_eqb (provide_for lp self t o)) obs
  | CRec g t dep d fuel obs =>
      negb (is_nil obs) &&
      match rec_provide lp g t dep fuel d with
      | Some ls => forallb (labels_eqb ls) obs
      | None => false
      end
  end.
