(* C38 - `plz fmt` never changes what a BUILD file means.
   Executable model of src/format/fmt.go `simplify` / `subinclude` on the top-level statement list that
   buildtools' ParseBuild produces, of the evaluation of such a list as far as simplify can change it
   (src/parse/asp/builtins.go `subinclude`: all arguments are evaluated first, then the labels are
   included one after the other), and of the first-byte dispatch of the asp lexer (lexer.go nextToken:
   which bytes can start a token at all).  The third-party parser and printer (buildtools
   ParseBuild / build.Format) are NOT modelled.  No proofs here. *)
From Coq Require Import String.
From PlzV Require Import Base.Harness Gen.C38Fmt.
From PlzV Require Export Model.C38Expr Model.C38Str.
Local Open Scope list_scope.

(* ---- the statement list as simplify sees it ------------------------------------------------------ *)

(* An argument of a top-level `subinclude(...)` call.  The buildtools fork parses f-strings as
   *build.StringExpr (token starting with f), so fmt.go's type test cannot tell them from literals. *)
Inductive arg :=
| Lit (v : str)        (* *build.StringExpr, plain / raw / triple-quoted literal: decoded value v *)
| FStr (v : str)       (* *build.StringExpr whose token starts with f: an asp f-string with body v *)
| NonLit (id : N).     (* any other expression (identifier, concatenation, list, keyword argument ...) *)

Inductive stmt :=
| Sub (args : list arg)   (* a CallExpr whose callee is the identifier `subinclude` *)
| Other (id : N).         (* anything else, standalone comment blocks included *)

(* the Go type the `arg.( *build.X)` assertion sees *)
Definition go_type (a : arg) : string :=
  match a with Lit _ | FStr _ => "StringExpr" | NonLit _ => "Expr" end.

(* fmt.go subinclude(): for _, arg := range call.List { if _, ok := arg.( *build.StringExpr); !ok { return nil } } *)
Definition is_string_expr (a : arg) : bool := existsb (String.eqb (go_type a)) sub_arg_types.

(* fmt.go subinclude(expr): the call, or nil *)
Definition valid_sub (st : stmt) : option (list arg) :=
  match st with
  | Sub a => if forallb is_string_expr a then Some a else None
  | Other _ => None
  end.

(* One iteration of the loop body at index i:
     if call := subinclude(f.Stmt[i]); call != nil {
       if next := subinclude(f.Stmt[i+1]); next != nil {
         call.List = append(call.List, next.List...)
         f.Stmt = slices.Delete(f.Stmt, i+1, i+2) } } *)
Definition step (i : nat) (p : list stmt) : list stmt :=
  match nth_error p i with
  | Some si =>
      match valid_sub si with
      | Some a =>
          match nth_error p (S i) with
          | Some sn =>
              match valid_sub sn with
              | Some b => firstn i p ++ Sub (a ++ b) :: skipn (S (S i)) p
              | None => p
              end
          | None => p
          end
      | None => p
      end
  | None => p
  end.

(* for i := k-1; i >= 0; i-- *)
Fixpoint loop (k : nat) (p : list stmt) : list stmt :=
  match k with
  | O => p
  | S i => loop i (step i p)
  end.

(* for i := len(f.Stmt) - 2; i >= 0; i-- { ... }   (the offset 2 is regenerated from the source) *)
Definition simplify_loop (p : list stmt) : list stmt := loop (length p - (loop_start_offset - 1)) p.

(* The same function by structural recursion (Proof/C38.v: simplify_loop_eq). *)
Fixpoint simplify (p : list stmt) : list stmt :=
  match p with
  | [] => []
  | st :: r =>
      let r' := simplify r in
      match valid_sub st, r' with
      | Some a, n :: r'' =>
          match valid_sub n with
          | Some b => Sub (a ++ b) :: r''
          | None => st :: r'
          end
      | _, _ => st :: r'
      end
  end.

(* every subinclude argument of the file, in order *)
Definition sub_args (st : stmt) : list arg := match st with Sub a => a | Other _ => [] end.
Definition flatten (p : list stmt) : list arg := concat (map sub_args p).

(* the statements simplify never touches *)
Definition unmergeable (st : stmt) : bool := match valid_sub st with Some _ => false | None => true end.

(* no two adjacent statements that simplify would merge *)
Fixpoint normal (p : list stmt) : bool :=
  match p with
  | a :: ((b :: _) as r) => negb (negb (unmergeable a) && negb (unmergeable b)) && normal r
  | _ => true
  end.

(* ---- evaluation -------------------------------------------------------------------------------- *)
Section Eval.
  (* interpreter state (scope + graph); None is "the file is rejected" *)
  Variable state : Type.
  Variable inc : str -> state -> option state.             (* subinclude one label: build, load, SetAll *)
  Variable fstr_val : str -> state -> option str.          (* interpolate an f-string in the current scope *)
  Variable nonlit_val : N -> state -> option (list str).   (* any other argument expression (a string or a list) *)
  Variable other : N -> state -> option state.             (* any other statement *)

  Definition arg_vals (a : arg) (st : state) : option (list str) :=
    match a with
    | Lit v => Some [v]
    | FStr v => match fstr_val v st with Some x => Some [x] | None => None end
    | NonLit id => nonlit_val id st
    end.

  (* the call's arguments are all evaluated, left to right, before the builtin runs *)
  Fixpoint args_vals (l : list arg) (st : state) : option (list str) :=
    match l with
    | [] => Some []
    | a :: r =>
        match arg_vals a st with
        | None => None
        | Some x => match args_vals r st with None => None | Some y => Some (x ++ y) end
        end
    end.

  (* builtins.go subinclude: for _, arg := range si { ... s.SetAll(Subinclude(...)) } *)
  Fixpoint include_all (ls : list str) (st : state) : option state :=
    match ls with
    | [] => Some st
    | l :: r => match inc l st with None => None | Some st' => include_all r st' end
    end.

  Definition exec (s0 : stmt) (st : state) : option state :=
    match s0 with
    | Sub a => match args_vals a st with None => None | Some ls => include_all ls st end
    | Other id => other id st
    end.

  Fixpoint eval (p : list stmt) (st : state) : option state :=
    match p with
    | [] => Some st
    | s0 :: r => match exec s0 st with None => None | Some st' => eval r st' end
    end.
End Eval.

(* ---- the defect class of simplify ---------------------------------------------------------------- *)
Definition is_fstr (a : arg) : bool := match a with FStr _ => true | _ => false end.
Definition has_fstr (l : list arg) : bool := existsb is_fstr l.
Definition null {A} (l : list A) : bool := match l with [] => true | _ => false end.

(* A merge that moves the evaluation of an f-string argument in front of at least one earlier include:
   `subinclude(a...)` (a not empty) directly followed by a run of string-only subincludes that holds an f-string. *)
Fixpoint hoisted (p : list stmt) : bool :=
  match p with
  | [] => false
  | st :: r =>
      hoisted r
      || match valid_sub st, simplify r with
         | Some a, n :: _ =>
             match valid_sub n with
             | Some b => negb (null a) && has_fstr b
             | None => false
             end
         | _, _ => false
         end
  end.

Inductive finding := FStringArgHoisted.
Definition defect_class (p : list stmt) : option finding := if hoisted p then Some FStringArgHoisted else None.

(* ---- asp lexer: what the first byte of a token may be (lexer.go nextToken) ------------------------- *)
Inductive lexclass := LexIdent | LexToken | LexFail | LexUnknown.

Definition in_ranges (b : N) (rs : list (N * N)) : bool :=
  existsb (fun r => N.leb (fst r) b && N.leb b (snd r)) rs.

(* `else if (next >= 'a' && next <= 'z') || ... || next >= utf8.RuneSelf { return l.consumeIdent(pos) }`, then
   `switch next`: a listed byte is a token (or skipped white space / comment), a clause that only calls l.fail is an
   error of its own, the default clause is "Unknown symbol".  (The r"..." / f"..." prefixes are letters.) *)
Definition lex_class (b : N) : lexclass :=
  if N.eqb b 32 then LexToken                       (* l.stripSpaces() runs first: a space never reaches the switch *)
  else if in_ranges b asp_ident_start then LexIdent
  else if existsb (N.eqb b) (concat asp_fail_cases) then LexFail
  else if existsb (N.eqb b) (concat asp_switch_cases) then LexToken
  else LexUnknown.

(* ---- correspondence cases ----------------------------------------------------------------------- *)
Definition arg_eqb (a b : arg) : bool :=
  match a, b with
  | Lit x, Lit y => str_eqb x y
  | FStr x, FStr y => str_eqb x y
  | NonLit x, NonLit y => N.eqb x y
  | _, _ => false
  end.

Definition stmt_eqb (a b : stmt) : bool :=
  match a, b with
  | Sub x, Sub y => list_eqb arg_eqb x y
  | Other x, Other y => N.eqb x y
  | _, _ => false
  end.

Inductive case :=
(* the statement list ParseBuild produced, the list the real simplify left, what fmt.go's subinclude() said about
   every input statement, and the harness's own shape test "an f-string argument was moved over an earlier argument" *)
| CSimp (input observed : list stmt) (valid : list bool) (moved : bool)
(* a file holding the single byte b after `x = 1\n`: 0 = parsed or any other error, 1 = "Unknown symbol", 2 = the tab error *)
| CByte (b : N) (observed : N)
(* an integer operator chain `e = <chain>` in a file: the text the real format() printed for it and the values the real
   binary computed for it before and after formatting (V0 = 7, V1 = 10, V2 = 3) *)
| CExpr (c : chain) (formatted : str) (before after : Z)
(* a plain string literal (quote byte, triple?, the bytes between the quotes): the token the real format() printed and the
   values the real asp lexer read before and after *)
| CStr (quote : N) (ml : bool) (body : str) (formatted : str) (before after : str).

Definition lex_code (c : lexclass) : N :=
  match c with LexUnknown => 1 | LexFail => 2 | _ => 0 end%N.

Definition check (c : case) : bool :=
  match c with
  | CSimp input observed valid moved =>
      list_eqb stmt_eqb (simplify_loop input) observed
      && list_eqb stmt_eqb (simplify input) observed
      && list_eqb Bool.eqb (map (fun x => negb (unmergeable x)) input) valid
      && Bool.eqb (hoisted input) moved
  | CByte b observed => N.eqb (lex_code (lex_class b)) observed
  | CExpr c formatted before after =>
      str_eqb (C38Expr.render (fmt_chain c)) formatted && Z.eqb (zeval c) before && Z.eqb (zeval (fmt_chain c)) after
  | CStr quote ml body formatted before after =>
      option_eqb (fun a b => str_eqb (fst a) (fst b) && str_eqb (snd a) (snd b))
                 (lex_string (delim quote ml ++ body ++ delim quote ml)) (Some (before, []))
      && option_eqb str_eqb (bt_print quote ml body) (Some formatted)
      && option_eqb (fun a b => str_eqb (fst a) (fst b) && str_eqb (snd a) (snd b)) (lex_string formatted) (Some (after, []))
  end.
