(* C10 - build actions see a hermetic, fully hashed environment.
   Executable model of
     src/core/build_env.go   GeneralBuildEnvironment / TargetEnvironment / BuildEnvironment / withUserProvidedEnv
     src/core/config.go      setBuildPath / getBuildEnv / GetBuildEnv / Hash (the environment part)
     src/fs/home.go          ExpandHomePath
     os.Expand               (Go standard library, used by withUserProvidedEnv)
     src/build/incrementality.go   the pass_env fragment of ruleHash
   A Go map is an association list in first-insertion order with unique keys; the caller's
   environment (os.Environ) is an association list as well.  No proofs here. *)
From Coq Require Import String.
From PlzV Require Import Base.Harness.

Definition env := list (str * str).

Fixpoint lookup (k : str) (m : env) : option str :=
  match m with
  | [] => None
  | (k', v) :: r => if str_eqb k k' then Some v else lookup k r
  end.

(* m[k] = v *)
Fixpoint set (k v : str) (m : env) : env :=
  match m with
  | [] => [(k, v)]
  | (k', w) :: r => if str_eqb k k' then (k', v) :: r else (k', w) :: set k v r
  end.

(* env.Add(that): for k, v := range that { env[k] = v }  (keys of `that` are distinct: order irrelevant) *)
Definition add (m that : env) : env := fold_left (fun a kv => set (fst kv) (snd kv) a) that m.

(* os.Getenv / os.LookupEnv on the caller's environment *)
Definition lookup_env (caller : env) (k : str) : option str := lookup k caller.
Definition getenv (caller : env) (k : str) : str :=
  match lookup k caller with Some v => v | None => [] end.

Definition mem (x : str) (l : list str) : bool := existsb (str_eqb x) l.

(* ---- small string functions ---- *)
Definition ch (x : String.string) : N := match s x with c :: _ => c | [] => 0%N end.

Fixpoint join (sep : str) (l : list str) : str :=
  match l with
  | [] => []
  | [x] => x
  | x :: r => x ++ sep ++ join sep r
  end.

(* strings.Split(x, ":") *)
Fixpoint split_colon_aux (cur : str) (x : str) : list str :=
  match x with
  | [] => [rev cur]
  | c :: r => if N.eqb c (ch ":") then rev cur :: split_colon_aux [] r else split_colon_aux (c :: cur) r
  end.
Definition split_colon (x : str) : list str := split_colon_aux [] x.

(* strings.ToUpper on ASCII, then "-" -> "_" : the key of a [buildenv] entry *)
Definition upper (c : N) : N := if (N.leb 97 c && N.leb c 122)%bool then (c - 32)%N else c.
Definition to_upper (x : str) : str := map upper x.
Definition norm_key (k : str) : str :=
  map (fun c => if N.eqb c (ch "-") then ch "_" else c) (to_upper k).

Fixpoint has_prefix (p x : str) : bool :=
  match p, x with
  | [], _ => true
  | a :: p', b :: x' => N.eqb a b && has_prefix p' x'
  | _ :: _, [] => false
  end.

Fixpoint contains_byte (c : N) (x : str) : bool :=
  match x with [] => false | d :: r => N.eqb c d || contains_byte c r end.

(* fs.ExpandHomePath: regexp (?:^|:)(~(?:[/:]|$)), every "~" of a match replaced by $HOME.
   Matches do not overlap: a ":" consumed as the END of one match cannot START the next one. *)
Fixpoint expand_home_aux (home : str) (boundary : bool) (x : str) : str :=
  match x with
  | [] => []
  | c :: r =>
      if (boundary && N.eqb c (ch "~"))%bool then
        match r with
        | [] => home
        | d :: r' =>
            if (N.eqb d (ch "/") || N.eqb d (ch ":"))%bool
            then home ++ d :: expand_home_aux home false r'
            else c :: expand_home_aux home false r
        end
      else c :: expand_home_aux home (N.eqb c (ch ":")) r
  end.
Definition expand_home (home x : str) : str := expand_home_aux home true x.

(* strings.ReplaceAll(x, ":", " ") *)
Definition colons_to_spaces (x : str) : str := map (fun c => if N.eqb c (ch ":") then ch " " else c) x.

(* ---- os.Expand ---- *)
Definition is_special (c : N) : bool :=
  existsb (N.eqb c) (s "*#$@!?-0123456789").
Definition is_alnum (c : N) : bool :=
  (N.eqb c (ch "_") || (N.leb 48 c && N.leb c 57) || (N.leb 97 c && N.leb c 122) || (N.leb 65 c && N.leb c 90))%bool.

Fixpoint take_alnum (x : str) : str :=
  match x with
  | c :: r => if is_alnum c then c :: take_alnum r else []
  | [] => []
  end.

(* position of the first "}" in x *)
Fixpoint find_brace (x : str) : option nat :=
  match x with
  | [] => None
  | c :: r => if N.eqb c (ch "}") then Some 0%nat else option_map S (find_brace r)
  end.

(* getShellName(x) for non-empty x: (name, bytes consumed) *)
Definition scan_brace (r : str) : str * nat :=
  match find_brace r with
  | Some O => ([], 2%nat)                    (* "${}" : bad syntax, eaten *)
  | Some i => (firstn i r, (i + 2)%nat)
  | None => ([], 1%nat)                      (* "${" without "}" : eaten *)
  end.
Definition get_shell_name (x : str) : str * nat :=
  match x with
  | [] => ([], 0%nat)
  | c :: r =>
      if N.eqb c (ch "{") then
        match r with
        | c1 :: c2 :: _ => if (is_special c1 && N.eqb c2 (ch "}"))%bool then ([c1], 3%nat) else scan_brace r
        | _ => scan_brace r
        end
      else if is_special c then ([c], 1%nat)
      else let n := take_alnum x in (n, length n)
  end.

Fixpoint expand_fuel (fuel : nat) (mapping : str -> str) (x : str) : str :=
  match fuel with
  | O => x
  | S f =>
      match x with
      | [] => []
      | c :: r =>
          if (N.eqb c (ch "$") && negb (match r with [] => true | _ => false end))%bool then
            let '(name, w) := get_shell_name r in
            (match name, w with
             | [], O => [c]                 (* "$" not followed by a name: kept *)
             | [], _ => []                  (* invalid syntax: eaten *)
             | _, _ => mapping name
             end) ++ expand_fuel f mapping (skipn w r)
          else c :: expand_fuel f mapping r
      end
  end.
Definition os_expand (mapping : str -> str) (x : str) : str := expand_fuel (length x) mapping x.

(* ---- configuration ---- *)
Record config := {
  c_lang : str;
  c_arch : str; c_os : str;                 (* state.Arch *)
  c_pkg_config_path : str;                  (* [cpp] pkgconfigpath *)
  c_buildenv : list (str * str);            (* [buildenv], keys as stored, in map iteration order *)
  c_pass_unsafe : list str;                 (* [build] passunsafeenv *)
  c_pass_env : list str;                    (* [build] passenv *)
  c_location : str;                         (* [please] location, resolved *)
  c_path : list str;                        (* [build] path as read from the files; [] = not given *)
  c_remote_url : str;
  c_build_config : str;
  c_nonce : str;
  c_licences_reject : list str
}.

Definition xarch (a : str) : str :=
  if str_eqb a (s "amd64") then s "x86_64" else if str_eqb a (s "x86") then s "x86_32"
  else if str_eqb a (s "arm64") then s "aarch_64" else a.
Definition xos (o : str) : str := if str_eqb o (s "darwin") then s "osx" else o.

Definition default_path : list str := [s "/usr/local/bin"; s "/usr/bin"; s "/bin"].
Definition PATH := s "PATH".
Definition HOME := s "HOME".

(* setBuildPath + setDefault: config.Build.Path after ReadConfigFiles *)
Definition build_path (cfg : config) (caller : env) : list str :=
  match c_path cfg with
  | [] => if (mem PATH (c_pass_unsafe cfg) || mem PATH (c_pass_env cfg))%bool
          then split_colon (getenv caller PATH) else default_path
  | p => p
  end.

(* the addEnv closure of getBuildEnv; the state is (env, includePath) *)
Definition add_env_step (cfg : config) (caller : env) (st : env * bool) (k : str) : env * bool :=
  match lookup_env caller k with
  | Some v =>
      if str_eqb k PATH then (set k (c_location cfg ++ s ":" ++ v) (fst st), false)
      else (set k v (fst st), snd st)
  | None => st
  end.
Definition add_env (cfg : config) (caller : env) (vars : list str) (st : env * bool) : env * bool :=
  fold_left (add_env_step cfg caller) vars st.

Definition get_build_env (cfg : config) (caller : env) (include_path include_unsafe : bool) : env :=
  let e0 := fold_left (fun e kv => set (norm_key (fst kv)) (snd kv) e) (c_buildenv cfg) [] in
  let st1 := if include_unsafe then add_env cfg caller (c_pass_unsafe cfg) (e0, include_path) else (e0, include_path) in
  let st2 := add_env cfg caller (c_pass_env cfg) st1 in
  if snd st2 then set PATH (join (s ":") (c_location cfg :: build_path cfg caller)) (fst st2) else fst st2.

(* GetBuildEnv() *)
Definition config_build_env (cfg : config) (caller : env) : env := get_build_env cfg caller true true.

Definition general_env (cfg : config) (caller : env) : env :=
  let e := [(s "PLZ_ENV", s "1"); (s "LANG", c_lang cfg); (s "ARCH", c_arch cfg); (s "OS", c_os cfg);
            (s "XARCH", xarch (c_arch cfg)); (s "XOS", xos (c_os cfg))] in
  let e := match c_pkg_config_path cfg with [] => e | p => set (s "PKG_CONFIG_PATH") p e end in
  add e (config_build_env cfg caller).

(* ---- target ---- *)
Record target := {
  t_pkg : str; t_pkg_dir : str; t_name : str;
  t_local : bool;
  t_pass_unsafe : option (list str);        (* target.PassUnsafeEnv *)
  t_pass_env : option (list str);           (* target.PassEnv *)
  t_srcs : list str;                        (* AllSourcePaths(graph) *)
  t_outs : list str;                        (* GetTmpOutputAll(Outputs()) *)
  t_src_list_files : bool;
  t_named_srcs : list (str * list str);     (* name -> SourcePaths, in map iteration order *)
  t_named_outs : list (str * list str);     (* DeclaredNamedOutputs, tmp names *)
  t_tools : list str;                       (* toolPaths(AllTools()); no named tools *)
  t_secrets : list str;
  t_named_secrets : list (str * list str);
  t_env : list (str * str)                  (* target.Env, a map: any presentation order *)
}.

Definition opt_list (o : option (list str)) : list str := match o with Some l => l | None => [] end.

Definition target_env (cfg : config) (t : target) (caller : env) : env :=
  let e := general_env cfg caller in
  let e := set (s "PKG") (t_pkg t) e in
  let e := set (s "PKG_DIR") (t_pkg_dir t) e in
  let e := set (s "NAME") (t_name t) e in
  let e := if (match c_remote_url cfg with [] => true | _ => false end || t_local t)%bool
           then set (s "CONFIG") (c_build_config cfg) (set (s "BUILD_CONFIG") (c_build_config cfg) e) else e in
  let e := fold_left (fun a k => set k (getenv caller k) a) (opt_list (t_pass_unsafe t)) e in
  fold_left (fun a k => set k (getenv caller k) a) (opt_list (t_pass_env t)) e.

Definition has_tilde_secrets (t : target) : bool :=
  existsb (contains_byte (ch "~")) (t_secrets t) || existsb (fun kv => existsb (contains_byte (ch "~")) (snd kv)) (t_named_secrets t).

Definition secrets_value (caller : env) (l : list str) : str :=
  colons_to_spaces (expand_home (getenv caller HOME) (join (s ":") l)).

(* withUserProvidedEnv: the keys of target.Env are collected, sorted (sort.Strings) and applied in that order;
   a value containing "$" is expanded with os.Expand against the environment built SO FAR. *)
Definition user_env_step (e : env) (kv : str * str) : env :=
  let v := snd kv in
  let v := if contains_byte (ch "$") v
           then os_expand (fun k => match lookup k e with Some x => x | None => ch "$" :: k end) v else v in
  set (fst kv) v e.
Fixpoint insert_env (kv : str * str) (l : list (str * str)) : list (str * str) :=
  match l with
  | [] => [kv]
  | x :: r => if str_leb (fst kv) (fst x) then kv :: l else x :: insert_env kv r
  end.
Definition sort_env (l : list (str * str)) : list (str * str) := fold_right insert_env [] l.
Definition with_user_env (uenv : list (str * str)) (e : env) : env := fold_left user_env_step (sort_env uenv) e.

Definition opt_str_eqb_early := option_eqb str_eqb.

(* ---- sandboxed targets ---- *)
(* what BuildEnvironment looks at for a sandboxed target:
     sb_target   target.Sandbox
     sb_resolve  runtime.GOOS == "linux" && !strings.HasPrefix(RepoRoot, "/tmp/")     (resolveOut; dir is never ".")
     sb_dirs     [sandbox] dir *)
Record sbx := { sb_target : bool; sb_resolve : bool; sb_dirs : list str }.
Definition no_sbx : sbx := {| sb_target := false; sb_resolve := false; sb_dirs := [] |}.
Definition SANDBOX_DIR := s "/tmp/plz_sandbox".          (* core.SandboxDir *)
Definition is_nil {A} (l : list A) : bool := match l with [] => true | _ => false end.

(* BuildEnvironment(state, target, tmpDir), no Bazel compatibility *)
Definition build_env_sb (sx : sbx) (cfg : config) (t : target) (tmp : str) (caller : env) : env :=
  let e := target_env cfg t caller in
  let e := set (s "TMP_DIR") tmp e in
  let e := set (s "TMPDIR") tmp e in
  let e := set (s "OUTS") (join (s " ") (t_outs t)) e in
  let e := set (s "HOME") tmp e in
  let e := set (s "PYTHONHASHSEED") (s "42") e in
  let e := match t_outs t with
           | [o] => set (s "OUT") ((if (sb_target sx && sb_resolve sx)%bool then SANDBOX_DIR else tmp) ++ s "/" ++ o) e
           | _ => e end in
  let e := if t_src_list_files t then e else
             let e := set (s "SRCS") (join (s " ") (t_srcs t)) e in
             let e := match t_srcs t with [x] => set (s "SRC") x e | _ => e end in
             fold_left (fun a kv => set (s "SRCS_" ++ to_upper (fst kv)) (join (s " ") (snd kv)) a) (t_named_srcs t) e in
  let e := fold_left (fun a kv => set (s "OUTS_" ++ to_upper (fst kv)) (join (s " ") (snd kv)) a) (t_named_outs t) e in
  let e := set (s "TOOLS") (join (s " ") (t_tools t)) e in
  let e := match t_tools t with [x] => set (s "TOOL") x e | _ => e end in
  let e := match t_secrets t with [] => e | l => set (s "SECRETS") (secrets_value caller l) e end in
  let e := fold_left (fun a kv => set (s "SECRETS_" ++ to_upper (fst kv)) (secrets_value caller (snd kv)) a) (t_named_secrets t) e in
  let e := if (sb_target sx && negb (is_nil (sb_dirs sx)))%bool then set (s "SANDBOX_DIRS") (join (s ",") (sb_dirs sx)) e else e in
  with_user_env (t_env t) e.

(* the non-sandboxed target *)
Definition build_env (cfg : config) (t : target) (tmp : str) (caller : env) : env := build_env_sb no_sbx cfg t tmp caller.

(* ---- from the environment map to the process the action runs in ----
   src/process/exec_linux.go ExecCommand, src/process/process.go ExecWithTimeout, os/exec, src/sandbox/sandbox_linux.go.
   exec.Cmd.Env is a list of name=value entries (here: pairs); duplicates are allowed, the LAST one wins (os/exec
   dedupEnv); a nil/empty list means "inherit the parent's environment" (os/exec Cmd.environ). *)
Inductive sandbox_mode :=
| SbNone                 (* sandbox == NoSandbox *)
| SbBuiltin              (* e.usePleaseSandbox: re-exec into `plz sandbox` *)
| SbTool.                (* an external [sandbox] tool *)

Definition bool01 (b : bool) : str := if b then s "1" else s "0".     (* boolToString *)

(* cmd.Env as ExecCommand leaves it. net/mount = sandbox.Network / sandbox.Mount *)
Definition exec_preset (mode : sandbox_mode) (uid : str) (net mount : bool) : env :=
  match mode with
  | SbNone => []
  | SbBuiltin => [(s "SANDBOX_UID", uid); (s "SHARE_NETWORK", bool01 (negb net)); (s "SHARE_MOUNT", bool01 (negb mount))]
  | SbTool => [(s "SHARE_NETWORK", bool01 (negb net)); (s "SHARE_MOUNT", bool01 (negb mount))]
  end.
(* ExecWithTimeout: cmd.Env = append(cmd.Env, env...) *)
Definition cmd_env (mode : sandbox_mode) (uid : str) (net mount : bool) (e : env) : env := exec_preset mode uid net mount ++ e.

(* os/exec: the environment of the started process *)
Definition dedup (l : env) : env := add [] l.
(* Cmd.environ: a nil Env means os.Environ(), plus PWD=<cmd.Dir> when a directory is given (POSIX) *)
Definition child_env (caller : env) (dir : str) (l : env) : env :=
  match l with
  | [] => match dir with [] => caller | _ => set (s "PWD") dir caller end
  | _ => dedup l
  end.

(* strings.ReplaceAll(x, from, to), from non-empty *)
Fixpoint replace_fuel (fuel : nat) (from to x : str) : str :=
  match fuel with
  | O => x
  | S f =>
      match x with
      | [] => []
      | c :: r => if has_prefix from x then to ++ replace_fuel f from to (skipn (length from) x)
                  else c :: replace_fuel f from to r
      end
  end.
Definition replace_all (from to x : str) : str := match from with [] => x | _ => replace_fuel (length x) from to x end.

(* sandbox.Sandbox (`plz sandbox cmd args...`): env := os.Environ(); when the mount namespace is unshared
   (SHARE_MOUNT != "1") $TMP_DIR must be set and not under /tmp, and rewriteEnvVars replaces it by /tmp/plz_sandbox in
   every value; the command is exec'd with env.  None = plz sandbox refuses to run the command. *)
Definition sandbox_process (e : env) : option env :=
  if opt_str_eqb_early (lookup (s "SHARE_MOUNT") e) (Some (s "1")) then Some e
  else match lookup (s "TMP_DIR") e with
       | None | Some [] => None
       | Some d => if has_prefix (s "/tmp") d then None
                   else Some (map (fun kv => (fst kv, replace_all d SANDBOX_DIR (snd kv))) e)
       end.

(* the environment the action's process gets (dir = cmd.Dir); for an external tool: the environment of the tool *)
Definition action_env (mode : sandbox_mode) (uid : str) (net mount : bool) (caller : env) (dir : str) (e : env) : option env :=
  let ce := child_env caller dir (cmd_env mode uid net mount e) in
  match mode with SbBuiltin => sandbox_process ce | _ => Some ce end.

(* ---- what is hashed ---- *)
(* ruleHash: if target.PassEnv != nil { for each name: Write(name); Write("="); Write(os.Getenv(name)) } *)
Definition pass_env_stream (t : target) (caller : env) : str :=
  concat (map (fun n => n ++ s "=" ++ getenv caller n) (opt_list (t_pass_env t))).
(* the whole stream of ruleHash is  pre ++ pass_env_stream ++ post  with pre and post independent of the caller *)
Definition rule_stream (pre post : str) (t : target) (caller : env) : str := pre ++ pass_env_stream t caller ++ post.

Fixpoint insert_sorted (k : str) (l : list str) : list str :=
  match l with
  | [] => [k]
  | x :: r => if str_leb k x then k :: l else x :: insert_sorted k r
  end.
Definition sort_strs (l : list str) : list str := fold_right insert_sorted [] l.

Definition SECRET := s "SECRET".
(* Configuration.Hash(): Lang, Nonce, Licences.Reject, then for k in sorted(keys(getBuildEnv(false,false))):
   if !HasPrefix(k,"SECRET") { Write(k); Write("="); Write(env[k]) } *)
Definition config_env_stream (cfg : config) (caller : env) : str :=
  let e := get_build_env cfg caller false false in
  concat (map (fun k => k ++ s "=" ++ match lookup k e with Some v => v | None => [] end)
              (filter (fun k => negb (has_prefix SECRET k)) (sort_strs (map fst e)))).
Definition config_stream (cfg : config) (caller : env) : str :=
  c_lang cfg ++ c_nonce cfg ++ concat (c_licences_reject cfg) ++ config_env_stream cfg caller.

(* ---- which caller variables the code reads ---- *)
Definition code_reads (cfg : config) (t : target) : list str :=
  if has_tilde_secrets t then [HOME] else [].
Definition reads (cfg : config) (t : target) : list str :=
  c_pass_unsafe cfg ++ c_pass_env cfg ++ opt_list (t_pass_unsafe t) ++ opt_list (t_pass_env t) ++ code_reads cfg t.
(* the variables whose value is covered by a hash *)
Definition hashed_reads (cfg : config) (t : target) : list str := c_pass_env cfg ++ opt_list (t_pass_env t).

(* ==== round-2 follow-up ==== *)

(* ---- (a) the three states of a variable of the invoking shell, and the two ways the code reads one ---- *)
Inductive vstate := VUnset | VEmpty | VValue (v : str).        (* VValue v: v is not empty *)
Definition vstate_of (caller : env) (k : str) : vstate :=
  match lookup k caller with None => VUnset | Some [] => VEmpty | Some v => VValue v end.

Inductive read_mode :=
| RGetenv        (* x := os.Getenv(k): unset and empty are the same *)
| RLookup.       (* if x, ok := os.LookupEnv(k); ok { ... }: unset is told apart from empty *)

(* what a read in the given mode can tell about the state: None = "the guarded statement is skipped" *)
Definition view_of (m : read_mode) (st : vstate) : option str :=
  match m, st with
  | RGetenv, VUnset => Some [] | RGetenv, VEmpty => Some [] | RGetenv, VValue v => Some v
  | RLookup, VUnset => None | RLookup, VEmpty => Some [] | RLookup, VValue v => Some v
  end.
Definition read_view (m : read_mode) (caller : env) (k : str) : option str := view_of m (vstate_of caller k).

(* one iteration of `for _, e := range *target.PassXxx` in TargetEnvironment, in the given mode *)
Definition pass_step (m : read_mode) (caller : env) (a : env) (k : str) : env :=
  match read_view m caller k with Some v => set k v a | None => a end.

(* TargetEnvironment with the read mode of its two pass loops as a parameter (mu: pass_unsafe_env, mp: pass_env);
   the unchanged code is target_env_m RGetenv RGetenv (Proof/C10_R2.v: target_env_m_unchanged; the modes come from the
   source through Gen.C10Env.pass_read_modes). *)
Definition target_env_m (mu mp : read_mode) (cfg : config) (t : target) (caller : env) : env :=
  let e := general_env cfg caller in
  let e := set (s "PKG") (t_pkg t) e in
  let e := set (s "PKG_DIR") (t_pkg_dir t) e in
  let e := set (s "NAME") (t_name t) e in
  let e := if (match c_remote_url cfg with [] => true | _ => false end || t_local t)%bool
           then set (s "CONFIG") (c_build_config cfg) (set (s "BUILD_CONFIG") (c_build_config cfg) e) else e in
  let e := fold_left (pass_step mu caller) (opt_list (t_pass_unsafe t)) e in
  fold_left (pass_step mp caller) (opt_list (t_pass_env t)) e.

(* what ruleHash can see of the target-level pass_env variables when it reads them in mode mh *)
Definition hashed_view (mh : read_mode) (t : target) (caller : env) : list (option str) :=
  map (read_view mh caller) (opt_list (t_pass_env t)).

(* ---- (b) the built-in remote_file action: request headers ---- *)
Inductive hdr_mode :=
| HTargetEnv      (* os.Expand(v, env.ReplaceEnvironment), env = BuildEnvironment(state, target, tmp) *)
| HShellEnv.      (* os.ExpandEnv(v): the process environment *)

Definition env_val0 (e : env) (k : str) : str := match lookup k e with Some v => v | None => [] end.   (* BuildEnv.ReplaceEnvironment *)
Definition header_mapping (m : hdr_mode) (e caller : env) (k : str) : str :=
  match m with HTargetEnv => env_val0 e k | HShellEnv => getenv caller k end.
(* the value sent for a header whose declared value is raw *)
Definition header_value (m : hdr_mode) (cfg : config) (t : target) (tmp : str) (caller : env) (raw : str) : str :=
  os_expand (header_mapping m (build_env cfg t tmp caller) caller) raw.

(* ---- (c) needsBuilding / Build over a history of invocations ----
   One target, sources and secrets fixed.  key = the bytes the two hashes cover (Configuration.Hash's and ruleHash's
   caller-dependent input).  The state is what is on disk in plz-out:
     o_md   the target's metadata file exists (written by a successful build, never removed by Build)
     o_out  the declared outputs exist, and under which key they were produced
     o_rec  the recorded hash: an xattr ON the outputs ([build] xattrs = true) - it disappears with them - or the
            .rule_hash_<file> side files (xattrs = false) - they stay when the outputs are removed. *)
Definition hkey := (str * str)%type.
Definition hkey_eqb (a b : hkey) : bool := (str_eqb (fst a) (fst b) && str_eqb (snd a) (snd b))%bool.
Definition okey_eqb (a b : option hkey) : bool :=
  match a, b with Some x, Some y => hkey_eqb x y | None, None => true | _, _ => false end.

Record ostate := { o_md : bool; o_out : option hkey; o_rec : option hkey }.
Definition o_init : ostate := {| o_md := false; o_out := None; o_rec := None |}.

(* the reasons for which needsBuilding returns true, in statement order (Gen.C10Env.needs_building_checks) *)
Inductive nb_check := NbMetadata | NbConfig | NbRule | NbSource | NbSecret | NbOutputs | NbForce.

Definition nb_fires (st : ostate) (key : hkey) (c : nb_check) : bool :=
  match c with
  | NbMetadata => negb (o_md st)
  | NbConfig => match o_rec st with Some r => negb (str_eqb (fst r) (fst key)) | None => true end
  | NbRule => match o_rec st with Some r => negb (str_eqb (snd r) (snd key)) | None => true end
  | NbSource | NbSecret => false        (* sources and secrets do not change in these histories *)
  | NbOutputs => match o_out st with Some _ => false | None => true end
  | NbForce => false                    (* no --rebuild *)
  end.
Definition needs_building (checks : list nb_check) (st : ostate) (key : hkey) : bool := existsb (nb_fires st key) checks.

(* one `plz build` of the target under a caller with hashed bytes key, whose action succeeds iff ok.
   removes = Build() calls RemoveOutputs when buildTarget fails.  Result: new state, (the action ran, exit status ok) *)
Definition build_once (checks : list nb_check) (removes xattrs : bool) (key : hkey) (ok : bool) (st : ostate) : ostate * (bool * bool) :=
  if needs_building checks st key then
    if ok then ({| o_md := true; o_out := Some key; o_rec := Some key |}, (true, true))
    else if removes then ({| o_md := o_md st; o_out := None; o_rec := if xattrs then None else o_rec st |}, (true, false))
    else (st, (true, false))
  else (st, (false, true)).

(* a history: Some (key, ok) = build, None = rm -rf plz-out *)
Definition hstep := option (hkey * bool).
Definition run_step (checks : list nb_check) (removes xattrs : bool) (st : ostate) (x : hstep) : ostate * option (bool * bool) :=
  match x with
  | None => (o_init, None)
  | Some (key, ok) => let '(st', r) := build_once checks removes xattrs key ok st in (st', Some r)
  end.
Fixpoint run_history (checks : list nb_check) (removes xattrs : bool) (st : ostate) (h : list hstep) : ostate * list (bool * bool * bool) :=
  match h with
  | [] => (st, [])
  | x :: r =>
      let '(st', o) := run_step checks removes xattrs st x in
      let '(stf, obs) := run_history checks removes xattrs st' r in
      (stf, match o with Some (ran, ok) => (ran, ok, match o_out st' with Some _ => true | None => false end) :: obs | None => obs end)
  end.

(* the unchanged code *)
Definition nb_checks_unchanged : list nb_check := [NbMetadata; NbConfig; NbRule; NbSource; NbSecret; NbOutputs; NbForce].

(* the hashed bytes of a target under a caller, and whether its action succeeds: fail_on = Some (v, bad): the command is
   `[ "$v" != bad ] && ...`, evaluated in the environment the model says the action gets *)
Definition key_of (cfg : config) (t : target) (caller : env) : hkey := (config_stream cfg caller, pass_env_stream t caller).
Definition action_ok (fail_on : option (str * str)) (cfg : config) (t : target) (caller : env) : bool :=
  match fail_on with
  | None => true
  | Some (v, bad) => negb (str_eqb (env_val0 (target_env cfg t caller) v) bad)
  end.
Definition history_of (fail_on : option (str * str)) (cfg : config) (t : target) (steps : list (option env)) : list hstep :=
  map (option_map (fun c => (key_of cfg t c, action_ok fail_on cfg t c))) steps.

Definition obs3_eqb (a b : bool * bool * bool) : bool :=
  (Bool.eqb (fst (fst a)) (fst (fst b)) && Bool.eqb (snd (fst a)) (snd (fst b)) && Bool.eqb (snd a) (snd b))%bool.

(* ---- correspondence cases ---- *)
(* the same target with its env dict presented in another order (Go maps have no order) *)
Definition with_env (t : target) (e : list (str * str)) : target :=
  {| t_pkg := t_pkg t; t_pkg_dir := t_pkg_dir t; t_name := t_name t; t_local := t_local t;
     t_pass_unsafe := t_pass_unsafe t; t_pass_env := t_pass_env t; t_srcs := t_srcs t; t_outs := t_outs t;
     t_src_list_files := t_src_list_files t; t_named_srcs := t_named_srcs t; t_named_outs := t_named_outs t;
     t_tools := t_tools t; t_secrets := t_secrets t; t_named_secrets := t_named_secrets t; t_env := e |}.

Definition opt_str_eqb := option_eqb str_eqb.

(* same map: same number of keys and every observed pair is in the model's map *)
Definition env_eqb (m obs : env) : bool :=
  Nat.eqb (length m) (length obs) && forallb (fun kv => opt_str_eqb (lookup (fst kv) m) (Some (snd kv))) obs.

Inductive case :=
(* core.BuildEnvironment on a real target under a real process environment; obs = the returned map *)
| CBuildEnv (cfg : config) (t : target) (tmp : str) (caller : env) (obs : env)
(* config.GetBuildEnv() after ReadConfigFiles *)
| CConfigEnv (cfg : config) (caller : env) (obs : env)
(* fs.ExpandHomePathTo *)
| CExpandHome (home x out : str)
(* os.Expand with the mapping of withUserProvidedEnv over a fixed environment *)
| CExpand (e : env) (x out : str)
(* two callers: are the bytes written by ruleHash's pass_env fragment / Configuration.Hash's input equal?
   observed through equality of the real hashes *)
| CRuleHashEq (t : target) (c1 c2 : env) (same : bool)
| CConfigHashEq (cfg : config) (c1 c2 : env) (same : bool)
(* the `env` dump of a (possibly sandboxed) build action run by the real plz: BuildEnvironment, ExecWithTimeout,
   ExecCommand, os/exec and - built-in sandbox - `plz sandbox`; obs = None: the command was refused *)
| CActionEnv (sx : sbx) (cfg : config) (t : target) (tmp : str) (caller : env)
             (mode : sandbox_mode) (uid : str) (net mount : bool) (obs : option env)
(* process.Executor.ExecWithTimeout on an arbitrary name=value list (duplicates, empty list) *)
| CExecEnv (mode : sandbox_mode) (uid : str) (net mount : bool) (caller : env) (dir : str) (e : env) (obs : option env)
(* round 2: the value build.setHeaders puts on the request of a remote_file target for a header declared as raw
   (in-process through the hook; end to end: what a local HTTP server received from the real plz) *)
| CHeader (cfg : config) (t : target) (tmp : str) (caller : env) (raw obs : str)
(* round 2: a history of `plz build` invocations of one target (Some caller) and `rm -rf plz-out` (None) on a repository
   with [build] xattrs = xattrs; the command fails iff the variable fst fail_on has the value snd fail_on.
   obs, per invocation: (the action ran, plz exited 0 / the target did not fail, the output exists afterwards) *)
| CHistory (xattrs : bool) (fail_on : option (str * str)) (cfg : config) (t : target) (steps : list (option env))
           (obs : list (bool * bool * bool)).

Definition opt_env_eqb (m obs : option env) : bool :=
  match m, obs with
  | Some a, Some b => env_eqb a b
  | None, None => true
  | _, _ => false
  end.

Definition check (c : case) : bool :=
  match c with
  | CBuildEnv cfg t tmp caller obs =>
      env_eqb (build_env cfg t tmp caller) obs
  | CConfigEnv cfg caller obs => env_eqb (config_build_env cfg caller) obs
  | CExpandHome home x out => str_eqb (expand_home home x) out
  | CExpand e x out =>
      str_eqb (os_expand (fun k => match lookup k e with Some v => v | None => ch "$" :: k end) x) out
  | CRuleHashEq t c1 c2 same => Bool.eqb (str_eqb (pass_env_stream t c1) (pass_env_stream t c2)) same
  | CConfigHashEq cfg c1 c2 same => Bool.eqb (str_eqb (config_stream cfg c1) (config_stream cfg c2)) same
  | CActionEnv sx cfg t tmp caller mode uid net mount obs =>
      opt_env_eqb (action_env mode uid net mount caller tmp (build_env_sb sx cfg t tmp caller)) obs
  | CExecEnv mode uid net mount caller dir e obs => opt_env_eqb (action_env mode uid net mount caller dir e) obs
  | CHeader cfg t tmp caller raw obs => str_eqb (header_value HTargetEnv cfg t tmp caller raw) obs
  | CHistory xattrs fail_on cfg t steps obs =>
      list_eqb obs3_eqb (snd (run_history nb_checks_unchanged true xattrs o_init (history_of fail_on cfg t steps))) obs
  end.
