(* C33, end-to-end part - what lies between a BUILD file and the verdict of `plz build` besides
   CheckDependencyVisibility (Model/C33.v):
     A. src/build/build_step.go  buildTarget: when, relative to the early returns and the build
        effects, the check runs (the step lists are TRANSLATED from the source by gotrans, target
        VisibilityFlow, and executed here), over histories of invocations sharing plz-out;
     B. src/parse/asp/targets.go populateTarget / parseVisibility: how a visibility argument (a list
        of strings) becomes the list of labels CanSee looks at (the special strings are translated);
     C. src/parse/asp/objects.go pyConfig (IndexAssign / Get / Merge), builtins.go package() and
        defaultFromConfig, interpreter.go Subinclude / SetAll: package(default_visibility = ...,
        default_testonly = ...) as per-package state in a heap of overlay maps that subincluded files
        are merged into (pyConfig.Merge is translated into a little program and executed here).
   No proofs here. *)
From PlzV Require Import Base.Harness Model.C33.
From PlzV Require Gen.Visibility Gen.VisibilityFlow.
Import VisibilityFlow.

(* ------------------------------------------------------------------------------------------ *)
(* A. the build step                                                                           *)

(* what buildTarget consults besides the graph; plz-out is the list of labels built so far *)
Definition store := list label.
Record env := mkEnv {
  e_prepare : target -> bool;               (* state.PrepareOnly && IsOriginalTarget && !NeedTests *)
  e_filegroup : target -> bool;             (* target.IsFilegroup *)
  e_unchanged : store -> target -> bool;    (* !needsBuilding(state, target, false) *)
  e_cached : target -> bool }.              (* retrieveArtifacts succeeds *)

Definition mark (t : target) (s : store) : store := t_label t :: s.

(* one call of buildTarget along one path (local / remote): result and plz-out afterwards *)
Fixpoint run_steps (e : env) (st : state) (g : graph) (t : target) (ps : list bstep) (sto : store)
  : result * store :=
  match ps with
  | [] => (ROk, sto)
  | p :: r =>
      match p with
      | BValidate =>
          match check_visibility st g t with
          | ROk => run_steps e st g t r sto
          | x => (x, sto)
          end
      | BPreBuild => run_steps e st g t r sto
      | BReturnPrepareOnly => if e_prepare e t then (ROk, sto) else run_steps e st g t r sto
      | BReturnIfUnchanged =>
          if negb (e_filegroup e t) && e_unchanged e sto t then (ROk, sto) else run_steps e st g t r sto
      | BBuildFilegroupReturn => if e_filegroup e t then (ROk, mark t sto) else run_steps e st g t r sto
      | BRetrieveReturn => if e_cached e t then (ROk, mark t sto) else run_steps e st g t r sto
      | BBuild => run_steps e st g t r (mark t sto)
      | BRemoteBuild => run_steps e st g t r (mark t sto)
      end
  end.

Definition is_ok (r : result) : bool := match r with ROk => true | _ => false end.

(* one invocation: the requested target's closure is built in dependency order; stops at the first failure *)
Fixpoint build_list (e : env) (st : state) (g : graph) (prog : list bstep) (ts : list label) (sto : store)
  : result * store :=
  match ts with
  | [] => (ROk, sto)
  | l :: r =>
      match lookup g l with
      | None => (RDie l, sto)
      | Some t =>
          let '(res, sto') := run_steps e st g t prog sto in
          if is_ok res then build_list e st g prog r sto' else (res, sto')
      end
  end.

(* a history: invocations (configuration, graph as parsed by that invocation, closure) sharing plz-out *)
Definition invocation := (state * graph * list label)%type.

Fixpoint run_history (e : env) (prog : list bstep) (h : list invocation) (sto : store) : list result :=
  match h with
  | [] => []
  | (st, g, ts) :: r =>
      let '(res, sto') := build_list e st g prog ts sto in
      res :: run_history e prog r sto'
  end.

(* ------------------------------------------------------------------------------------------ *)
(* B. visibility arguments                                                                     *)

Definition whole_graph : label := mkLabel [] (s Visibility.public_package) (s Visibility.public_name).

Fixpoint split_at (c : N) (x : str) : option (str * str) :=
  match x with
  | [] => None
  | a :: r => if N.eqb a c then Some ([], r)
              else match split_at c r with Some (p, q) => Some (a :: p, q) | None => None end
  end.

(* parseLabelInPackage on the absolute forms the harness writes: //pkg:name, //pkg/..., //...
   (anything else: None = "Invalid build label", the package fails to parse) *)
Definition parse_label (x : str) : option label :=
  match x with
  | 47%N :: 47%N :: r =>
      match split_at 58%N r with
      | Some (p, n) => match n with [] => None | _ => Some (mkLabel [] p n) end
      | None =>
          match rev r with
          | [46%N; 46%N; 46%N] => Some (mkLabel [] [] (s "..."))
          | 46%N :: 46%N :: 46%N :: 47%N :: p => Some (mkLabel [] (rev p) (s "..."))
          | _ => None
          end
      end
  | _ => None
  end.

Definition in_strs (v : str) (xs : list String.string) : bool := existsb (fun x => str_eqb v (s x)) xs.

(* func parseVisibility(s *scope, vis string) core.BuildLabel *)
Definition parse_visibility (bazel : bool) (v : str) : option label :=
  if in_strs v public_strings || (bazel && in_strs v bazel_public_strings) then Some whole_graph
  else parse_label v.

Fixpoint map_opt {A B} (f : A -> option B) (xs : list A) : option (list B) :=
  match xs with
  | [] => Some []
  | x :: r => match f x, map_opt f r with Some y, Some ys => Some (y :: ys) | _, _ => None end
  end.

(* the visibility block of populateTarget: None = the package does not parse *)
Definition target_visibility (bazel : bool) (arg : list str) : option (list label) :=
  match arg with
  | [] => Some []
  | v0 :: _ => if str_eqb v0 (s first_element_public) then Some [whole_graph]
               else map_opt (parse_visibility bazel) arg
  end.

(* ------------------------------------------------------------------------------------------ *)
(* C. CONFIG overlays                                                                          *)

Inductive cval := CVis (v : list str) | CBool (b : bool) | COther.
Definition dict := list (str * cval).           (* newest binding first *)

Fixpoint dget (d : dict) (k : str) : option cval :=
  match d with
  | [] => None
  | (k', v) :: r => if str_eqb k' k then Some v else dget r k
  end.
Definition dset (d : dict) (k : str) (v : cval) : dict := (k, v) :: d.
(* for k, v := range other { d[k] = v } *)
Definition dmerge (d other : dict) : dict := other ++ d.

(* the heap of overlay maps; cfg p = the overlay pointer of package p's CONFIG (None = nil) *)
Record pstate := mkP { p_heap : nat -> dict; p_next : nat; p_cfg : nat -> option nat }.

Definition upd {A} (f : nat -> A) (a : nat) (x : A) : nat -> A := fun b => if Nat.eqb b a then x else f b.

Definition write (a : nat) (d : dict) (ps : pstate) : pstate :=
  mkP (upd (p_heap ps) a d) (p_next ps) (p_cfg ps).
Definition set_cfg (p : nat) (a : option nat) (ps : pstate) : pstate :=
  mkP (p_heap ps) (p_next ps) (upd (p_cfg ps) p a).
(* c.overlay = make(pyDict) / pyDict{...} *)
Definition alloc (p : nat) (d : dict) (ps : pstate) : pstate :=
  mkP (upd (p_heap ps) (p_next ps) d) (S (p_next ps)) (upd (p_cfg ps) p (Some (p_next ps))).
(* for k, v := range other.overlay { c.overlay[k] = v }  (a nil receiver map would panic: not reached) *)
Definition copy_all (p other : nat) (ps : pstate) : pstate :=
  match p_cfg ps p with
  | Some a => write a (dmerge (p_heap ps a) (p_heap ps other)) ps
  | None => ps
  end.

(* the translated body of pyConfig.Merge; other = the address of the frozen overlay *)
Fixpoint exec_prog (p other : nat) (prog : list mstmt) (ps : pstate) : pstate * bool :=
  match prog with
  | [] => (ps, false)
  | MAllocFresh :: r => exec_prog p other r (alloc p [] ps)
  | MAdopt :: r => exec_prog p other r (set_cfg p (Some other) ps)
  | MReturn :: _ => (ps, true)
  | MCopyAll :: r => exec_prog p other r (copy_all p other ps)
  end.

Definition merge (p other : nat) (ps : pstate) : pstate :=
  let '(ps1, returned) :=
    match p_cfg ps p with
    | None => exec_prog p other merge_nil_branch ps
    | Some _ => (ps, false)
    end in
  if returned then ps1 else fst (exec_prog p other merge_rest ps1).

(* func (c *pyConfig) IndexAssign(index, value pyObject) *)
Definition index_assign (p : nat) (k : str) (v : cval) (ps : pstate) : pstate :=
  match p_cfg ps p with
  | None => alloc p [(k, v)] ps
  | Some a => write a (dset (p_heap ps a) k v) ps
  end.

(* func (c *pyConfig) Get: the base config holds None for both keys *)
Definition cget (ps : pstate) (p : nat) (k : str) : option cval :=
  match p_cfg ps p with
  | Some a => dget (p_heap ps a) k
  | None => None
  end.

Definition key_vis : str := s default_visibility_key.
Definition key_testonly : str := s default_testonly_key.

(* a build rule call / the statements of a BUILD file that matter here *)
Record tdecl := mkDecl {
  d_name : str; d_vis : option (list str); d_testonly : option bool; d_test : bool; d_deps : list label }.
Inductive stmt :=
| SSubinclude (i : nat)                                       (* subinclude("//defs:d<i>") *)
| SPackage (dv : option (list str)) (dt : option bool)        (* package(default_visibility=, default_testonly=) *)
| STarget (d : tdecl).

(* the subincluded files: Some d = the file touched CONFIG, its frozen overlay is d; None = it did
   not (Subinclude deletes CONFIG from the result).  The frozen overlay of file i lives at address i. *)
Definition defs := list (option dict).
Definition frozen (ds : defs) (i : nat) : option dict :=
  match nth_error ds i with Some (Some d) => Some d | _ => None end.

Definition init (ds : defs) : pstate :=
  mkP (fun i => match frozen ds i with Some d => d | None => [] end) (length ds) (fun _ => None).

(* what a statement hands to the graph: nothing, a target, or a parse failure *)
Inductive emitted := ENone | ETarget (t : target) | EError.

Definition mk_target (bazel : bool) (pname : str) (d : tdecl) (dv : option cval) (dt : option cval) : emitted :=
  let vis := match d_vis d with
             | Some v => v
             | None => match dv with Some (CVis v) => v | _ => [] end
             end in
  (* createTarget: target.TestOnly = test || isTruthy(test_only) *)
  let tonly := d_test d ||
               match d_testonly d with
               | Some b => b
               | None => match dt with Some (CBool b) => b | _ => false end
               end in
  match target_visibility bazel vis with
  | Some ls => ETarget (mkTarget (mkLabel [] pname (d_name d)) ls (d_test d) tonly (d_deps d))
  | None => EError
  end.

Definition step (bazel : bool) (ds : defs) (pname : nat -> str) (p : nat) (x : stmt) (ps : pstate)
  : pstate * emitted :=
  match x with
  | SSubinclude i =>
      (match frozen ds i with Some _ => merge p i ps | None => ps end, ENone)
  | SPackage dv dt =>
      let ps1 := match dv with Some v => index_assign p key_vis (CVis v) ps | None => ps end in
      let ps2 := match dt with Some b => index_assign p key_testonly (CBool b) ps1 | None => ps1 end in
      (ps2, ENone)
  | STarget d =>
      (ps, mk_target bazel (pname p) d (cget ps p key_vis) (cget ps p key_testonly))
  end.

(* any interleaving of the statements of the packages (each event: package index, statement) *)
Definition event := (nat * stmt)%type.
Fixpoint run_events (bazel : bool) (ds : defs) (pname : nat -> str) (evs : list event) (ps : pstate)
  : pstate * list (nat * emitted) :=
  match evs with
  | [] => (ps, [])
  | (p, x) :: r =>
      let '(ps1, o) := step bazel ds pname p x ps in
      let '(ps2, os) := run_events bazel ds pname r ps1 in
      (ps2, (p, o) :: os)
  end.

(* ---- a whole repository, parsed package after package ---- *)
Record erepo := mkRepo { r_defs : defs; r_pkgs : list (str * list stmt) }.

Fixpoint number {A} (n : nat) (xs : list A) : list (nat * A) :=
  match xs with [] => [] | x :: r => (n, x) :: number (S n) r end.

Definition sequential (pkgs : list (str * list stmt)) : list event :=
  flat_map (fun '(i, (_, xs)) => map (fun x => (i, x)) xs) (number 0 pkgs).

Definition pkg_name (pkgs : list (str * list stmt)) (i : nat) : str :=
  match nth_error pkgs i with Some (n, _) => n | None => [] end.

Fixpoint collect (os : list (nat * emitted)) : option graph :=
  match os with
  | [] => Some []
  | (_, ENone) :: r => collect r
  | (_, ETarget t) :: r => match collect r with Some g => Some (t :: g) | None => None end
  | (_, EError) :: _ => None
  end.

Definition parse_repo (r : erepo) : option graph :=
  collect (snd (run_events false (r_defs r) (pkg_name (r_pkgs r)) (sequential (r_pkgs r)) (init (r_defs r)))).

(* ---- end-to-end cases: `plz build <label>` invocations on edited repositories sharing plz-out ---- *)
Inductive obs := OOk | OFail | OParseError.
Definition obs_eqb (a b : obs) : bool :=
  match a, b with OOk, OOk | OFail, OFail | OParseError, OParseError => true | _, _ => false end.

Fixpoint memb (l : label) (s : store) : bool :=
  match s with [] => false | x :: r => label_eqb x l || memb l r end.

(* the most forgetful build directory: whatever was built once counts as unchanged from then on *)
Definition e2e_env : env :=
  mkEnv (fun _ => false) (fun _ => false) (fun sto t => memb (t_label t) sto) (fun _ => false).

Fixpoint run_e2e (steps : list (erepo * list label)) (sto : store) : list obs :=
  match steps with
  | [] => []
  | (r, ts) :: rest =>
      match parse_repo r with
      | None => OParseError :: run_e2e rest sto
      | Some g =>
          let '(res, sto') := build_list e2e_env [] g build_target_local ts sto in
          (if is_ok res then OOk else OFail) :: run_e2e rest sto'
      end
  end.

Inductive case :=
| COld (c : C33.case)
| CE2E (steps : list (erepo * list label)) (observed : list obs).

Definition check (c : case) : bool :=
  match c with
  | COld c' => C33.check c'
  | CE2E steps observed => list_eqb obs_eqb (run_e2e steps []) observed
  end.
