(* C28 - remote action digests are canonical.
   Executable model of dirBuilder (src/remote/utils.go: newDirBuilder, Dir/dir, hasChild, Build, walk),
   of the three append sites of uploadInputDir (src/remote/action.go) and of Client.buildEnv.
   No proofs here.

   Abstractions (stated, and probed by the harness):
   - a directory path is the list of its segments (root = []); the callers pass filepath.Join/Dir
     results, i.e. clean relative paths, for which dir()'s TrimSuffix/Split arithmetic is exactly
     "parent = all segments but the last".  b.dirs["."] and b.dirs[""] are the same pointer: key [].
   - b.dirs is a finite map used only through lookups: a function path -> option dirmsg.
   - a digest is an opaque byte string; the hash of a Directory message is the parameter H.
   - sort.Slice is not stable: the sorter is a parameter (any function returning a sorted permutation);
     the executable instance is the stable insertion sort Go uses for slices of <= 12 elements. *)
From PlzV Require Import Base.Harness.

Record fnode := FN { fname : str; fdig : str; fexec : bool }.
Record dnode := DN { dname : str; ddig : option str }.      (* Digest == nil  <->  None *)
Record snode := SN { sname : str; starget : str }.
Record dirmsg := DM { files : list fnode; dirs : list dnode; syms : list snode }.
Definition empty_dir : dirmsg := DM [] [] [].

Definition path := list str.
Definition path_eqb : path -> path -> bool := list_eqb str_eqb.

(* b.dirs *)
Definition state := path -> option dirmsg.

(* newDirBuilder: root registered (as "." and ""), nothing else *)
Definition init : state := fun q => match q with [] => Some empty_dir | _ => None end.

Definition set (k : path) (d : dirmsg) (st : state) : state :=
  fun q => if path_eqb q k then Some d else st q.
Definition upd (k : path) (f : dirmsg -> dirmsg) (st : state) : state :=
  fun q => if path_eqb q k then option_map f (st q) else st q.

(* hasChild: linear scan of dir.Directories by name - opaque (digest known) and interior nodes alike *)
Definition has_child (d : dirmsg) (c : str) : bool :=
  existsb (fun n => str_eqb (dname n) c) (dirs d).

(* if child != "" && !hasChild(d, child) { d.Directories = append(d.Directories, &pb.DirectoryNode{Name: child}) } *)
Definition link (c : str) (d : dirmsg) : dirmsg :=
  if has_child d c then d else DM (files d) (dirs d ++ [DN c None]) (syms d).
Definition add_child (k : path) (c : option str) (st : state) : state :=
  match c with None => st | Some c => upd k (link c) st end.

(* func (b *dirBuilder) dir(dir, child string): rp is the REVERSED path (head = base name).
     d, present := b.dirs[dir]
     if !present { d = &pb.Directory{}; b.dirs[dir] = d; dir, base := filepath.Split(dir); b.dir(dir, base) }
     if child != "" && !hasChild(d, child) { append }                                            *)
Fixpoint dir_rev (rp : list str) (child : option str) (st : state) : state :=
  match rp with
  | [] => add_child [] child st
  | base :: parent =>
      let key := rev rp in
      let st1 := match st key with
                 | Some _ => st
                 | None => dir_rev parent (Some base) (set key empty_dir st)
                 end in
      add_child key child st1
  end.

(* b.Dir(name) *)
Definition ensure (p : path) (st : state) : state := dir_rev (rev p) None st.

(* what uploadInputDir / uploadInput do with the builder: d := b.Dir(dir); d.X = append(d.X, node) *)
Inductive op :=
| AddFile (p : path) (n : fnode)
| AddDir (p : path) (name dg : str)      (* output directory of a dependency: digest already known *)
| AddSym (p : path) (n : snode).

Definition op_path (o : op) : path :=
  match o with AddFile p _ => p | AddDir p _ _ => p | AddSym p _ => p end.

Definition apply (st : state) (o : op) : state :=
  match o with
  | AddFile p n => upd p (fun d => DM (files d ++ [n]) (dirs d) (syms d)) (ensure p st)
  | AddDir p x dg => upd p (fun d => DM (files d) (dirs d ++ [DN x (Some dg)]) (syms d)) (ensure p st)
  | AddSym p n => upd p (fun d => DM (files d) (dirs d) (syms d ++ [n])) (ensure p st)
  end.

Definition run (ops : list op) : state := fold_left apply ops init.

(* ---- sorting: sort.Slice(xs, func(i, j) bool { return xs[i].Name < xs[j].Name }) ---- *)
Definition sorter := forall A : Type, (A -> str) -> list A -> list A.

Fixpoint insert {A} (key : A -> str) (x : A) (l : list A) : list A :=
  match l with
  | [] => [x]
  | y :: r => if str_ltb (key y) (key x) then y :: insert key x r else x :: y :: r
  end.
Fixpoint isort_go {A} (key : A -> str) (l : list A) : list A :=
  match l with [] => [] | x :: r => insert key x (isort_go key r) end.
Definition isort : sorter := fun A key l => isort_go key l.

(* the three duplicate-removal loops of walk; `last` is ONE variable, threaded through all three *)
Fixpoint dedup {A} (name : A -> str) (last : str) (l : list A) : list A * str :=
  match l with
  | [] => ([], last)
  | x :: r => if str_eqb (name x) last then dedup name last r
              else let (r', last') := dedup name (name x) r in (x :: r', last')
  end.

Section Walk.
  Variable H : dirmsg -> str.        (* digest of the marshalled Directory proto *)
  Variable srt : sorter.

  (* sort + dedup part of walk, on a directory whose DirectoryNodes all carry digests *)
  Definition finish (d : dirmsg) : dirmsg :=
    let fs := srt _ fname (files d) in
    let ds := srt _ dname (dirs d) in
    let ss := srt _ sname (syms d) in
    let (fs', last1) := dedup fname [] fs in
    let (ds', last2) := dedup dname last1 ds in
    let (ss', _) := dedup sname last2 ss in
    DM fs' ds' ss'.

  (* for _, d := range dir.Directories { if d.Digest == nil { d.Digest = b.walk(filepath.Join(name, d.Name), ch) } }
     rec is the recursive call; result: the messages sent to ch, and the nodes with digests filled in *)
  Fixpoint fill (rec : path -> option (list dirmsg * dirmsg)) (p : path) (l : list dnode)
    : option (list dirmsg * list dnode) :=
    match l with
    | [] => Some ([], [])
    | n :: r =>
        match ddig n with
        | Some _ => match fill rec p r with
                    | Some (em, r') => Some (em, n :: r')
                    | None => None
                    end
        | None => match rec (p ++ [dname n]) with
                  | None => None
                  | Some (em1, m) =>
                      match fill rec p r with
                      | Some (em2, r') => Some (em1 ++ em2, DN (dname n) (Some (H m)) :: r')
                      | None => None
                      end
                  end
        end
    end.

  (* walk: None = out of fuel, or b.dirs[name] missing (a nil dereference in Go).
     Result: messages sent to ch in order (post-order), and this directory's message. *)
  Fixpoint walk (fuel : nat) (st : state) (p : path) : option (list dirmsg * dirmsg) :=
    match fuel with
    | O => None
    | S f =>
        match st p with
        | None => None
        | Some d =>
            match fill (walk f st) p (dirs d) with
            | None => None
            | Some (em, ds) =>
                let m := finish (DM (files d) ds (syms d)) in
                Some (em ++ [m], m)
            end
        end
    end.

  Definition fuel_of (ops : list op) : nat :=
    S (fold_right (fun o m => Nat.max (length (op_path o)) m) 0%nat ops).

  (* Build after the given insertions: (entries sent to ch, root message) *)
  Definition build (ops : list op) : option (list dirmsg * dirmsg) :=
    walk (fuel_of ops) (run ops) [].

  (* what is sent to the server as InputRootDigest *)
  Definition root_digest (ops : list op) : option str :=
    match build ops with Some (_, m) => Some (H m) | None => None end.
End Walk.

(* ---- Client.buildEnv ---- *)
Definition env := list (str * str).     (* a Go map: keys distinct, enumeration order arbitrary *)

Fixpoint set_env (k v : str) (e : env) : env :=
  match e with
  | [] => [(k, v)]
  | (k', v') :: r => if str_eqb k k' then (k, v) :: r else (k', v') :: set_env k v r
  end.

(* strings.Split(v, ":") *)
Fixpoint split_colon_go (cur : str) (v : str) : list str :=
  match v with
  | [] => [rev cur]
  | c :: r => if N.eqb c 58 then rev cur :: split_colon_go [] r else split_colon_go (c :: cur) r
  end.
Definition split_colon (v : str) : list str := split_colon_go [] v.

Fixpoint join_colon (l : list str) : str :=
  match l with
  | [] => []
  | [x] => x
  | x :: r => x ++ [58%N] ++ join_colon r
  end.

Fixpoint has_prefix (pre x : str) : bool :=
  match pre, x with
  | [], _ => true
  | a :: pre', b :: x' => N.eqb a b && has_prefix pre' x'
  | _ :: _, [] => false
  end.

Definition filter_path (loc home v : str) : str :=
  join_colon (filter (fun part => negb (str_eqb part loc) && negb (has_prefix home part)) (split_colon v)).

(* the body of `for name, v := range env` *)
Definition env_entry (loc home : str) (kv : str * str) : str * str :=
  if str_eqb (fst kv) (s "PATH") then (fst kv, filter_path loc home (snd kv)) else kv.

(* the loop over the map (in the enumeration order of the list) and slices.SortFunc by name *)
Definition env_vars (srt : sorter) (loc home : str) (e : env) : env :=
  srt _ fst (map (env_entry loc home) e).

Definition build_env (srt : sorter) (loc home : str) (have_target is_binary sandbox : bool) (e : env) : env :=
  let e1 := if sandbox then set_env (s "SANDBOX") (s "true") e else e in
  let e2 := if have_target && is_binary then set_env (s "_BINARY") (s "true") e1 else e1 in
  env_vars srt loc home e2.

(* ---- the Command and the Action (src/remote/action.go buildCommand / buildAction, utils.go
   targetPlatformProperties / convertPlatform; src/core/build_target.go insert / Outputs / AllOutputs /
   GetTmpOutput / PrefixedLabels) ----
   Abstractions: non-filegroup, non-remote-file build action of a target in a non-root package (so
   GetTmpOutput only has its `== PackageName` branch); the command text after core.ReplaceSequences,
   shellescape.Quote and the map core.StampedBuildEnvironment returns (a function of the input root, through
   RULE_HASH) are inputs; AddOutput("") panics and is not modelled. *)

(* func (target *BuildTarget) insert(sl []string, s string) []string, after s = strings.TrimPrefix(s, "./") *)
Fixpoint out_insert (sl : list str) (x : str) : list str :=
  match sl with
  | [] => [x]
  | y :: r => if str_eqb x y then sl else if str_ltb x y then x :: sl else y :: out_insert r x
  end.
Definition trim_dot_slash (x : str) : str :=
  match x with a :: b :: r => if N.eqb a 46 && N.eqb b 47 then r else x | _ => x end.
Definition add_output (sl : list str) (x : str) : list str := out_insert sl (trim_dot_slash x).
(* target.outputs after the AddOutput calls, in call order *)
Definition declared_outputs (calls : list str) : list str := fold_left add_output calls [].

(* target.namedOutputs: a Go map name -> slice kept by insert; here in first-insertion order *)
Fixpoint named_add (m : list (str * list str)) (name out : str) : list (str * list str) :=
  match m with
  | [] => [(name, add_output [] out)]
  | (k, l) :: r => if str_eqb k name then (k, add_output l out) :: r else (k, l) :: named_add r name out
  end.
Definition named_outputs (calls : list (str * str)) : list (str * list str) :=
  fold_left (fun m c => named_add m (fst c) (snd c)) calls [].

(* Outputs(): copy of target.outputs, then `for _, outputs := range target.namedOutputs { append }` in the
   map's enumeration order, then sort.Strings *)
Definition outputs_of (srt : sorter) (outs : list str) (named : list (str * list str)) : list str :=
  srt _ (fun x => x) (outs ++ concat (map snd named)).

Definition trim_suffix (suf x : str) : str :=
  if has_prefix (rev suf) (rev x) then firstn (length x - length suf) x else x.

(* GetTmpOutput (non-root package, not a filegroup) and OutputDirectory.Dir *)
Definition get_tmp (pkg o : str) : str := if str_eqb o pkg then o ++ s ".out" else o.
Definition od_dir (o : str) : str := trim_suffix (s "/**") o.

(* AllOutputs(): the (sorted) outputs through GetTmpOutput, then the output directories as declared *)
Definition all_outputs (pkg : str) (outs : list str) (outdirs : list str) : list str :=
  map (get_tmp pkg) outs ++ map od_dir outdirs.

(* PrefixedLabels("remote-platform-property:") *)
Definition plat_prefix : str := s "remote-platform-property:".
Definition prefixed_labels (labels : list str) : list str :=
  flat_map (fun l => if has_prefix plat_prefix l then [skipn (length plat_prefix) l] else []) labels.

(* strings.SplitN(p, "=", 2) with len(parts) == 2 *)
Fixpoint split_eq_go (cur : str) (v : str) : option (str * str) :=
  match v with
  | [] => None
  | c :: r => if N.eqb c 61 then Some (rev cur, r) else split_eq_go (c :: cur) r
  end.
Definition convert_platform (ps : list str) : list (str * str) :=
  flat_map (fun p => match split_eq_go [] p with Some kv => [kv] | None => [] end) ps.

(* targetPlatformProperties: label properties in declaration order, then the configured ones; no sort *)
Definition target_platform (labels cfgplat : list str) : list (str * str) :=
  match prefixed_labels labels with
  | [] => convert_platform cfgplat
  | ls => convert_platform ls ++ convert_platform cfgplat
  end.

(* process.BashCommand *)
Definition bash_command (shell command : str) (exit_on_error : bool) : list str :=
  if exit_on_error then [shell; s "--noprofile"; s "--norc"; s "-e"; s "-u"; s "-o"; s "pipefail"; s "-c"; command]
  else [shell; s "--noprofile"; s "--norc"; s "-u"; s "-o"; s "pipefail"; s "-c"; command].

(* the prefix buildCommand puts in front of the command: keys of target.Env sorted, then exported *)
Definition cmd_prefix (srt : sorter) (quote : str -> str) (tenv : env) (single_out : bool) : str :=
  s "export TMP_DIR=""`pwd`"" && export HOME=$TMP_DIR && "
  ++ flat_map (fun kv => s "export " ++ fst kv ++ s "=" ++ quote (snd kv) ++ s " && ") (srt _ fst tenv)
  ++ (if single_out then s "export OUT=""$TMP_DIR/$OUT"" && " else []).

Record cmdmsg := CM { c_args : list str; c_env : env; c_outs : list str; c_plat : list (str * str) }.
Record actmsg := AM { a_cmd : str; a_root : str; a_timeout : N; a_plat : list (str * str) }.

(* everything buildAction reads from the target ... *)
Record decl := DC {
  d_ops : list op;                   (* the insertions uploadInputDir makes, in the order it makes them *)
  d_outs : list str;                 (* AddOutput calls, in call order *)
  d_named : list (str * list str);   (* target.namedOutputs, in the map's enumeration order *)
  d_outdirs : list str;              (* target.OutputDirectories, in declaration order *)
  d_labels : list str;               (* target.Labels, in declaration order *)
  d_tenv : env;                      (* target.Env, in the map's enumeration order *)
  d_env : dirmsg -> env;             (* stampedBuildEnvironment(inputRoot): a map, in enumeration order *)
  d_pkg : str; d_cmd : str; d_binary : bool; d_sandbox : bool; d_timeout : N }.
(* ... and from the client / configuration *)
Record conf := CF { f_shell : str; f_eoe : bool; f_plat : list str; f_loc : str; f_home : str }.

Section Action.
  Variable H : dirmsg -> str.        (* digest of a Directory *)
  Variable HC : cmdmsg -> str.       (* digest of a Command *)
  Variable HA : actmsg -> str.       (* digest of an Action *)
  Variable srt : sorter.
  Variable quote : str -> str.       (* shellescape.Quote *)
  Variable c : conf.

  Definition command_of (d : decl) (root : dirmsg) : cmdmsg :=
    let outs := outputs_of srt (declared_outputs (d_outs d)) (d_named d) in
    let text := match d_cmd d with [] => s "true" | t => t end in
    CM (bash_command (f_shell c) (cmd_prefix srt quote (d_tenv d) (Nat.eqb (length outs) 1) ++ text) (f_eoe c))
       (build_env srt (f_loc c) (f_home c) true (d_binary d) (d_sandbox d) (d_env d root))
       (all_outputs (d_pkg d) outs (d_outdirs d))
       (target_platform (d_labels d) (f_plat c)).

  (* buildAction: &pb.Action{CommandDigest, InputRootDigest, Timeout, Platform} *)
  Definition action_of (d : decl) : option actmsg :=
    match build H srt (d_ops d) with
    | None => None
    | Some (_, root) => Some (AM (HC (command_of d root)) (H root) (d_timeout d) (target_platform (d_labels d) (f_plat c)))
    end.
  Definition action_digest (d : decl) : option str := option_map HA (action_of d).
End Action.

(* ---- Client.digestMessage under concurrency (follow-up round 2) ----
   One Client serves every build worker; buildAction calls digestMessage three times (input root, Command,
   Action{CommandDigest, InputRootDigest, ...}).  digestMessage is TWO steps - serialise the message into a
   byte buffer, hash the buffer - and another goroutine may run between them.  Where the buffer lives is what
   matters: a slice freshly allocated by the calling goroutine (BLocal), or a field of the shared Client
   (BShared).  The program of digestMessage is regenerated from the source by gotrans (Gen.DirWalk
   digest_message_prog); the machine below interprets ANY such program under ANY schedule.
   Abstractions: a buffer holds the message it was serialised from (proto.Marshal is a function of the
   message; checked by the oracle against an independent deterministic marshaller); an unwritten buffer hashes
   to a fixed token; slice-header tearing is not modelled (a data race on BShared is already a digest of the
   wrong message here). *)
Inductive amsg := MDir (m : dirmsg) | MCmd (m : cmdmsg) | MAct (m : actmsg).
Inductive bufclass := BLocal | BShared.
Inductive dstep := DMarshal (b : bufclass) | DHash (b : bufclass).

(* what a goroutine does: given the digests it has obtained so far, the next message to digest (None: done) *)
Definition job := list str -> option amsg.

Record thread := TH {
  t_job : job;
  t_done : list str;            (* digests returned by the completed digestMessage calls, oldest first *)
  t_pc : list dstep;            (* rest of the current digestMessage call; [] = between calls *)
  t_cur : option amsg;          (* the argument of the current call *)
  t_loc : option amsg;          (* the goroutine's own buffer *)
  t_res : str }.                (* value of the last hash step *)

(* buildAction (after uploadInputs and buildCommand, which touch no shared buffer) *)
Definition action_job (root : dirmsg) (cmd : cmdmsg) (timeout : N) (plat : list (str * str)) : job :=
  fun done => match done with
              | [] => Some (MDir root)
              | [_] => Some (MCmd cmd)
              | [r; c] => Some (MAct (AM c r timeout plat))
              | _ => None
              end.

Definition spawn (j : job) : thread := TH j [] [] None None [].

Section Conc.
  Variable HM : amsg -> str.         (* SHA-256 of the serialised message *)
  Variable prog : list dstep.        (* the body of digestMessage *)

  Definition hash_buf (b : option amsg) : str := match b with Some m => HM m | None => s "?empty-buffer" end.

  (* after a step: the call returns when no step is left *)
  Definition advance (t : thread) (pc : list dstep) (loc : option amsg) (res : str) : thread :=
    match pc with
    | [] => TH (t_job t) (t_done t ++ [res]) [] None loc res
    | _ => TH (t_job t) (t_done t) pc (t_cur t) loc res
    end.

  (* one atomic step of one goroutine; sh is the buffer on the Client *)
  Definition tstep (sh : option amsg) (t : thread) : option amsg * thread :=
    match t_pc t with
    | [] => match t_job t (t_done t) with
            | None => (sh, t)                                                       (* finished *)
            | Some m => (sh, TH (t_job t) (t_done t) prog (Some m) (t_loc t) (t_res t))   (* call digestMessage(m) *)
            end
    | DMarshal BLocal :: r => (sh, advance t r (t_cur t) (t_res t))
    | DMarshal BShared :: r => (t_cur t, advance t r (t_loc t) (t_res t))
    | DHash BLocal :: r => (sh, advance t r (t_loc t) (hash_buf (t_loc t)))
    | DHash BShared :: r => (sh, advance t r (t_loc t) (hash_buf sh))
    end.

  Fixpoint step_nth (i : nat) (sh : option amsg) (ts : list thread) : option amsg * list thread :=
    match ts with
    | [] => (sh, [])
    | t :: r => match i with
                | O => let (sh', t') := tstep sh t in (sh', t' :: r)
                | S j => let (sh', r') := step_nth j sh r in (sh', t :: r')
                end
    end.

  Definition gstate := (option amsg * list thread)%type.
  Definition gstep (g : gstate) (i : nat) : gstate := step_nth i (fst g) (snd g).
  (* a schedule: which goroutine moves next; ANY list of indices *)
  Definition run_sched (sched : list nat) (g : gstate) : gstate := fold_left gstep sched g.
  Definition conc_run (jobs : list job) (sched : list nat) : gstate := run_sched sched (None, map spawn jobs).

  (* the same goroutine with the Client to itself *)
  Fixpoint alone (n : nat) (t : thread) : thread :=
    match n with O => t | S k => alone k (snd (tstep None t)) end.
End Conc.

Definition all_local (prog : list dstep) : bool :=
  forallb (fun st => match st with DMarshal BLocal | DHash BLocal => true | _ => false end) prog.

Definition hm (H : dirmsg -> str) (HC : cmdmsg -> str) (HA : actmsg -> str) (m : amsg) : str :=
  match m with MDir d => H d | MCmd c => HC c | MAct a => HA a end.

(* ---- PathHasher.Hash's memo (src/fs/hash.go) and the source files of an input root (follow-up round 2) ----
   uploadInput: for every file of a source, os.Lstat, then c.state.PathHasher.Hash(name, false, true, false);
   an error aborts uploadInputs / buildAction.  Hash is memoised by path for the life of the process.  The
   statement after `result, err := hasher.hash(...)` is regenerated by gotrans (Gen.DirWalk hash_memo_store):
   `guarded` says whether the store into the memo stands under `if err == nil`.  hasher.hash returns, WITH the
   error, the sum of whatever was written so far (for a file that cannot be opened: the hash of nothing).
   Abstractions: a digest token stands for (hex hash, size); recalc/store/timestamp are fixed as uploadInput
   passes them; the wait map (two goroutines hashing one path at once) is not modelled; nil memo entries (CopyHash) are
   representable and behave like absent ones here. *)
Inductive fstate :=
| FMissing
| FBad (partial : str)               (* lstat works, reading fails; partial = the sum hasher.hash returns with the error *)
| FGood (dg : str) (exec : bool).
Definition fsys := path -> fstate.
Definition memo := path -> option (option str).
Definition fs_empty : fsys := fun _ => FMissing.
Definition memo_empty : memo := fun _ => None.
Definition fs_set (p : path) (st : fstate) (fs : fsys) : fsys := fun q => if path_eqb q p then st else fs q.
Definition memo_set (p : path) (v : option str) (mm : memo) : memo := fun q => if path_eqb q p then Some v else mm q.

Inductive hres := HOk (h : str) | HErr.
Record src := SRC { s_dir : path; s_name : str }.     (* where the file goes in the input root = where it is on disk *)
Definition src_path (x : src) : path := s_dir x ++ [s_name x].

(* the life of one process: the file system changes, actions are prepared *)
Inductive pstep := PSet (p : path) (st : fstate) | PPrep (srcs : list src).

Section Memo.
  Variable guarded : bool.

  (* PathHasher.Hash(path, recalc=false, ...) *)
  Definition hash_path (fs : fsys) (mm : memo) (p : path) : memo * hres :=
    match mm p with
    | Some (Some h) => (mm, HOk h)                                   (* present && cached != nil *)
    | _ =>
        match fs p with
        | FMissing => (mm, HErr)                                     (* !PathExists(path) *)
        | FBad partial => (if guarded then mm else memo_set p (Some partial) mm, HErr)
        | FGood dg _ => (memo_set p (Some dg) mm, HOk dg)
        end
    end.

  (* the file sources of one uploadInputs call, in the order they are walked: the insertions, or the error *)
  Fixpoint prepare (fs : fsys) (mm : memo) (srcs : list src) : memo * option (list op) :=
    match srcs with
    | [] => (mm, Some [])
    | x :: r =>
        match fs (src_path x) with
        | FMissing => (mm, None)                                     (* os.Lstat fails *)
        | st =>
            match hash_path fs mm (src_path x) with
            | (mm1, HErr) => (mm1, None)
            | (mm1, HOk h) =>
                let ex := match st with FGood _ e => e | _ => false end in
                let (mm2, rest) := prepare fs mm1 r in
                (mm2, option_map (cons (AddFile (s_dir x) (FN (s_name x) h ex))) rest)
            end
        end
    end.

  Fixpoint run_hist (fs : fsys) (mm : memo) (h : list pstep) : list (option (list op)) :=
    match h with
    | [] => []
    | PSet p st :: r => run_hist (fs_set p st fs) mm r
    | PPrep srcs :: r => let (mm', o) := prepare fs mm srcs in o :: run_hist fs mm' r
    end.

  (* what a fresh process (empty memo) computes for each preparation *)
  Fixpoint fresh_hist (fs : fsys) (h : list pstep) : list (option (list op)) :=
    match h with
    | [] => []
    | PSet p st :: r => fresh_hist (fs_set p st fs) r
    | PPrep srcs :: r => snd (prepare fs memo_empty srcs) :: fresh_hist fs r
    end.
End Memo.

(* ---- correspondence cases ---- *)
Definition fnode_eqb (a b : fnode) := str_eqb (fname a) (fname b) && str_eqb (fdig a) (fdig b) && Bool.eqb (fexec a) (fexec b).
Definition dnode_eqb (a b : dnode) := str_eqb (dname a) (dname b) && option_eqb str_eqb (ddig a) (ddig b).
Definition snode_eqb (a b : snode) := str_eqb (sname a) (sname b) && str_eqb (starget a) (starget b).
Definition dirmsg_eqb (a b : dirmsg) :=
  list_eqb fnode_eqb (files a) (files b) && list_eqb dnode_eqb (dirs a) (dirs b) && list_eqb snode_eqb (syms a) (syms b).

(* the hash function as the implementation exhibited it: digest of every Directory it marshalled *)
Fixpoint table_H (t : list (dirmsg * str)) (m : dirmsg) : str :=
  match t with
  | [] => s "?unhashed"
  | (m', h) :: r => if dirmsg_eqb m m' then h else table_H r m
  end.

Record cthread := CT { ct_root : dirmsg; ct_rootdg : str; ct_cmd : cmdmsg; ct_cmddg : str;
                       ct_timeout : N; ct_plat : list (str * str); ct_actdg : str }.

Inductive case :=
| CBuild (ops : list op) (sent : list (dirmsg * str)) (root : dirmsg)   (* sent: every message put on ch, in order, with its digest *)
| CEnv (loc home : str) (have_target is_binary sandbox : bool) (e : env) (out : env)
(* the real Client.uploadInputs on real BuildTargets: the declared input set (any order), every Directory
   message found below the root with its digest, and the root *)
| CRoot (ops : list op) (sent : list (dirmsg * str)) (root : dirmsg)
(* the real Client.buildCommand: AddOutput calls, named-output map, output directories, labels, configured
   platform, target.Env with the quoted values, package, command, shell, exit-on-error;
   observed Arguments, OutputPaths, Platform *)
| CCmd (outs : list str) (named : list (str * str)) (outdirs labels cfgplat : list str) (tenv : list (str * (str * str)))
       (pkg cmd shell : str) (eoe : bool) (args outpaths : list str) (plat : list (str * str))
(* N goroutines calling the real Client.buildAction on ONE client at the same time: per goroutine the input root
   and the Command (as the real code built them when run alone) with their reference digests and the reference
   digest of the Action - all three computed by the harness with its own marshaller and SHA-256 -, a schedule, and
   per goroutine every distinct action digest the concurrent calls returned *)
| CConc (ths : list cthread) (sched : list nat) (obs : list (list str))
(* one process, one PathHasher: file-system changes (a source unreadable, then repaired) interleaved with real
   uploadInputs calls on one target; fixed = the target's other inputs; observed: the root of each call (None = error) *)
| CPrep (fixed : list op) (h : list pstep) (sent : list (dirmsg * str)) (obs : list (option dirmsg)).

Definition kv_eqb (a b : str * str) := str_eqb (fst a) (fst b) && str_eqb (snd a) (snd b).

Definition cmdmsg_eqb (a b : cmdmsg) :=
  list_eqb str_eqb (c_args a) (c_args b) && list_eqb kv_eqb (c_env a) (c_env b)
  && list_eqb str_eqb (c_outs a) (c_outs b) && list_eqb kv_eqb (c_plat a) (c_plat b).
Definition actmsg_eqb (a b : actmsg) :=
  str_eqb (a_cmd a) (a_cmd b) && str_eqb (a_root a) (a_root b) && N.eqb (a_timeout a) (a_timeout b)
  && list_eqb kv_eqb (a_plat a) (a_plat b).

(* the reference digests as a hash function of messages *)
Fixpoint table_HM (ths : list cthread) (m : amsg) : str :=
  match ths with
  | [] => s "?unhashed"
  | t :: r =>
      match m with
      | MDir d => if dirmsg_eqb d (ct_root t) then ct_rootdg t else table_HM r m
      | MCmd c => if cmdmsg_eqb c (ct_cmd t) then ct_cmddg t else table_HM r m
      | MAct a => if actmsg_eqb a (AM (ct_cmddg t) (ct_rootdg t) (ct_timeout t) (ct_plat t)) then ct_actdg t else table_HM r m
      end
  end.

(* digestMessage as the unchanged source has it (Proof.C28_Gen ties this to the regenerated program) *)
Definition local_prog : list dstep := [DMarshal BLocal; DHash BLocal].

Definition option_dirmsg_eqb := option_eqb dirmsg_eqb.

Definition check (c : case) : bool :=
  match c with
  | CBuild ops sent root =>
      match build (table_H sent) isort ops with
      | Some (em, m) => list_eqb dirmsg_eqb em (map fst sent) && dirmsg_eqb m root
      | None => false
      end
  | CEnv loc home ht ib sb e out => list_eqb kv_eqb (build_env isort loc home ht ib sb e) out
  | CRoot ops sent root =>
      match build (table_H sent) isort ops with
      | Some (_, m) => dirmsg_eqb m root
      | None => false
      end
  | CCmd outs named outdirs labels cfgplat tenv pkg cmd shell eoe args outpaths plat =>
      let quote := fun v => match find (fun e => str_eqb (fst (snd e)) v) tenv with Some e => snd (snd e) | None => v end in
      let d := DC [] outs (named_outputs named) outdirs labels (map (fun e => (fst e, fst (snd e))) tenv) (fun _ => [])
                  pkg cmd false false 0 in
      let m := command_of isort quote (CF shell eoe cfgplat [] []) d empty_dir in
      list_eqb str_eqb (c_args m) args && list_eqb str_eqb (c_outs m) outpaths && list_eqb kv_eqb (c_plat m) plat
  | CConc ths sched obs =>
      let jobs := map (fun t => action_job (ct_root t) (ct_cmd t) (ct_timeout t) (ct_plat t)) ths in
      let final := snd (conc_run (table_HM ths) local_prog jobs sched) in
      Nat.eqb (length final) (length obs) && Nat.eqb (length ths) (length obs)
      && forallb (fun to => match t_done (fst to) with
                            | [_; _; a] => negb (str_eqb a (s "?unhashed")) && forallb (str_eqb a) (snd to)
                            | _ => false
                            end) (combine final obs)
      && forallb (fun to => str_eqb (ct_actdg (fst to)) (match t_done (snd to) with [_; _; a] => a | _ => [] end)) (combine ths final)
  | CPrep fixed h sent obs =>
      list_eqb option_dirmsg_eqb
        (map (fun o => match o with
                       | None => None
                       | Some ops => option_map snd (build (table_H sent) isort (ops ++ fixed))
                       end) (run_hist true fs_empty memo_empty h))
        obs
  end.
