(* C28 - remote action digests are canonical.
   Executable model of dirBuilder (src/remote/utils.go: newDirBuilder, Dir/dir, hasChild, Build, walk),
   of the three append sites of uploadInputDir (src/remote/action.go) and of Client.buildEnv.
   No proofs here.

   Abstractions (stated, and probed by the harness):
   - a directory path is the list of its segments (root = []); the callers pass filepath.Join/Dir
     results, i.e. clean relative paths, for which dir()'s TrimSuffix/Split arithmetic is exactly
     "parent = all segments but the last".  b.dirs["."] and b.dirs[""] are the same pointer: key [].
   - b.dirs is a finite map used only through lookups: a function path -> option dirmsg.
   - a digest is an opaque byte string; the hash of a Directory message is the parameter H.
   - sort.Slice is not stable: the sorter is a parameter (any function returning a sorted permutation);
     the executable instance is the stable insertion sort Go uses for slices of <= 12 elements. *)
From PlzV Require Import Base.Harness.

Record fnode := FN { fname : str; fdig : str; fexec : bool }.
Record dnode := DN { dname : str; ddig : option str }.      (* Digest == nil  <->  None *)
Record snode := SN { sname : str; starget : str }.
Record dirmsg := DM { files : list fnode; dirs : list dnode; syms : list snode }.
Definition empty_dir : dirmsg := DM [] [] [].

Definition path := list str.
Definition path_eqb : path -> path -> bool := list_eqb str_eqb.

(* b.dirs *)
Definition state := path -> option dirmsg.

(* newDirBuilder: root registered (as "." and ""), nothing else *)
Definition init : state := fun q => match q with [] => Some empty_dir | _ => None end.

Definition set (k : path) (d : dirmsg) (st : state) : state :=
  fun q => if path_eqb q k then Some d else st q.
Definition upd (k : path) (f : dirmsg -> dirmsg) (st : state) : state :=
  fun q => if path_eqb q k then option_map f (st q) else st q.

(* hasChild: linear scan of dir.Directories by name - opaque (digest known) and interior nodes alike *)
Definition has_child (d : dirmsg) (c : str) : bool :=
  existsb (fun n => str_eqb (dname n) c) (dirs d).

(* if child != "" && !hasChild(d, child) { d.Directories = append(d.Directories, &pb.DirectoryNode{Name: child}) } *)
Definition link (c : str) (d : dirmsg) : dirmsg :=
  if has_child d c then d else DM (files d) (dirs d ++ [DN c None]) (syms d).
Definition add_child (k : path) (c : option str) (st : state) : state :=
  match c with None => st | Some c => upd k (link c) st end.

(* func (b *dirBuilder) dir(dir, child string): rp is the REVERSED path (head = base name).
     d, present := b.dirs[dir]
     if !present { d = &pb.Directory{}; b.dirs[dir] = d; dir, base := filepath.Split(dir); b.dir(dir, base) }
     if child != "" && !hasChild(d, child) { append }                                            *)
Fixpoint dir_rev (rp : list str) (child : option str) (st : state) : state :=
  match rp with
  | [] => add_child [] child st
  | base :: parent =>
      let key := rev rp in
      let st1 := match st key with
                 | Some _ => st
                 | None => dir_rev parent (Some base) (set key empty_dir st)
                 end in
      add_child key child st1
  end.

(* b.Dir(name) *)
Definition ensure (p : path) (st : state) : state := dir_rev (rev p) None st.

(* what uploadInputDir / uploadInput do with the builder: d := b.Dir(dir); d.X = append(d.X, node) *)
Inductive op :=
| AddFile (p : path) (n : fnode)
| AddDir (p : path) (name dg : str)      (* output directory of a dependency: digest already known *)
| AddSym (p : path) (n : snode).

Definition op_path (o : op) : path :=
  match o with AddFile p _ => p | AddDir p _ _ => p | AddSym p _ => p end.

Definition apply (st : state) (o : op) : state :=
  match o with
  | AddFile p n => upd p (fun d => DM (files d ++ [n]) (dirs d) (syms d)) (ensure p st)
  | AddDir p x dg => upd p (fun d => DM (files d) (dirs d ++ [DN x (Some dg)]) (syms d)) (ensure p st)
  | AddSym p n => upd p (fun d => DM (files d) (dirs d) (syms d ++ [n])) (ensure p st)
  end.

Definition run (ops : list op) : state := fold_left apply ops init.

(* ---- sorting: sort.Slice(xs, func(i, j) bool { return xs[i].Name < xs[j].Name }) ---- *)
Definition sorter := forall A : Type, (A -> str) -> list A -> list A.

Fixpoint insert {A} (key : A -> str) (x : A) (l : list A) : list A :=
  match l with
  | [] => [x]
  | y :: r => if str_ltb (key y) (key x) then y :: insert key x r else x :: y :: r
  end.
Fixpoint isort_go {A} (key : A -> str) (l : list A) : list A :=
  match l with [] => [] | x :: r => insert key x (isort_go key r) end.
Definition isort : sorter := fun A key l => isort_go key l.

(* the three duplicate-removal loops of walk; `last` is ONE variable, threaded through all three *)
Fixpoint dedup {A} (name : A -> str) (last : str) (l : list A) : list A * str :=
  match l with
  | [] => ([], last)
  | x :: r => if str_eqb (name x) last then dedup name last r
              else let (r', last') := dedup name (name x) r in (x :: r', last')
  end.

Section Walk.
  Variable H : dirmsg -> str.        (* digest of the marshalled Directory proto *)
  Variable srt : sorter.

  (* sort + dedup part of walk, on a directory whose DirectoryNodes all carry digests *)
  Definition finish (d : dirmsg) : dirmsg :=
    let fs := srt _ fname (files d) in
    let ds := srt _ dname (dirs d) in
    let ss := srt _ sname (syms d) in
    let (fs', last1) := dedup fname [] fs in
    let (ds', last2) := dedup dname last1 ds in
    let (ss', _) := dedup sname last2 ss in
    DM fs' ds' ss'.

  (* for _, d := range dir.Directories { if d.Digest == nil { d.Digest = b.walk(filepath.Join(name, d.Name), ch) } }
     rec is the recursive call; result: the messages sent to ch, and the nodes with digests filled in *)
  Fixpoint fill (rec : path -> option (list dirmsg * dirmsg)) (p : path) (l : list dnode)
    : option (list dirmsg * list dnode) :=
    match l with
    | [] => Some ([], [])
    | n :: r =>
        match ddig n with
        | Some _ => match fill rec p r with
                    | Some (em, r') => Some (em, n :: r')
                    | None => None
                    end
        | None => match rec (p ++ [dname n]) with
                  | None => None
                  | Some (em1, m) =>
                      match fill rec p r with
                      | Some (em2, r') => Some (em1 ++ em2, DN (dname n) (Some (H m)) :: r')
                      | None => None
                      end
                  end
        end
    end.

  (* walk: None = out of fuel, or b.dirs[name] missing (a nil dereference in Go).
     Result: messages sent to ch in order (post-order), and this directory's message. *)
  Fixpoint walk (fuel : nat) (st : state) (p : path) : option (list dirmsg * dirmsg) :=
    match fuel with
    | O => None
    | S f =>
        match st p with
        | None => None
        | Some d =>
            match fill (walk f st) p (dirs d) with
            | None => None
            | Some (em, ds) =>
                let m := finish (DM (files d) ds (syms d)) in
                Some (em ++ [m], m)
            end
        end
    end.

  Definition fuel_of (ops : list op) : nat :=
    S (fold_right (fun o m => Nat.max (length (op_path o)) m) 0%nat ops).

  (* Build after the given insertions: (entries sent to ch, root message) *)
  Definition build (ops : list op) : option (list dirmsg * dirmsg) :=
    walk (fuel_of ops) (run ops) [].

  (* what is sent to the server as InputRootDigest *)
  Definition root_digest (ops : list op) : option str :=
    match build ops with Some (_, m) => Some (H m) | None => None end.
End Walk.

(* ---- Client.buildEnv ---- *)
Definition env := list (str * str).     (* a Go map: keys distinct, enumeration order arbitrary *)

Fixpoint set_env (k v : str) (e : env) : env :=
  match e with
  | [] => [(k, v)]
  | (k', v') :: r => if str_eqb k k' then (k, v) :: r else (k', v') :: set_env k v r
  end.

(* strings.Split(v, ":") *)
Fixpoint split_colon_go (cur : str) (v : str) : list str :=
  match v with
  | [] => [rev cur]
  | c :: r => if N.eqb c 58 then rev cur :: split_colon_go [] r else split_colon_go (c :: cur) r
  end.
Definition split_colon (v : str) : list str := split_colon_go [] v.

Fixpoint join_colon (l : list str) : str :=
  match l with
  | [] => []
  | [x] => x
  | x :: r => x ++ [58%N] ++ join_colon r
  end.

Fixpoint has_prefix (pre x : str) : bool :=
  match pre, x with
  | [], _ => true
  | a :: pre', b :: x' => N.eqb a b && has_prefix pre' x'
  | _ :: _, [] => false
  end.

Definition filter_path (loc home v : str) : str :=
  join_colon (filter (fun part => negb (str_eqb part loc) && negb (has_prefix home part)) (split_colon v)).

(* the body of `for name, v := range env` *)
Definition env_entry (loc home : str) (kv : str * str) : str * str :=
  if str_eqb (fst kv) (s "PATH") then (fst kv, filter_path loc home (snd kv)) else kv.

(* the loop over the map (in the enumeration order of the list) and slices.SortFunc by name *)
Definition env_vars (srt : sorter) (loc home : str) (e : env) : env :=
  srt _ fst (map (env_entry loc home) e).

Definition build_env (srt : sorter) (loc home : str) (have_target is_binary sandbox : bool) (e : env) : env :=
  let e1 := if sandbox then set_env (s "SANDBOX") (s "true") e else e in
  let e2 := if have_target && is_binary then set_env (s "_BINARY") (s "true") e1 else e1 in
  env_vars srt loc home e2.

(* ---- correspondence cases ---- *)
Definition fnode_eqb (a b : fnode) := str_eqb (fname a) (fname b) && str_eqb (fdig a) (fdig b) && Bool.eqb (fexec a) (fexec b).
Definition dnode_eqb (a b : dnode) := str_eqb (dname a) (dname b) && option_eqb str_eqb (ddig a) (ddig b).
Definition snode_eqb (a b : snode) := str_eqb (sname a) (sname b) && str_eqb (starget a) (starget b).
Definition dirmsg_eqb (a b : dirmsg) :=
  list_eqb fnode_eqb (files a) (files b) && list_eqb dnode_eqb (dirs a) (dirs b) && list_eqb snode_eqb (syms a) (syms b).

(* the hash function as the implementation exhibited it: digest of every Directory it marshalled *)
Fixpoint table_H (t : list (dirmsg * str)) (m : dirmsg) : str :=
  match t with
  | [] => s "?unhashed"
  | (m', h) :: r => if dirmsg_eqb m m' then h else table_H r m
  end.

Inductive case :=
| CBuild (ops : list op) (sent : list (dirmsg * str)) (root : dirmsg)   (* sent: every message put on ch, in order, with its digest *)
| CEnv (loc home : str) (have_target is_binary sandbox : bool) (e : env) (out : env).

Definition kv_eqb (a b : str * str) := str_eqb (fst a) (fst b) && str_eqb (snd a) (snd b).

Definition check (c : case) : bool :=
  match c with
  | CBuild ops sent root =>
      match build (table_H sent) isort ops with
      | Some (em, m) => list_eqb dirmsg_eqb em (map fst sent) && dirmsg_eqb m root
      | None => false
      end
  | CEnv loc home ht ib sb e out => list_eqb kv_eqb (build_env isort loc home ht ib sb e) out
  end.
