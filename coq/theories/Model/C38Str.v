(* C38 - string literals: how asp reads them and how `plz fmt` (buildtools print.go StringExpr, quote.go) re-quotes them.

   asp (lexer.go consumePossiblyTripleQuotedString / consumeString, non-raw, non-f): a byte-by-byte state machine; what
   is appended for the byte after a backslash is regenerated from the source (Gen.C38Fmt.asp_escape_rules).
   buildtools: Unquote (the value), IsCorrectEscaping, quote (the canonical double-quoted form), and the printer's choice
   between the original token and the canonical form.  \ooo, \xHH, \u, \U escapes are outside the model (bt_unquote
   answers None): the listed findings about them are explored by the harness only.  No proofs here. *)
From PlzV Require Import Base.Harness Gen.C38Fmt.
Local Open Scope list_scope.
Local Open Scope N_scope.

(* ---- asp ------------------------------------------------------------------------------------------- *)
Definition emit (next : N) (l : list (option N)) : list N :=
  map (fun x => match x with Some b => b | None => next end) l.

(* the if / else-if chain of the `if escaped` branch *)
Fixpoint esc_rules (rules : list (list N * bool * list (option N))) (ml : bool) (next : N) : list N :=
  match rules with
  | [] => emit next asp_escape_default
  | (bs, need_ml, out) :: r =>
      if existsb (N.eqb next) bs && (negb need_ml || ml) then emit next out else esc_rules r ml next
  end.
Definition asp_escape (ml : bool) (next : N) : list N := esc_rules asp_escape_rules ml next.

Definition prepend (p : list N) (o : option (list N * list N)) : option (list N * list N) :=
  match o with Some (v, r) => Some (p ++ v, r) | None => None end.

(* consumeString after the opening quote(s): the value and the rest of the input; None = l.fail *)
Fixpoint consume (quote : N) (ml escaped : bool) (bs : list N) : option (list N * list N) :=
  match bs with
  | [] => None                                                  (* case 0: Unterminated string literal *)
  | next :: r =>
      if escaped then prepend (asp_escape ml next) (consume quote ml false r)
      else if N.eqb next quote then
        if negb ml then Some ([], r)
        else match r with
             | q1 :: q2 :: r' =>
                 if N.eqb q1 quote && N.eqb q2 quote then Some ([], r')
                 else prepend [next] (consume quote ml false r)
             | _ => prepend [next] (consume quote ml false r)
             end
      else if N.eqb next 10 then (if ml then prepend [10] (consume quote ml false r) else None)
      else if N.eqb next 0 then None
      else if N.eqb next 92 then consume quote ml true r
      else prepend [next] (consume quote ml false r)
  end.

Definition delim (quote : N) (ml : bool) : list N := if ml then [quote; quote; quote] else [quote].

(* consumePossiblyTripleQuotedString on a whole token *)
Definition lex_string (tok : list N) : option (list N * list N) :=
  match tok with
  | q :: q1 :: q2 :: r => if N.eqb q1 q && N.eqb q2 q then consume q true false r else consume q false false (q1 :: q2 :: r)
  | q :: r => consume q false false r
  | [] => None
  end.

(* ---- buildtools -------------------------------------------------------------------------------------- *)
(* quote.go unesc / esc *)
Definition unesc (c : N) : option N :=
  match c with
  | 97 => Some 7 | 98 => Some 8 | 102 => Some 12 | 110 => Some 10 | 114 => Some 13 | 116 => Some 9 | 118 => Some 11
  | 92 => Some 92 | 39 => Some 39 | 34 => Some 34
  | _ => None
  end.
Definition esc (c : N) : option N :=
  match c with
  | 7 => Some 97 | 8 => Some 98 | 12 => Some 102 | 10 => Some 110 | 13 => Some 114 | 9 => Some 116 | 11 => Some 118
  | 92 => Some 92 | 39 => Some 39 | 34 => Some 34
  | _ => None
  end.
(* \0-\7 \x \u \U: decoded by Unquote, not modelled *)
Definition numeric_escape (c : N) : bool := (N.leb 48 c && N.leb c 55) || N.eqb c 120 || N.eqb c 117 || N.eqb c 85.

Definition ocons (c : list N) (o : option (list N)) : option (list N) :=
  match o with Some v => Some (c ++ v) | None => None end.

(* Unquote on the bytes between the quotes of a non-raw literal *)
Fixpoint bt_unquote (escaped : bool) (bs : list N) : option (list N) :=
  match bs with
  | [] => if escaped then None else Some []               (* truncated escape sequence *)
  | c :: r =>
      if escaped then
        if N.eqb c 10 then bt_unquote false r               (* case '\n': ignore the escape and the line break *)
        else match unesc c with
             | Some x => ocons [x] (bt_unquote false r)
             | None => if numeric_escape c then None else ocons [92; c] (bt_unquote false r)
             end
      else if N.eqb c 92 then bt_unquote true r
      else ocons [c] (bt_unquote false r)
  end.

(* IsCorrectEscaping's escapable set *)
Definition escapable (c : N) : bool :=
  N.eqb c 10 || existsb (N.eqb c) [97; 98; 102; 110; 114; 116; 117; 85; 118; 120; 39; 92; 34]
  || (N.leb 48 c && N.leb c 57).

Fixpoint correct_escaping (escaped : bool) (bs : list N) : bool :=
  match bs with
  | [] => true
  | c :: r =>
      if escaped then (if escapable c then correct_escaping false r else false)
      else correct_escaping (N.eqb c 92) r
  end.

Definition quote_lookahead (r : list N) : bool :=
  match r with
  | x :: r' => negb (N.eqb x 34) || match r' with y :: _ => negb (N.eqb y 34) | [] => false end
  | [] => false
  end.
Definition starts_with_quote (r : list N) : bool := match r with x :: _ => N.eqb x 34 | [] => false end.

(* what quote() writes for one byte when the double-quote-in-triple-quotes branch is not taken *)
Definition qbytes (triple : bool) (c : N) : list N :=
  if triple && N.eqb c 10 then [10]
  else if N.eqb c 39 then [39]
  else if N.eqb c 92 then [92; 92]
  else match esc c with
       | Some e => [92; e]
       | None =>
           if N.ltb c 32 || N.leb 128 c
           then [92; 48 + N.div c 64; 48 + N.modulo (N.div c 8) 8; 48 + N.modulo c 8]
           else [c]
       end.

(* quote(): the bytes between the quotes.  pass = the byte is the second quote of the `i++` branch *)
Fixpoint bt_quote_body (triple pass : bool) (v : list N) : list N :=
  match v with
  | [] => []
  | c :: r =>
      if pass then c :: bt_quote_body triple false r
      else if N.eqb c 34 && triple && quote_lookahead r
      then 34 :: bt_quote_body triple (starts_with_quote r) r
      else qbytes triple c ++ bt_quote_body triple false r
  end.

(* print.go case *StringExpr for a plain literal: the token itself when it is double-quoted (or holds a double quote)
   and correctly escaped, the canonical form of its value otherwise *)
Definition bt_print (quote : N) (ml : bool) (body : list N) : option (list N) :=
  match bt_unquote false body with
  | None => None
  | Some v =>
      let tok := delim quote ml ++ body ++ delim quote ml in
      if (N.eqb quote 34 || existsb (N.eqb 34) v) && correct_escaping false tok then Some tok
      else Some (delim 34 ml ++ bt_quote_body ml false v ++ delim 34 ml)
  end.

(* ---- bodies as items (for the statements about all bodies) ------------------------------------------------ *)
Inductive item := P (b : N) | E (b : N).       (* a byte other than a backslash / a backslash and the byte after it *)
Definition render1 (it : item) : list N := match it with P b => [b] | E b => [92; b] end.
Definition render (its : list item) : list N := flat_map render1 its.

Definition asp_item (ml : bool) (it : item) : list N := match it with P b => [b] | E b => asp_escape ml b end.
Definition bt_item (it : item) : list N :=
  match it with
  | P b => [b]
  | E b => if N.eqb b 10 then [] else match unesc b with Some x => [x] | None => [92; b] end
  end.
(* quote() on one byte of a value, as an item *)
Definition qitem (triple : bool) (c : N) : item :=
  if triple && N.eqb c 10 then P 10
  else if N.eqb c 39 then P 39
  else if N.eqb c 92 then E 92
  else match esc c with Some e => E e | None => P c end.

(* the modelled alphabet: printable ASCII, tab, (in triple quotes) newline; no numeric escapes; in triple quotes no
   double quote in the value *)
Definition plain_ok (ml : bool) (b : N) : bool :=
  ((N.leb 32 b && N.leb b 126) || N.eqb b 9 || (ml && N.eqb b 10))
  && negb (N.eqb b 92) && negb (ml && N.eqb b 34).
Definition item_byte (it : item) : N := match it with P b => b | E b => b end.
Definition item_ok (ml : bool) (it : item) : bool :=
  N.ltb (item_byte it) 127
  && match it with
     | P b => plain_ok ml b
     | E b => ((N.leb 32 b && N.leb b 126) || N.eqb b 10) && negb (numeric_escape b) && negb (ml && N.eqb b 34)
     end.
(* the defect class: a backslash-newline in a single-line literal *)
Definition joins_line (ml : bool) (it : item) : bool := match it with E 10 => negb ml | _ => false end.
(* the original literal is delimited by q: no unescaped q inside *)
Definition orig_ok (q : N) (it : item) : bool := match it with P b => negb (N.eqb b q) | E _ => true end.
