(* C31 - concurrent plz invocations on one repository.

   Executable model of N `plz build` processes sharing one plz-out, as a labelled transition system.
   What is modelled, with the code it follows:

   - runPlease (src/please.go:1211) takes the repo lock plz-out/.lock in SHARED mode
     (core.AcquireSharedRepoLock, src/core/lock.go:27), so whole invocations are NOT serialised:
     they interleave freely.  (The exclusive mode is only taken by `plz update`.)
   - buildTarget (src/build/build_step.go:164) takes the per-target lock
     AcquireExclusiveFileLock(target.BuildLockFile()) = flock(plz-out/tmp/<pkg>/<name>._build.lock)
     (build_step.go:213) and holds it until it returns (defer ReleaseFileLock, :214).  UNDER the
     lock it asks needsBuilding (:226): if the record on the outputs matches, the target is reused
     and nothing is written; otherwise the command runs in the target's temporary directory, then
     moveOutputs (:379) REPLACES the outputs in plz-out/gen (remove the old file, rename the new one:
     not atomic), then the record is written (calculateAndCheckRuleHash, :383).
   - a process starts building a target only when all of its dependencies have been built by
     this process (each process walks its own copy of the graph).
   - the directory cache ([cache] dir) is shared by all invocations: under the target lock, after
     needsBuilding said "build", retrieveArtifacts (:310) looks the target up under its key; on a hit
     the outputs and the record are put in place and the command does not run; after a run the
     outputs are stored (storeInCache, :406), still under the lock.  Filegroups never use it (:261).

   One build of one target by one invocation is therefore three events:
       Begin i l   take the lock of l (not enabled while another invocation holds it), decide:
                   reuse (lock released at once, l is done) or run (l becomes in-flight for i)
       Move i l    the command has run, the outputs of l in plz-out are being replaced: until End they are
                   UNREADABLE (conservative: anybody who reads them now fails)
       End i l     the outputs and their record are in place; lock released; l is done for i
   A schedule is any list of events; an event that is not enabled does nothing (a blocked flock, a
   target whose dependencies are not ready).  `use_lock = false` is the same system without the flock:
   Proof/C31.v shows that it can fail, i.e. the lock is THE hypothesis of the theorem.

   External behaviour (Section variables): `act` (what a command produces, a function of the
   target and the outputs of its dependencies - source files are part of the target, they do not
   change during the runs) and the hash `H` recorded on the outputs.  No proofs here. *)
From PlzV Require Import Base.Harness.
From PlzV Require Model.C31_Protocol Model.C31_TempFile.

Definition mem (k : str) (l : list str) : bool := existsb (str_eqb k) l.

(* ------------------------------------------------------------------------------------------ *)
(* repositories: the fragment of the closed command language of harness/e2e used by c31 *)

Inductive kind :=
| KConcat             (* cat $SRCS > $OUTS   (also sleepconcat: the same after a sleep) *)
| KConst (a : str)    (* echo a > every out *)
| KFail               (* exit 1 *)
| KText (c : str)     (* text_file *)
| KFilegroup.         (* its source files, under the same names *)

Inductive src :=
| SFile (name content : str)   (* a source file of the package, with its (fixed) content *)
| SDep (l : str).              (* another target: all of its outputs, sorted by name *)

Record target := mkT {
  t_label : str;
  t_kind : kind;
  t_srcs : list src;           (* declaration order = $SRCS order *)
  t_outs : list str            (* sorted *)
}.

Fixpoint dep_labels (l : list src) : list str :=
  match l with
  | [] => []
  | SFile _ _ :: r => dep_labels r
  | SDep x :: r => x :: dep_labels r
  end.
Definition t_deps (t : target) : list str := dep_labels (t_srcs t).

(* the outputs of one target: name -> content, sorted by name *)
Definition val := list (str * str).

Definition has_label (l : str) (t : target) : bool := str_eqb (t_label t) l.

Inductive ev :=
| Begin (i : nat) (l : str)
| Move (i : nat) (l : str)
| End (i : nat) (l : str).

(* ------------------------------------------------------------------------------------------ *)

Section LTS.
  Variable key : Type.                              (* what writeRuleHash records *)
  Variable key_eqb : key -> key -> bool.
  Variable H : target -> list val -> key.           (* rule hash + source hash of the inputs *)
  Variable act : target -> list val -> option val.  (* the command; None = it fails *)
  Variable use_lock : bool.

  Definition store := str -> option (key * val).    (* label -> record + outputs in plz-out *)
  Definition sval (s : store) (l : str) : option val :=
    match s l with Some kv => Some (snd kv) | None => None end.
  Definition upd (s : store) (l : str) (x : option (key * val)) : store :=
    fun l' => if str_eqb l' l then x else s l'.

  Fixpoint gather (f : str -> option val) (ls : list str) : option (list val) :=
    match ls with
    | [] => Some []
    | l :: r => match f l, gather f r with
                | Some v, Some vs => Some (v :: vs)
                | _, _ => None
                end
    end.

  (* needsBuilding: no record, or the record differs from the hash of the current inputs *)
  Definition needs_build (s : store) (t : target) : bool :=
    match s (t_label t) with
    | None => true
    | Some kv => match gather (sval s) (t_deps t) with
                 | None => true
                 | Some ins => negb (key_eqb (fst kv) (H t ins))
                 end
    end.

  Record inv := mkI {
    i_todo : list target;            (* not started yet *)
    i_cur : list (target * bool);    (* in flight (lock held); true = outputs being replaced *)
    i_done : list str;
    i_failed : list str;
    i_ran : list str                 (* labels whose command this invocation ran *)
  }.

  (* the directory cache shared by all invocations ([cache] dir): target label -> cache key -> the
     stored outputs.  The key (mustShortTargetHash) covers what the record covers: the rule and its
     inputs, i.e. H t ins.  None = no cache configured. *)
  Definition cache := str -> key -> option val.
  Definition empty_cache : cache := fun _ _ => None.
  Definition cache_get (oc : option cache) (l : str) (k : key) : option val :=
    match oc with Some c => c l k | None => None end.
  Definition cache_put (oc : option cache) (l : str) (k : key) (v : val) : option cache :=
    match oc with
    | Some c => Some (fun l' k' => if str_eqb l' l && key_eqb k' k then Some v else c l' k')
    | None => None
    end.
  (* filegroups return from buildTarget before the cache is looked at (build_step.go:261) *)
  Definition cacheable (t : target) : bool := match t_kind t with KFilegroup => false | _ => true end.

  Record state := mkSt { st_store : store; st_n : nat; st_inv : nat -> inv; st_cache : option cache }.

  Definition holds (iv : inv) (l : str) : bool := existsb (fun tb => has_label l (fst tb)) (i_cur iv).
  Definition locked (st : state) (l : str) : bool :=
    existsb (fun j => holds (st_inv st j) l) (seq 0 (st_n st)).

  Definition set_all (st : state) (s : store) (oc : option cache) (i : nat) (iv : inv) : state :=
    mkSt s (st_n st) (fun j => if Nat.eqb j i then iv else st_inv st j) oc.
  Definition set_both (st : state) (s : store) (i : nat) (iv : inv) : state := set_all st s (st_cache st) i iv.
  Definition set_inv (st : state) (i : nat) (iv : inv) : state := set_both st (st_store st) i iv.

  Definition drop (l : str) (ts : list target) : list target :=
    filter (fun t => negb (has_label l t)) ts.
  Definition dropc (l : str) (c : list (target * bool)) : list (target * bool) :=
    filter (fun tb => negb (has_label l (fst tb))) c.
  Definition markc (l : str) (c : list (target * bool)) : list (target * bool) :=
    map (fun tb => if has_label l (fst tb) then (fst tb, true) else tb) c.

  Definition step_begin (st : state) (i : nat) (l : str) : option state :=
    let iv := st_inv st i in
    match find (has_label l) (i_todo iv) with
    | None => None
    | Some t =>
        if negb (forallb (fun d => mem d (i_done iv) || mem d (i_failed iv)) (t_deps t)) then None
        else if existsb (fun d => mem d (i_failed iv)) (t_deps t) then
          (* a dependency failed: the target is never attempted *)
          Some (set_inv st i (mkI (drop l (i_todo iv)) (i_cur iv) (i_done iv) (t_label t :: i_failed iv) (i_ran iv)))
        else if use_lock && locked st (t_label t) then None          (* flock blocks *)
        else if needs_build (st_store st) t then
          Some (set_inv st i (mkI (drop l (i_todo iv)) ((t, false) :: i_cur iv) (i_done iv) (i_failed iv) (i_ran iv)))
        else
          Some (set_inv st i (mkI (drop l (i_todo iv)) (i_cur iv) (t_label t :: i_done iv) (i_failed iv) (i_ran iv)))
    end.

  Definition step_move (st : state) (i : nat) (l : str) : option state :=
    let iv := st_inv st i in
    match find (fun tb => has_label l (fst tb) && negb (snd tb)) (i_cur iv) with
    | None => None
    | Some tb =>
        Some (set_both st (upd (st_store st) (t_label (fst tb)) None) i
                       (mkI (i_todo iv) (markc l (i_cur iv)) (i_done iv) (i_failed iv) (i_ran iv)))
    end.

  Definition step_end (st : state) (i : nat) (l : str) : option state :=
    let iv := st_inv st i in
    match find (fun tb => has_label l (fst tb) && snd tb) (i_cur iv) with
    | None => None
    | Some tb =>
        let t := fst tb in
        let s := st_store st in
        match gather (sval s) (t_deps t) with
        | None =>      (* an input is missing: prepareSources fails, Build() removes the outputs *)
            Some (set_both st (upd s (t_label t) None) i
                           (mkI (i_todo iv) (dropc l (i_cur iv)) (i_done iv) (t_label t :: i_failed iv) (i_ran iv)))
        | Some ins =>
            match (if cacheable t then cache_get (st_cache st) (t_label t) (H t ins) else None) with
            | Some v =>
                (* retrieveArtifacts (build_step.go:310): the outputs come out of the cache, the record is
                   written, the command does NOT run *)
                Some (set_both st (upd s (t_label t) (Some (H t ins, v))) i
                               (mkI (i_todo iv) (dropc l (i_cur iv)) (t_label t :: i_done iv) (i_failed iv) (i_ran iv)))
            | None =>
                match act t ins with
                | None =>
                    Some (set_both st (upd s (t_label t) None) i
                                   (mkI (i_todo iv) (dropc l (i_cur iv)) (i_done iv) (t_label t :: i_failed iv) (t_label t :: i_ran iv)))
                | Some v =>
                    (* build, moveOutputs, record, then storeInCache (build_step.go:406), all under the lock *)
                    Some (set_all st (upd s (t_label t) (Some (H t ins, v)))
                                  (if cacheable t then cache_put (st_cache st) (t_label t) (H t ins) v else st_cache st) i
                                  (mkI (i_todo iv) (dropc l (i_cur iv)) (t_label t :: i_done iv) (i_failed iv) (t_label t :: i_ran iv)))
                end
            end
        end
    end.

  Definition step (st : state) (e : ev) : option state :=
    match e with
    | Begin i l => if Nat.ltb i (st_n st) then step_begin st i l else None
    | Move i l => if Nat.ltb i (st_n st) then step_move st i l else None
    | End i l => if Nat.ltb i (st_n st) then step_end st i l else None
    end.

  Definition apply (st : state) (e : ev) : state :=
    match step st e with Some st' => st' | None => st end.

  Definition run (sched : list ev) (st : state) : state := fold_left apply sched st.

  Definition empty_inv : inv := mkI [] [] [] [] [].
  Definition init_c (s0 : store) (oc : option cache) (todos : list (list target)) : state :=
    mkSt s0 (length todos) (fun i => mkI (nth i todos []) [] [] [] []) oc.
  Definition init (s0 : store) (todos : list (list target)) : state := init_c s0 None todos.   (* no cache configured *)
  Definition empty_store : store := fun _ => None.

  (* every process has exited / exited with status 0 *)
  Definition inv_finished (iv : inv) : bool :=
    match i_todo iv, i_cur iv with [], [] => true | _, _ => false end.
  Definition finished (st : state) : bool :=
    forallb (fun i => inv_finished (st_inv st i)) (seq 0 (st_n st)).
  Definition inv_ok (iv : inv) : bool := match i_failed iv with [] => true | _ => false end.
  Definition all_ok (st : state) : bool := forallb (fun i => inv_ok (st_inv st i)) (seq 0 (st_n st)).

  (* the outputs of a clean build, as a function: every target, dependencies first *)
  Definition clean_step (cv : str -> option val) (t : target) : str -> option val :=
    let v := match gather cv (t_deps t) with Some ins => act t ins | None => None end in
    fun l => if str_eqb l (t_label t) then v else cv l.
  Definition cleanv (r : list target) : str -> option val := fold_left clean_step r (fun _ => None).

  (* the scheduler used by the correspondence check: at every step one of the enabled events,
     chosen by the next number of `choices` (the first enabled one when they run out) *)
  Definition candidates (st : state) : list ev :=
    flat_map (fun i => let iv := st_inv st i in
                       map (fun tb => End i (t_label (fst tb))) (i_cur iv)
                       ++ map (fun tb => Move i (t_label (fst tb))) (i_cur iv)
                       ++ map (fun t => Begin i (t_label t)) (i_todo iv)) (seq 0 (st_n st)).
  Definition enabled (st : state) (e : ev) : bool := match step st e with Some _ => true | None => false end.
  (* the work left: 3 per (process, target) pair not yet started, 2 per pair whose command is about to
     run, 1 per pair whose outputs are being replaced.  Proof/C31_Progress.v: every enabled event lowers
     it, it is 0 exactly in the finished states. *)
  Definition mu_cur (c : list (target * bool)) : nat :=
    fold_right (fun (tb : target * bool) (a : nat) => (if snd tb then 1 else 2) + a) 0 c.
  Definition mu_inv (iv : inv) : nat := 3 * length (i_todo iv) + mu_cur (i_cur iv).
  Definition mu (st : state) : nat := list_sum (map (fun i => mu_inv (st_inv st i)) (seq 0 (st_n st))).
  (* how many events of a schedule were enabled when their turn came (the others do nothing) *)
  Fixpoint effective (st : state) (sched : list ev) : nat :=
    match sched with
    | [] => 0
    | e :: rest => (if enabled st e then 1 else 0) + effective (apply st e) rest
    end.

  Fixpoint drive (choices : list N) (fuel : nat) (st : state) : state :=
    match fuel with
    | O => st
    | S f =>
        match filter (enabled st) (candidates st) with
        | [] => st
        | e0 :: es =>
            match choices with
            | [] => drive [] f (apply st e0)
            | c :: rest => drive rest f (apply st (nth (N.to_nat (N.modulo c (N.of_nat (S (length es))))) (e0 :: es) e0))
            end
        end
    end.
End LTS.

(* ------------------------------------------------------------------------------------------ *)
(* well-formed repositories; what one `plz build <req>` has to do *)

Fixpoint nodup_str (l : list str) : bool :=
  match l with [] => true | x :: r => negb (mem x r) && nodup_str r end.
Fixpoint topo (seen : list str) (ts : list target) : bool :=
  match ts with
  | [] => true
  | t :: r => forallb (fun l => mem l seen) (t_deps t) && topo (t_label t :: seen) r
  end.
(* unique labels, dependencies listed before dependents *)
Definition wf_repo (r : list target) : bool := nodup_str (map t_label r) && topo [] r.

Definition closure (ts : list target) (req : list str) : list str :=
  fold_left (fun need t => if mem (t_label t) need then t_deps t ++ need else need) (rev ts) req.
Definition plan (r : list target) (req : list str) : list target :=
  let need := closure r req in filter (fun t => mem (t_label t) need) r.

(* ------------------------------------------------------------------------------------------ *)
(* The store above is keyed by LABEL: it is a faithful picture of plz-out only when distinct targets
   write distinct paths.  Two filegroups may legally output the same path (filegroup.go:1-9); the
   executable classifier of that input class: *)
Fixpoint label_pkg (l : str) : str :=
  match l with
  | [] => []
  | c :: r => if N.eqb c 58 (* ':' *) then [] else c :: label_pkg r
  end.
Definition out_paths (t : target) : list (str * str) := map (fun o => (label_pkg (t_label t), o)) (t_outs t).
Definition path_eqb (a b : str * str) : bool := str_eqb (fst a) (fst b) && str_eqb (snd a) (snd b).
Definition shares_path (t u : target) : bool :=
  existsb (fun p => existsb (path_eqb p) (out_paths u)) (out_paths t).
Fixpoint any_shared (ts : list target) : bool :=
  match ts with
  | [] => false
  | t :: r => existsb (shares_path t) r || any_shared r
  end.
Definition shared_output_class (r : list target) : option str :=
  if any_shared r then Some (s "two-targets-write-the-same-output-path") else None.

(* ------------------------------------------------------------------------------------------ *)
(* SharedDir: PATH-LEVEL model of the one place where two targets write the same path: two filegroups of one
   package whose sources contain the same directory d of n files, built by two processes, each followed
   by a genrule of the same process that lists the directory.  filegroupBuilder.Build (filegroup.go:65)
   for plz-out/gen/p/d, step by step:
     PCheck   isSameFileContent: the output directory exists and holds exactly the current files
              -> nothing to do; otherwise it is replaced:
     PSnap    fs.RemoveAll: the names in the directory are read (Readdirnames; absent directory: nothing to remove)
     PRm      ... and unlinked one after the other (a name that has vanished is not an error)
     PRmdir   ... then the directory itself is removed: ENOTEMPTY is an ERROR (the build of the target fails)
     PLink k  RecursiveCopyOrLinkFile: MkdirAll, then file k, k+1, ... is linked; if the link fails
              (EEXIST, or the directory has vanished) the fallback copies to a temporary name and renames:
              either way file k is there afterwards, with the current content
     PRead    the filegroup is built; the genrule of the same process reads the directory
   In ONE process theFilegroupBuilder.mutex serialises the two filegroups; across processes each holds
   only ITS OWN target flock (fga._build.lock / fgb._build.lock): `same_lock = false` below.  `same_lock
   = true` is the control: both processes build the same filegroup. *)
Definition dir := option (list (nat * bool)).        (* None: absent; entries (file index, current content?) sorted by index *)

Inductive pc :=
| PCheck | PSnap | PRm (names : list nat) | PRmdir | PLink (k : nat) | PRead
| PDone (saw : dir) | PFail.

Fixpoint rm_entry (k : nat) (es : list (nat * bool)) : list (nat * bool) :=
  match es with
  | [] => []
  | e :: r => if Nat.eqb (fst e) k then r else e :: rm_entry k r
  end.
Fixpoint put_entry (k : nat) (es : list (nat * bool)) : list (nat * bool) :=
  match es with
  | [] => [(k, true)]
  | e :: r => if Nat.eqb (fst e) k then (k, true) :: r
              else if Nat.ltb k (fst e) then (k, true) :: e :: r
              else e :: put_entry k r
  end.
Definition complete (n : nat) : list (nat * bool) := map (fun k => (k, true)) (seq 0 n).
Definition entry_eqb (a b : nat * bool) : bool := Nat.eqb (fst a) (fst b) && Bool.eqb (snd a) (snd b).
Definition dir_eqb (a b : dir) : bool := option_eqb (list_eqb entry_eqb) a b.

Definition pstep (n : nat) (d : dir) (p : pc) : dir * pc :=
  match p with
  | PCheck => if dir_eqb d (Some (complete n)) then (d, PRead) else (d, PSnap)
  | PSnap => match d with None => (d, PLink 0) | Some es => (d, PRm (map fst es)) end
  | PRm [] => (d, PRmdir)
  | PRm (k :: ks) => (match d with None => None | Some es => Some (rm_entry k es) end, PRm ks)
  | PRmdir => match d with
              | None | Some [] => (None, PLink 0)
              | Some (_ :: _) => (d, PFail)
              end
  | PLink k => if Nat.ltb k n
               then (Some (put_entry k (match d with None => [] | Some es => es end)), PLink (S k))
               else ((match d with None => Some [] | Some es => Some es end), PRead)
  | PRead => (d, PDone d)
  | PDone _ | PFail => (d, p)
  end.

Definition holds_dir_lock (p : pc) : bool :=
  match p with PSnap | PRm _ | PRmdir | PLink _ => true | _ => false end.

Record dstate := mkD { d_dir : dir; d_p0 : pc; d_p1 : pc }.

(* one event = one process takes its next step; with the same lock a process cannot start on the
   filegroup (PCheck is done under the flock) while the other is inside *)
Definition at_check (p : pc) : bool := match p with PCheck => true | _ => false end.
Definition dblocked (same_lock : bool) (st : dstate) (who : bool) : bool :=
  if who then same_lock && at_check (d_p1 st) && holds_dir_lock (d_p0 st)
  else same_lock && at_check (d_p0 st) && holds_dir_lock (d_p1 st).
Definition dapply (same_lock : bool) (n : nat) (st : dstate) (who : bool) : dstate :=
  if dblocked same_lock st who then st
  else if who then let (d, p) := pstep n (d_dir st) (d_p1 st) in mkD d (d_p0 st) p
  else let (d, p) := pstep n (d_dir st) (d_p0 st) in mkD d p (d_p1 st).
Definition drun (same_lock : bool) (n : nat) (sched : list bool) (st : dstate) : dstate :=
  fold_left (dapply same_lock n) sched st.
(* plz-out before: the directory of an earlier build whose files have changed since (stale), or nothing *)
Definition dinit (n : nat) (stale : bool) : dstate :=
  mkD (if stale then Some (map (fun k => (k, false)) (seq 0 n)) else None) PCheck PCheck.

(* no process has failed, and a reader that has run saw the whole directory with the current content *)
Definition pc_ok (n : nat) (p : pc) : bool :=
  match p with PFail => false | PDone saw => dir_eqb saw (Some (complete n)) | _ => true end.
Definition dsafe (n : nat) (st : dstate) : bool := pc_ok n (d_p0 st) && pc_ok n (d_p1 st).
Definition dfinished (st : dstate) : bool :=
  match d_p0 st, d_p1 st with PDone _, PDone _ => true | _, _ => false end.

(* every interleaving, by exhaustive exploration (each step that changes something advances a process,
   so depth `fuel` >= the total number of steps is enough); used for the control only *)
Definition pc_terminal (p : pc) : bool := match p with PDone _ | PFail => true | _ => false end.
Fixpoint dexplore (same_lock : bool) (n : nat) (fuel : nat) (st : dstate) : bool :=
  match fuel with
  | O => pc_terminal (d_p0 st) && pc_terminal (d_p1 st) && dsafe n st
  | S f =>
      let m0 := negb (pc_terminal (d_p0 st)) && negb (dblocked same_lock st false) in
      let m1 := negb (pc_terminal (d_p1 st)) && negb (dblocked same_lock st true) in
      dsafe n st
      && (if m0 then dexplore same_lock n f (dapply same_lock n st false) else true)
      && (if m1 then dexplore same_lock n f (dapply same_lock n st true) else true)
      && (m0 || m1 || (pc_terminal (d_p0 st) && pc_terminal (d_p1 st)))      (* nobody is stuck *)
  end.

(* ------------------------------------------------------------------------------------------ *)
(* vocabulary of the property statement *)

(* Trust: a record found on outputs that are already in plz-out tells the truth about them
   (holds for the empty plz-out, and for whatever earlier builds of the same tree left behind) *)
Definition trusted (key : Type) (H : target -> list val -> key) (act : target -> list val -> option val)
                   (r : list target) (s : store key) : Prop :=
  forall t k v, In t r -> s (t_label t) = Some (k, v) -> forall ins, H t ins = k -> act t ins = Some v.

(* the same for the shared directory cache: an entry found under (label, key) was stored by a build of
   that target from the inputs the key stands for (the empty cache and "no cache" in particular) *)
Definition cache_trusted (key : Type) (H : target -> list val -> key) (act : target -> list val -> option val)
                         (r : list target) (oc : option (cache key)) : Prop :=
  match oc with
  | None => True
  | Some c => forall t k v, In t r -> c (t_label t) k = Some v -> forall ins, H t ins = k -> act t ins = Some v
  end.

(* every invocation works on targets of the repository, and the clean build of each of them succeeds *)
Definition requests_ok (act : target -> list val -> option val) (r : list target) (todos : list (list target)) : Prop :=
  forall ts t, In ts todos -> In t ts -> In t r /\ cleanv act r (t_label t) <> None.

(* ------------------------------------------------------------------------------------------ *)
(* the instance used by the correspondence check: commands of the closed language; the hash of
   the inputs is modelled by the inputs themselves *)

Fixpoint src_contents (l : list src) (ins : list val) : list str :=
  match l with
  | [] => []
  | SFile _ c :: r => c :: src_contents r ins
  | SDep _ :: r => match ins with
                   | v :: ins' => map snd v ++ src_contents r ins'
                   | [] => src_contents r []
                   end
  end.
Fixpoint file_srcs (l : list src) : val :=
  match l with
  | [] => []
  | SFile n c :: r => (n, c) :: file_srcs r
  | SDep _ :: r => file_srcs r
  end.
Definition nl : str := [10%N].

Definition act_cmd (t : target) (ins : list val) : option val :=
  match t_kind t with
  | KConcat => match t_outs t with
               | [o] => Some [(o, concat (src_contents (t_srcs t) ins))]
               | _ => None
               end
  | KConst a => Some (map (fun o => (o, a ++ nl)) (t_outs t))
  | KFail => None
  | KText c => match t_outs t with [o] => Some [(o, c)] | _ => None end
  | KFilegroup => Some (file_srcs (t_srcs t))
  end.

Definition pair_eqb (a b : str * str) : bool := str_eqb (fst a) (fst b) && str_eqb (snd a) (snd b).
Definition val_eqb : val -> val -> bool := list_eqb pair_eqb.
Definition ckey := list val.
Definition ckey_eqb : ckey -> ckey -> bool := list_eqb val_eqb.
Definition cH (t : target) (ins : list val) : ckey := ins.

Definition cstate := state ckey.
Definition cdrive := drive ckey ckey_eqb cH act_cmd true.
Definition cinit := init ckey.
Definition cinit_c := init_c ckey.

(* ------------------------------------------------------------------------------------------ *)
(* correspondence cases: one repository, an optional earlier build of `warm`, then the concurrent
   invocations; with what the real plz processes did.  `cache` = a directory cache is configured (shared
   by the first build and all concurrent invocations, empty at the start); `wipe` = plz-out is removed
   between the first build and the concurrent invocations (the cache is kept), so that with a cache
   everything the first build produced is RETRIEVED by whoever takes the target's lock first, and its
   command does not run again; without a cache it runs a second time. *)

Inductive case :=
| Case (r : list target)
       (warm : list str)                                  (* built alone first ([] = nothing) *)
       (cache wipe : bool)
       (reqs : list (list str))                           (* one entry per concurrent invocation *)
       (choices : list N)                                 (* drives the model's scheduler *)
       (ob_ok : list bool)                                (* exit status 0, per invocation *)
       (ob_outs : list (str * list (str * option str)))   (* label -> out -> content in plz-out at the end *)
       (ob_runs : list (str * nat))                       (* label -> lines in the action log (both phases) *)
(* a trial of the critical-section streams (harness/cmd/c31/crit.go): `invocations` real plz processes on ONE
   target (a filegroup or not); interfered = one of them had its work on the target destroyed by another
   (non-zero exit with the tell-tale messages, outputs differing from a solo build, or the command run again
   by an invocation that had waited on the lock).  Model/C31_Protocol.v: the statement-level lock protocol
   regenerated from buildTarget. *)
| CaseCrit (filegroup : bool) (invocations : nat) (interfered : bool)
(* a run of harness stream copied-filegroup/shared-file: `targets` DIFFERENT binary filegroups re-exporting one
   large file (one output path, as many target locks), `invocations` real processes building one each at the
   same time; interfered = an invocation failed or the output differs from a solo build.
   Model/C31_TempFile.v: WriteFile's copy-then-rename with the temporary-name policy translated from fs.go. *)
| CaseShared (targets invocations : nat) (interfered : bool).

Fixpoint alookup (k : str) (l : list (str * str)) : option str :=
  match l with
  | [] => None
  | (k', v) :: r => if str_eqb k k' then Some v else alookup k r
  end.

Definition ostr_eqb := option_eqb str_eqb.

(* the store is keyed by label: a path that another target also writes (two filegroups with a common
   source file) may be there although THIS target was never built - it says nothing about this label *)
Definition path_shared (r : list target) (l o : str) : bool :=
  existsb (fun u => negb (str_eqb (t_label u) l) && existsb (path_eqb (label_pkg l, o)) (out_paths u)) r.

Definition check_outs (r : list target) (s : store ckey) (obs : list (str * list (str * option str))) : bool :=
  forallb (fun lo =>
             match sval ckey s (fst lo) with
             | None => forallb (fun oc => ostr_eqb (snd oc) None || path_shared r (fst lo) (fst oc)) (snd lo)
             | Some v => forallb (fun oc => ostr_eqb (snd oc) (alookup (fst oc) v)) (snd lo)
                         && Nat.eqb (length v) (length (snd lo))
             end) obs.

Definition count_in (l : str) (xs : list str) : nat := length (filter (str_eqb l) xs).
Definition ran_total (st : cstate) (l : str) : nat :=
  fold_left (fun a i => a + count_in l (i_ran (st_inv ckey st i))) (seq 0 (st_n ckey st)) 0.

Definition oks (st : cstate) : list bool := map (fun i => inv_ok (st_inv ckey st i)) (seq 0 (st_n ckey st)).

Definition check (c : case) : bool :=
  match c with
  | Case r warm cache wipe reqs choices ob_ok ob_outs ob_runs =>
      let fuel := 4 * (S (length r)) * (S (length reqs)) in
      let oc := if cache then Some (empty_cache ckey) else None in
      let w := cdrive [] fuel (cinit_c (empty_store ckey) oc (match warm with [] => [] | _ => [plan r warm] end)) in
      let start := cinit_c (if wipe then empty_store ckey else st_store ckey w) (st_cache ckey w) (map (plan r) reqs) in
      let a := cdrive choices fuel start in         (* the schedule chosen by the case *)
      let b := cdrive [] fuel start in              (* first enabled event every time *)
      let good (st : cstate) :=
          finished ckey st
          && list_eqb Bool.eqb (oks st) ob_ok
          && check_outs r (st_store ckey st) ob_outs
          && forallb (fun ln => Nat.eqb (ran_total w (fst ln) + ran_total st (fst ln)) (snd ln)) ob_runs in
      wf_repo r && finished ckey w && good a && good b
  | CaseCrit filegroup invocations interfered => C31_Protocol.crit_check filegroup invocations interfered
  | CaseShared targets invocations interfered => C31_TempFile.shared_check targets invocations interfered
  end.
