(* C08 - the STORED rule hash: what turns "the rule hash differs" into "the target is rebuilt".  Definitions only.

   build.writeRuleHash stamps every output file of a target with one record (xattr user.plz_build) that starts with the
   rule hash of the definition that was just built; on the next run build.needsBuilding reads the record back with
   readRuleHashFromXattrs and compares its rule part with RuleHash of the definition as it is now.  The output directory
   survives edits of the BUILD file, so the files found there may have been written by builds of OTHER definitions of the
   same target (an output that is no longer declared stays on disk with its old record).

   The body of the loop of readRuleHashFromXattrs is regenerated from the source by gotrans (`stored_reader_body`,
   Gen/RuleHashProg.v) as an `rstmt` (Model/C08.v); this file gives its semantics, the disk, and the histories of builds. *)
From PlzV Require Import Base.Harness Model.C08 Model.C08_Cache.

Definition is_none {A} (o : option A) : bool := match o with None => true | Some _ => false end.

Section Store.
  Variable D : Type.
  Variable Deqb : D -> D -> bool.   (* bytes.Equal on records / hashes *)
  Variable H : str -> D.            (* SHA-1 *)
  Variable p : program.             (* ruleHash *)
  Variable body : rstmt.            (* loop body of readRuleHashFromXattrs *)

  (* ---- the reader.  Local variables: h (declared before the loop, nil) and b (declared in the body).  nil = None. *)
  Definition rstate := (option D * option D)%type.

  Definition rget (v : rvar) (st : rstate) : option D := match v with RVh => fst st | RVb => snd st end.
  Definition rset (v : rvar) (x : option D) (st : rstate) : rstate :=
    match v with RVh => (x, snd st) | RVb => (fst st, x) end.

  Definition ratom_val (st : rstate) (a : ratom) : bool :=
    match a with
    | RNil v => is_none (rget v st)
    | REqual => option_eqb Deqb (fst st) (snd st)   (* a stored record is never empty, so nil equals only nil *)
    end.

  (* one iteration on an output whose attribute is `a` (None: no such file, or no record on it); None = `return ruleHashes{}` *)
  Fixpoint rexec (a : option D) (st : rstate) (c : rstmt) : option rstate :=
    match c with
    | RSkip => Some st
    | RSeq x y => match rexec a st x with Some st' => rexec a st' y | None => None end
    | RAssign v e => Some (rset v (match e with RRead => a | RVar u => rget u st end) st)
    | RIf g th el => if beval (ratom_val st) g then rexec a st th else rexec a st el
    | RReturnEmpty => None
    end.

  Fixpoint rloop (attrs : list (option D)) (h : option D) : option (option D) :=
    match attrs with
    | [] => Some h
    | a :: r => match rexec a (h, None) body with Some st => rloop r (fst st) | None => None end
    end.

  (* the record readRuleHashFromXattrs finds for a target with at least one output; None = ruleHashes{}.  (A target
     without outputs, or a loop that ends with h == nil, falls back to a side file: not modelled, None here.) *)
  Definition read_stored (attrs : list (option D)) : option D :=
    match rloop attrs None with Some (Some h) => Some h | _ => None end.

  (* ---- the disk: for each path below the target's output directory, the definition whose build wrote the file and the
     rule hash recorded on it *)
  Record file := File { f_by : target; f_rec : option D }.
  Definition disk := list (str * file).

  Definition attr_of (dk : disk) (o : str) : option D :=
    match lookup o dk with Some f => f_rec f | None => None end.

  (* BuildTarget.Outputs() of a target that is not a filegroup: declared outputs and all named outputs, sorted *)
  Definition outputs_of (t : target) : list str := isort str_leb (t_outs t ++ flat_map snd (t_named_outs t)).

  Definition stored_rule (dk : disk) (t : target) : option D := read_stored (map (attr_of dk) (outputs_of t)).

  (* the rule-hash part of needsBuilding(state, target, false) *)
  Definition needs_building (dk : disk) (t : target) : bool :=
    match stored_rule dk t with
    | Some r => negb (Deqb r (H (ser p false t)))
    | None => true
    end.

  (* a build of definition t: the command (re)creates every output, writeRuleHash stamps every output *)
  Definition write_all (dk : disk) (t : target) : disk :=
    fold_left (fun d o => (o, File t (Some (H (ser p false t)))) :: d) (outputs_of t) dk.

  Inductive sevent :=
  | SvBuild (t : target) (other : bool)   (* `plz build` with the definition t; other = needsBuilding has another reason to
                                             rebuild (config / source / secret hash, a missing output, --rebuild) *)
  | SvRemove (o : str).                    (* the user deletes a file *)

  Definition sstep (dk : disk) (e : sevent) : disk * list bool :=
    match e with
    | SvBuild t other =>
        let nb := needs_building dk t in
        (if nb || other then write_all dk t else dk, [nb])
    | SvRemove o => (filter (fun kv => negb (str_eqb o (fst kv))) dk, [])
    end.

  (* the disk after a history and the answers of the rule-hash comparison along it *)
  Fixpoint srun (dk : disk) (evs : list sevent) : disk * list bool :=
    match evs with
    | [] => (dk, [])
    | e :: r => let (dk', o) := sstep dk e in let (dk'', os) := srun dk' r in (dk'', o ++ os)
    end.
End Store.

Arguments File {D} f_by f_rec.
Arguments f_by {D} f.
Arguments f_rec {D} f.
