(* C30, second part - where the deadline of an action comes from.
   Executable model of sizeAndTimeout and of the part of createTarget (src/parse/asp/targets.go)
   that computes target.BuildTimeout and target.Test.Timeout, the durations that build_step.go /
   test_step.go hand to process.ExecWithTimeout.  The body of sizeAndTimeout is NOT written here:
   it is Gen.size_and_timeout_prog, regenerated from the source statement by statement on every
   run, and this file only says what its statements mean.  Durations are nanoseconds in Z (a Go
   time.Duration; the int64 overflow of an explicit timeout above 9.2e9 s is not modelled).
   No proofs here. *)
From PlzV Require Import Base.Harness Gen.KillTimings.
Local Open Scope Z_scope.

(* the value of a timeout argument of build_rule (build_timeout / test_timeout : int|str = 0) *)
Inductive targ :=
| TInt (z : Z)       (* pyInt *)
| TStr (n : str)     (* pyString: the name of a size or of a size's timeout *)
| TOther.            (* nil / None / any other type: matches no case of the type switch *)

Inductive dres :=
| DOk (ns : Z)       (* the deadline *)
| DUnknownSize       (* mustSize: s.Assert(present, "Unknown size %s") - the package fails to parse *)
| DCrash.            (* a nil *core.Size dereferenced, an expression used outside its case, or no return reached *)

Fixpoint lookup_size (sizes : list (str * Z)) (n : str) : option Z :=
  match sizes with
  | [] => None
  | (k, v) :: r => if str_eqb k n then Some v else lookup_size r n
  end.

(* the arguments of one call of sizeAndTimeout *)
Record denv := mkDenv {
  e_sizes : list (str * Z);   (* s.state.Config.Size: name -> Timeout *)
  e_size : option Z;          (* size: nil, or the Timeout of the declared size *)
  e_arg : targ;               (* timeout *)
  e_default : Z               (* defaultTimeout *)
}.

(* t: the variable bound by `switch t := timeout.(type)`, None outside the switch *)
Definition eval_expr (env : denv) (t : option targ) (e : dexpr) : dres :=
  match e with
  | DExplicit => match t with Some (TInt z) => DOk (z * Z.of_N explicit_unit_ns) | _ => DCrash end
  | DNamed => match t with
              | Some (TStr n) => match lookup_size (e_sizes env) n with Some v => DOk v | None => DUnknownSize end
              | _ => DCrash
              end
  | DSize => match e_size env with Some v => DOk v | None => DCrash end
  | DDefault => DOk (e_default env)
  end.

Definition eval_cond (env : denv) (t : option targ) (c : dcond) : bool :=
  match c with
  | DPositive => match t with Some (TInt z) => 0 <? z | _ => false end
  | DHasSize => match e_size env with Some _ => true | None => false end
  end.

(* None = the statement completed without returning *)
Fixpoint eval_stmt (env : denv) (t : option targ) (s : dstmt) {struct s} : option dres :=
  let fix go (t : option targ) (l : list dstmt) : option dres :=
    match l with
    | [] => None
    | x :: r => match eval_stmt env t x with Some v => Some v | None => go t r end
    end in
  match s with
  | DReturn e => Some (eval_expr env t e)
  | DIf c th => if eval_cond env t c then go t th else None
  | DSwitch on_int on_str =>
      match e_arg env with
      | TInt z => go (Some (TInt z)) on_int
      | TStr n => go (Some (TStr n)) on_str
      | TOther => None
      end
  end.

Fixpoint eval_stmts (env : denv) (t : option targ) (l : list dstmt) : option dres :=
  match l with
  | [] => None
  | x :: r => match eval_stmt env t x with Some v => Some v | None => eval_stmts env t r end
  end.

(* sizeAndTimeout as it is written in the source *)
Definition size_and_timeout (env : denv) : dres :=
  match eval_stmts env None size_and_timeout_prog with Some v => v | None => DCrash end.

(* ---- the documented precedence: explicit timeout > declared size > configured default ---- *)
Definition deadline_spec (env : denv) : dres :=
  match e_arg env with
  | TStr n => match lookup_size (e_sizes env) n with Some v => DOk v | None => DUnknownSize end
  | TInt z => if 0 <? z then DOk (z * 1000000000)
              else match e_size env with Some v => DOk v | None => DOk (e_default env) end
  | TOther => match e_size env with Some v => DOk v | None => DOk (e_default env) end
  end.

(* ---- createTarget ---- *)
Record dconfig := mkDconfig {
  c_sizes : list (str * Z);    (* [size "..."] sections, including the timeout names *)
  c_build_default : Z;         (* [build] timeout *)
  c_test_default : Z           (* [test] timeout *)
}.

(* one build_rule(...) call, as far as deadlines are concerned *)
Record decl := mkDecl {
  d_size : option str;         (* size = *)
  d_build : targ;              (* build_timeout = *)
  d_test : targ;               (* test_timeout = *)
  d_is_test : bool             (* test = True *)
}.

Inductive tres :=
| TOk (build_ns : Z) (test_ns : option Z)   (* target.BuildTimeout, target.Test.Timeout (test targets only) *)
| TFail.                                    (* the rule call fails: unknown size name *)

Definition pick_arg (d : decl) (a : darg) : targ := match a with ABuildTimeout => d_build d | ATestTimeout => d_test d end.
Definition pick_default (c : dconfig) (k : ddefault) : Z := match k with CfgBuildTimeout => c_build_default c | CfgTestTimeout => c_test_default c end.

Definition call_env (c : dconfig) (d : decl) (size : option Z) (call : darg * ddefault) : denv :=
  mkDenv (c_sizes c) size (pick_arg d (fst call)) (pick_default c (snd call)).

Definition create_target_with (f : denv -> dres) (c : dconfig) (d : decl) : tres :=
  (* var size *core.Size; if args[sizeBuildRuleArgIdx] != None { size = mustSize(s, name) } *)
  match (match d_size d with
         | None => Some None
         | Some n => match lookup_size (c_sizes c) n with Some v => Some (Some v) | None => None end
         end) with
  | None => TFail
  | Some size =>
      match f (call_env c d size build_deadline_call) with
      | DOk b =>
          if d_is_test d then
            match f (call_env c d size test_deadline_call) with
            | DOk t => TOk b (Some t)
            | _ => TFail
            end
          else TOk b None
      | _ => TFail
      end
  end.

Definition create_target : dconfig -> decl -> tres := create_target_with size_and_timeout.

(* the deadline in the unit of the protocol model (Model/C30.v counts milliseconds) *)
Definition deadline_ms (ns : Z) : N := Z.to_N (ns / 1000000).

Definition tres_eqb (a b : tres) : bool :=
  match a, b with
  | TOk x u, TOk y v => (x =? y) && option_eqb Z.eqb u v
  | TFail, TFail => true
  | _, _ => false
  end.
