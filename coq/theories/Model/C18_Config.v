(* C18 - the two paths on which a list / dict reaches a BUILD file WITHOUT going through the variable freeze of
   subinclude: the result of `+` (src/parse/asp/objects.go pyList.Operator, case Add) and a CONFIG entry set by a
   subincluded file (objects.go pyConfig: base + overlay, Get, IndexAssign, Copy, Freeze, Merge; interpreter.go
   Subinclude / scope.SetAll / interpretAll; rules/builtins.build_defs setdefault).  No proofs here.

   Two definitions are not written by hand but generated from the Go source (Gen/C18Pins.v, gotrans target C18Pins):
   list_add_tree (the decision tree of `case Add:`) and config_freeze_steps (what pyConfig.Freeze does). *)
From PlzV Require Import Base.Harness Model.C16_Syntax Model.C16_Ops Model.C16_Prim Model.C16_Eval Model.C16.
From PlzV Require Import Gen.C18Pins.

(* ---------------------------------------------------------------- `case Add:` as translated *)
Inductive operand_kind := KList | KFrozen | KOther.          (* dynamic type of the operand: pyList, pyFrozenList, else *)
Inductive add_res := RFresh | ROperand | RSelf | RPanic.     (* l.concat(..) / the operand itself / l itself / panic *)

Fixpoint add_eval (t : add_tree) (k : operand_kind) (lempty rempty : bool) : add_res :=
  match t with
  | AIf c thn els =>
      let holds := match c with
                   | AIsList => match k with KList => true | _ => false end       (* operand.(pyList): the wrapper does not match *)
                   | AIsFrozen => match k with KFrozen => true | _ => false end
                   | ALeftEmpty => lempty
                   | ARightEmpty => rempty
                   end in
      if holds then add_eval thn k lempty rempty else add_eval els k lempty rempty
  | AConcat | AConcatUnwrapped => RFresh
  | AReturnOperand => ROperand
  | AReturnSelf => RSelf
  | APanic => RPanic
  end.

Definition kind_of (v : value) : operand_kind :=
  match v with VList _ => KList | VFrozenList _ => KFrozen | _ => KOther end.

(* what the evaluator's `+` did, read off its result on the heap it started from *)
Definition classify_add (st : state) (r : res (value * state)) : add_res :=
  match r with
  | Ok (VList sl, _) => if Nat.eqb (s_arr sl) (length (arrays st)) then RFresh else RSelf   (* a NEW backing array, or not *)
  | Ok (_, _) => ROperand
  | _ => RPanic
  end.

(* ---------------------------------------------------------------- pyConfig *)
(* base: the shared *pyConfigBase; overlay: nil or the scope's own map; frozen: wrapped in pyFrozenConfig *)
Record config := Config { c_base : env; c_overlay : option env; c_frozen : bool }.

(* pyConfig.Get *)
Definition cfg_get (k : str) (c : config) : option value :=
  match c_overlay c with
  | Some o => match env_get k o with Some v => Some v | None => env_get k (c_base c) end
  | None => env_get k (c_base c)
  end.

(* pyConfig.IndexAssign; pyFrozenConfig.IndexAssign panics (None) *)
Definition cfg_index_assign (k : str) (v : value) (c : config) : option config :=
  if c_frozen c then None
  else Some (Config (c_base c) (Some (env_set k v (match c_overlay c with Some o => o | None => [] end))) false).

(* rules/builtins.build_defs:  def setdefault(self, key, default): if key in self: return self[key]; self[key] = default
   (pyFrozenConfig.Property refuses to hand the method out) *)
Definition cfg_setdefault (k : str) (v : value) (c : config) : option config :=
  if c_frozen c then None
  else match cfg_get k c with Some _ => Some c | None => cfg_index_assign k v c end.

(* pyConfig.Copy: the base only *)
Definition cfg_copy (c : config) : config := Config (c_base c) None false.

(* pyConfig.Merge: every entry of the other overlay is stored into this one (Go map iteration order; the keys of a
   map are distinct, so the order does not matter - Proof/C18_Config.v merge_get) *)
Definition cfg_merge (c other : config) : config :=
  Config (c_base c)
         (Some (fold_left (fun acc kv => env_set (fst kv) (snd kv) acc)
                          (match c_overlay other with Some o => o | None => [] end)
                          (match c_overlay c with Some o => o | None => [] end)))
         (c_frozen c).

(* pyConfig.Freeze, interpreting the generated steps *)
Definition cfg_freeze_one (fuel : nat) (stp : cfg_freeze_step) (c : config) (st : state) : res (config * state) :=
  match stp with
  | FWrapCopy => Ok (Config (c_base c) (c_overlay c) true, st)             (* &pyFrozenConfig{pyConfig: *c}: the SAME overlay map *)
  | FCopyOverlay => Ok (c, st)                                             (* a copy of the map: the same entries *)
  | FFreezeOverlay =>                                                      (* pyDict.Freeze on the overlay: every value frozen *)
      match c_overlay c with
      | None => Ok (c, st)
      | Some o => do '(o', st1) <- freeze_env fuel o st; Ok (Config (c_base c) (Some o') (c_frozen c), st1)
      end
  end.

Fixpoint cfg_freeze (steps : list cfg_freeze_step) (fuel : nat) (c : config) (st : state) : res (config * state) :=
  match steps with
  | [] => Ok (c, st)
  | stp :: r => do '(c1, st1) <- cfg_freeze_one fuel stp c st; cfg_freeze r fuel c1 st1
  end.

(* the CONFIG of a package that subincluded a file whose scope ended with config cA:
   Subinclude: locals := s.Freeze(); if s.config.overlay == nil { delete(locals, "CONFIG") };
   scope.SetAll in the includer: s.config.Merge(frozen CONFIG), where s.config = root.Copy() (interpretAll) *)
Definition includer_config (steps : list cfg_freeze_step) (fuel : nat) (root cA : config) (st : state) : res (config * state) :=
  match c_overlay cA with
  | None => Ok (cfg_copy root, st)
  | Some _ => do '(cF, st1) <- cfg_freeze steps fuel cA st; Ok (cfg_merge (cfg_copy root) cF, st1)
  end.

(* ---------------------------------------------------------------- CONFIG round trips *)
Inductive cfgop :=
| CfgSetDefault (k : str) (e : expr)      (* CONFIG.setdefault("k", e) *)
| CfgAssign (k : str) (e : expr)          (* CONFIG["k"] = e *)
| CfgPlain (n : str) (e : expr).          (* n = e : an ordinary global next to it *)

Inductive cfgread := RProp | RIndex | RGet.   (* CONFIG.K   CONFIG["K"]   CONFIG.get("K") *)

Fixpoint exec_cfgops (fuel : nat) (ops : list cfgop) (c : config) (st : state) : res (config * state) :=
  match ops with
  | [] => Ok (c, st)
  | CfgSetDefault k e :: r =>
      do '(v, st1) <- eval_expr Asp [] fuel e st;
      match cfg_setdefault k v c with Some c1 => exec_cfgops fuel r c1 st1 | None => Err EType end
  | CfgAssign k e :: r =>
      do '(v, st1) <- eval_expr Asp [] fuel e st;
      match cfg_index_assign k v c with Some c1 => exec_cfgops fuel r c1 st1 | None => Err EType end
  | CfgPlain n e :: r =>
      do '(v, st1) <- eval_expr Asp [] fuel e st; exec_cfgops fuel r c (set_var n v st1)
  end.

Definition cfg_read (how : cfgread) (k : str) (c : config) : res value :=
  match cfg_get k c with
  | Some v => Ok v
  | None => match how with RGet => Ok VNone | _ => Err EType end      (* "Config has no such property" / "unknown config key" *)
  end.

(* the entries of newConfig's base the generated programs touch (both are set unconditionally by newConfig) *)
Definition case_base : env := [(s "DEFAULT_TESTONLY", VBool false); (s "DEFAULT_VISIBILITY", VNone)].

Definition push_scope (st : state) : nat * state :=
  let idx := length (fscopes st) in
  (idx, set_locals [] (set_cur idx (set_fscopes (fscopes st ++ [[]]) st))).

(* One package.  imported = true:  the package is   subinclude(A); X = CONFIG...; body   and A consists of `ops`;
   imported = false: the package is   ops; X = CONFIG...; body. *)
Definition run_cfg (fuel : nat) (imported : bool) (ops : list cfgop) (reads : list (str * cfgread * str)) (body : prog) : outcome :=
  let root := Config case_base None false in
  let setup : res (config * state * nat) :=
    if imported then
      let '(ia, stA) := push_scope empty_state in
      do '(cA, st1) <- exec_cfgops fuel ops (cfg_copy root) stA;
      do '(frozen, st2) <- freeze_env 32 (nth ia (fscopes st1) []) st1;
      let st3 := set_fscopes (list_set ia frozen (fscopes st2)) st2 in
      do '(cB, st4) <- includer_config config_freeze_steps 32 root cA st3;
      let '(ib, stB) := push_scope st4 in
      Ok (cB, fold_left (fun acc kv => set_var (fst kv) (snd kv) acc) frozen stB, ib)
    else
      let '(ib, stB) := push_scope empty_state in
      do '(cB, st1) <- exec_cfgops fuel ops (cfg_copy root) stB;
      Ok (cB, st1, ib) in
  match setup with
  | Ok (cB, st, ib) =>
      let bound := (fix go (l : list (str * cfgread * str)) (st0 : state) : res state :=
                      match l with
                      | [] => Ok st0
                      | (x, how, k) :: r => do v <- cfg_read how k cB; go r (set_var x v st0)
                      end) reads st in
      match bound with
      | Ok st1 =>
          match exec_top Asp [] fuel body st1 with
          | (None, false, st2) => let g := render_env Asp st2 (nth ib (fscopes st2) []) in OGlobals g g
          | (Some EType, _, _) => OErr
          | _ => OUnsup
          end
      | Err EType => OErr
      | _ => OUnsup
      end
  | Err EType => OErr
  | _ => OUnsup
  end.
