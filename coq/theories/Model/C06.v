(* C06 - cycle detection.  Executable model of cycleDetector.Check (src/core/cycle_detector.go)
   with c.stopped = false throughout.  No proofs here.

   A target is its index; the resolved dependency graph is an adjacency list: entry v is what
   target.Dependencies() returns for target v (in that order, duplicates kept).  An index outside
   the list has no dependencies. *)
From PlzV Require Import Base.Harness.

Definition graph := list (list nat).
Definition deps (g : graph) (v : nat) : list nat := nth v g [].

(* the two Go maps used as sets *)
Definition mem (v : nat) (l : list nat) : bool := existsb (Nat.eqb v) l.
Fixpoint del (v : nat) (l : list nat) : list nat :=
  match l with
  | [] => []
  | x :: r => if Nat.eqb v x then del v r else x :: del v r
  end.

Record state := St { partial : list nat; complete : list nat }.

(* what visit returns, plus the maps as it leaves them.  (nil, false) is NoCyc; a non-nil cycle is
   Cyc cycle done - after it nothing reads the maps again. *)
Inductive res :=
| OutOfFuel
| NoCyc (st : state)
| Cyc (cycle : list nat) (done : bool).

(* for _, dep := range target.Dependencies() {
     if cycle, done := visit(dep); cycle != nil {
       if done || target == cycle[len(cycle)-1] { return cycle, true }
       return append([]*BuildTarget{target}, cycle...), false } }
   delete(partial, target); complete[target] = struct{}{}; return nil, false *)
Fixpoint visit_deps (vis : state -> nat -> res) (target : nat) (ds : list nat) (st : state) : res :=
  match ds with
  | [] => NoCyc (St (del target (partial st)) (target :: complete st))
  | dep :: ds' =>
      match vis st dep with
      | OutOfFuel => OutOfFuel
      | NoCyc st' => visit_deps vis target ds' st'
      | Cyc cycle done =>
          if done || Nat.eqb target (last cycle 0) then Cyc cycle true
          else Cyc (target :: cycle) false
      end
  end.

(* if complete[target] { return nil, false } else if partial[target] { return [target], false }
   partial[target] = struct{}{}; ... *)
Fixpoint visit (fuel : nat) (g : graph) (st : state) (target : nat) : res :=
  match fuel with
  | O => OutOfFuel
  | S f =>
      if mem target (complete st) then NoCyc st
      else if mem target (partial st) then Cyc [target] false
      else visit_deps (visit f g) target (deps g target) (St (target :: partial st) (complete st))
  end.

Inductive outcome :=
| Fuel                       (* the model ran out of fuel: excluded by the theorems *)
| Clean                      (* Check returned nil *)
| Found (cycle : list nat).  (* Check returned &errCycle{Cycle: cycle} *)

(* for _, target := range c.graph.AllTargets() {
     if _, present := complete[target]; !present {
       if cycle, _ := visit(target); cycle != nil { return &errCycle{Cycle: cycle} } } }
   return nil *)
Fixpoint check_loop (fuel : nat) (g : graph) (order : list nat) (st : state) : outcome :=
  match order with
  | [] => Clean
  | target :: rest =>
      if mem target (complete st) then check_loop fuel g rest st
      else match visit fuel g st target with
           | OutOfFuel => Fuel
           | NoCyc st' => check_loop fuel g rest st'
           | Cyc cycle _ => Found cycle
           end
  end.

(* the recursion depth is at most the number of targets, plus one frame that only looks at the maps *)
Definition fuel_for (g : graph) : nat := S (length g).

Definition detect (g : graph) (order : list nat) : outcome :=
  check_loop (fuel_for g) g order (St [] []).

(* ---- one detector kept between runs, on a graph that is still being resolved ---- *)
(* BuildState keeps ONE cycleDetector (state.progress.cycleDetector) and runs Check every time the
   build goes idle, while targets are still being added and dependencies resolved.  A world is
   everything such a run can depend on:
     resolved : entry v = Dependencies() of target v (targets are numbered in the order of AddTarget)
     declared : the pairs (target, declared dependency label) - DeclaredDependencies(); a declared
                label may be resolved to a target, not yet resolved, or not (yet) a target at all
     stopped  : the only field besides the graph pointer that type cycleDetector has.
   partial and complete are locals of Check: nothing of them survives a run. *)
Record world := W { resolved : graph; declared : list (nat * nat); stopped : bool }.

Inductive event :=
| EAddTarget                     (* graph.AddTarget(t): the new target is number |resolved| *)
| EDeclare (a b : nat)           (* a.AddDependency(label b): declared, not resolved *)
| EResolve (a b pos : nat)       (* a.resolveDependency(label b, target b): b is appended to the deps of the
                                    declared label b; Dependencies() is sorted by label, pos is where b lands *)
| EStop                          (* cycleDetector.Stop() *)
| ECheck (order : list nat).     (* cycleDetector.Check() with AllTargets() = order *)

Fixpoint insert_at (pos x : nat) (l : list nat) : list nat :=
  match pos, l with
  | O, _ => x :: l
  | S _, [] => [x]
  | S p, y :: r => y :: insert_at p x r
  end.

Fixpoint upd_row (a : nat) (f : list nat -> list nat) (g : graph) : graph :=
  match g, a with
  | [], _ => []
  | row :: r, O => f row :: r
  | row :: r, S a' => row :: upd_row a' f r
  end.

Definition same_decl (a b : nat) (p : nat * nat) : bool := Nat.eqb (fst p) a && Nat.eqb (snd p) b.

(* dependencyInfo(label) == nil -> append a depInfo, else reuse it *)
Definition add_decl (a b : nat) (d : list (nat * nat)) : list (nat * nat) :=
  if existsb (same_decl a b) d then d else d ++ [(a, b)].

(* len(target.DeclaredDependencies()) *)
Definition decl_count (d : list (nat * nat)) (a : nat) : nat :=
  length (filter (fun p => Nat.eqb (fst p) a) d).

Definition apply_event (w : world) (e : event) : world :=
  match e with
  | EAddTarget => W (resolved w ++ [[]]) (declared w) (stopped w)
  | EDeclare a b => W (resolved w) (add_decl a b (declared w)) (stopped w)
  | EResolve a b pos => W (upd_row a (insert_at pos b) (resolved w)) (add_decl a b (declared w)) (stopped w)
  | EStop => W (resolved w) (declared w) true
  | ECheck _ => w                (* a run of Check leaves nothing behind *)
  end.

(* if c.stopped { return nil }; otherwise the pass over the currently resolved edges, and only them *)
Definition check_world (chk : graph -> list nat -> outcome) (w : world) (order : list nat) : outcome :=
  if stopped w then Clean else chk (resolved w) order.

(* one entry per Check of the session: the world it ran in, its AllTargets() order, what it returned *)
Record ran := Ran { r_world : world; r_order : list nat; r_out : outcome }.

Fixpoint run_session (chk : graph -> list nat -> outcome) (w : world) (es : list event) : list ran :=
  match es with
  | [] => []
  | ECheck order :: r => Ran w order (check_world chk w order) :: run_session chk w r
  | e :: r => run_session chk (apply_event w e) r
  end.

(* NewGraph(), &cycleDetector{graph: graph} *)
Definition world0 : world := W [] [] false.

(* what the harness observes at one Check: Dependencies() of every target, len(DeclaredDependencies())
   of every target, the returned errCycle.Cycle *)
Definition observation := (graph * list nat * option (list nat))%type.

Definition ran_matches (r : ran) (o : observation) : bool :=
  match o with
  | (snap, decls, obs) =>
      list_eqb (list_eqb Nat.eqb) (resolved (r_world r)) snap
      && list_eqb Nat.eqb (map (decl_count (declared (r_world r))) (seq 0 (length (resolved (r_world r))))) decls
      && match r_out r, obs with
         | Clean, None => true
         | Found cyc, Some cyc' => list_eqb Nat.eqb cyc cyc'
         | _, _ => false
         end
  end.

Fixpoint all_match (rs : list ran) (os : list observation) : bool :=
  match rs, os with
  | [], [] => true
  | r :: rs', o :: os' => ran_matches r o && all_match rs' os'
  | _, _ => false
  end.

(* ---- the kinds of dependency edges (depInfo flags) and the accessors of target.dependencies ---- *)
(* type depInfo: source (only in srcs), internal, runtime, data.  exported does not enter any accessor
   modelled here. *)
Record flags := Fl { f_source : bool; f_internal : bool; f_runtime : bool; f_data : bool }.
Definition plain : flags := Fl false false false false.

(* one entry of target.dependencies: the declared label (= the number of the target that carries it),
   its flags, the targets it was resolved to *)
Record dinfo := DI { d_label : nat; d_flags : flags; d_deps : list nat }.

Inductive kop :=
| KDeclare (b : nat) (source internal runtime : bool)   (* AddMaybeExportedDependency(label b, false, source, internal, runtime) *)
| KDatum (b : nat)                                      (* AddDatum(label b) *)
| KResolve (b : nat).                                   (* resolveDependency(label b, target b) *)

(* dependencyInfo(label): the first entry that declares it *)
Fixpoint upd_info (b : nat) (f : dinfo -> dinfo) (l : list dinfo) : option (list dinfo) :=
  match l with
  | [] => None
  | di :: r => if Nat.eqb (d_label di) b then Some (f di :: r)
               else match upd_info b f r with Some r' => Some (di :: r') | None => None end
  end.

(* info.source = info.source && source; ... ; info.data = false *)
Definition merge_flags (source internal runtime : bool) (di : dinfo) : dinfo :=
  DI (d_label di)
     (Fl (f_source (d_flags di) && source) (f_internal (d_flags di) && internal) (f_runtime (d_flags di) && runtime) false)
     (d_deps di).

Definition declare (b : nat) (source internal runtime : bool) (l : list dinfo) : list dinfo :=
  match upd_info b (merge_flags source internal runtime) l with
  | Some l' => l'
  | None => l ++ [DI b (Fl source internal runtime false) []]
  end.

Definition set_data (di : dinfo) : dinfo :=
  DI (d_label di) (Fl (f_source (d_flags di)) (f_internal (d_flags di)) (f_runtime (d_flags di)) true) (d_deps di).

Definition add_dep (b : nat) (di : dinfo) : dinfo := DI (d_label di) (d_flags di) (d_deps di ++ [b]).

Definition apply_kop (l : list dinfo) (o : kop) : list dinfo :=
  match o with
  | KDeclare b s i r => declare b s i r l
  | KDatum b =>                      (* target.AddDependency(label); target.dependencyInfo(label).data = true *)
      let l1 := declare b false false false l in
      match upd_info b set_data l1 with Some l' => l' | None => l1 end
  | KResolve b =>                    (* info == nil: append depInfo{declared: &label}; info.deps = append(info.deps, dep) *)
      match upd_info b (add_dep b) l with
      | Some l' => l'
      | None => l ++ [DI b plain [b]]
      end
  end.

(* target.dependencies of every target *)
Definition kworld := list (list dinfo).

Fixpoint upd_row_gen {A : Type} (a : nat) (f : A -> A) (g : list A) : list A :=
  match g, a with
  | [], _ => []
  | row :: r, O => f row :: r
  | row :: r, S a' => row :: upd_row_gen a' f r
  end.

Definition kw_apply (w : kworld) (ao : nat * kop) : kworld := upd_row_gen (fst ao) (fun l => apply_kop l (snd ao)) w.

(* BuildDependencies: if !deps.runtime && !deps.data && !deps.internal && !deps.source *)
Definition excluded_build (f : flags) : bool := f_runtime f || f_data f || f_internal f || f_source f.

Definition row_all (l : list dinfo) : list nat := flat_map d_deps l.
Definition row_build (l : list dinfo) : list nat :=
  flat_map (fun di => if excluded_build (d_flags di) then [] else d_deps di) l.

(* sort.Sort(ret): by label.  rk t = the place of target t's label among the labels of the graph
   (labels are distinct, so equal keys are the same target and stability does not matter). *)
Fixpoint insert_by (rk : nat -> nat) (x : nat) (l : list nat) : list nat :=
  match l with
  | [] => [x]
  | y :: r => if Nat.leb (rk x) (rk y) then x :: l else y :: insert_by rk x r
  end.
Definition sort_by (rk : nat -> nat) (l : list nat) : list nat := fold_right (insert_by rk) [] l.

Definition rank_fn (ranks : list nat) (t : nat) : nat := nth t ranks 0.

(* Dependencies() of every target: what queueTargetAsync waits for, and what Check walks *)
Definition wait_graph (ranks : list nat) (w : kworld) : graph := map (fun l => sort_by (rank_fn ranks) (row_all l)) w.
(* BuildDependencies() of every target *)
Definition build_graph (ranks : list nat) (w : kworld) : graph := map (fun l => sort_by (rank_fn ranks) (row_build l)) w.

Definition kworld0 (n : nat) : kworld := repeat [] n.
Definition kw_run (n : nat) (ops : list (nat * kop)) : kworld := fold_left kw_apply ops (kworld0 n).

(* ---- target states while the build waits (queueResolvedTarget / queueTargetAsync / the build step) ---- *)
(* type BuildTargetState, in declaration order *)
Inductive tstate := Inactive | Semiactive | Active | Pending | Building | Stopped | Built | Cached | Unchanged
                  | Reused | BuiltRemotely | ReusedRemotely | DependencyFailed | Failed.
Definition rank (s : tstate) : N :=
  match s with
  | Inactive => 0 | Semiactive => 1 | Active => 2 | Pending => 3 | Building => 4 | Stopped => 5 | Built => 6
  | Cached => 7 | Unchanged => 8 | Reused => 9 | BuiltRemotely => 10 | ReusedRemotely => 11
  | DependencyFailed => 12 | Failed => 13
  end%N.
Definition tstate_eqb (a b : tstate) : bool := N.eqb (rank a) (rank b).
(* IsBuilt: Built <= s && s < DependencyFailed *)
Definition is_built (s : tstate) : bool := N.leb (rank Built) (rank s) && N.ltb (rank s) (rank DependencyFailed).
(* queueTargetAsync: t.State() >= DependencyFailed *)
Definition is_failed (s : tstate) : bool := N.leb (rank DependencyFailed) (rank s).

(* the states of all targets, and the targets that were built successfully, latest first *)
Record lworld := LW { l_state : list tstate; l_built : list nat }.
Definition state_of (w : lworld) (v : nat) : tstate := nth v (l_state w) Inactive.

Fixpoint set_nth {A : Type} (k : nat) (x : A) (l : list A) : list A :=
  match l, k with
  | [], _ => []
  | _ :: r, O => x :: r
  | y :: r, S k' => y :: set_nth k' x r
  end.
Definition set_state (w : lworld) (v : nat) (s : tstate) : lworld := LW (set_nth v s (l_state w)) (l_built w).

(* for _, t := range target.Dependencies() { t.WaitForBuild(); if t.State() >= DependencyFailed {...} }:
   the first dependency, in the order of Dependencies(), that has not been built successfully *)
Fixpoint first_unbuilt (w : lworld) (ds : list nat) : option nat :=
  match ds with
  | [] => None
  | d :: r => if is_built (state_of w d) then first_unbuilt w r else Some d
  end.

Inductive levent :=
| LQueue (t : nat)                 (* queueResolvedTarget: SyncUpdateState(Inactive, Active), go queueTargetAsync *)
| LDepFailed (t d : nat)           (* queueTargetAsync(t): d is the dependency it is waiting for and d finished failed:
                                      target.SetState(DependencyFailed); target.FinishBuild() *)
| LReady (t : nat)                 (* queueTargetAsync(t): every dependency built: SyncUpdateState(Active, Pending), addPendingBuild *)
| LBuild (t : nat) (r : tstate).   (* the build step: SetState(r) with r a built state or Failed; FinishBuild() *)

(* None: the event cannot happen in this world *)
Definition lstep (g : graph) (w : lworld) (e : levent) : option lworld :=
  match e with
  | LQueue t => if tstate_eqb (state_of w t) Inactive && Nat.ltb t (length (l_state w)) then Some (set_state w t Active) else None
  | LDepFailed t d =>
      if tstate_eqb (state_of w t) Active then
        match first_unbuilt w (deps g t) with
        | Some d' => if Nat.eqb d d' && is_failed (state_of w d) then Some (set_state w t DependencyFailed) else None
        | None => None
        end
      else None
  | LReady t =>
      if tstate_eqb (state_of w t) Active then
        match first_unbuilt w (deps g t) with None => Some (set_state w t Pending) | Some _ => None end
      else None
  | LBuild t r =>
      if tstate_eqb (state_of w t) Pending then
        if is_built r then Some (LW (set_nth t r (l_state w)) (t :: l_built w))
        else if tstate_eqb r Failed then Some (set_state w t Failed) else None
      else None
  end.

(* any sequence of attempts; one that cannot happen changes nothing *)
Definition ldo (g : graph) (w : lworld) (e : levent) : lworld :=
  match lstep g w e with Some w' => w' | None => w end.
Definition lrun (g : graph) (w : lworld) (es : list levent) : lworld := fold_left (ldo g) es w.

Definition lworld0 (n : nat) : lworld := LW (repeat Inactive n) [].

(* One fair schedule, to compare with a real run that was left to go quiet: what target t can do now.
   plan: how the build step of each target ends if it is ever reached. *)
Definition target_events (g : graph) (plan : list tstate) (w : lworld) (t : nat) : list levent :=
  if tstate_eqb (state_of w t) Active then
    map LQueue (deps g t) ++
    match first_unbuilt w (deps g t) with None => [LReady t] | Some d => [LDepFailed t d] end
  else if tstate_eqb (state_of w t) Pending then [LBuild t (nth t plan Built)]
  else [].

Fixpoint round (g : graph) (plan : list tstate) (ts : list nat) (w : lworld) : lworld :=
  match ts with
  | [] => w
  | t :: r => round g plan r (lrun g w (target_events g plan w t))
  end.

Fixpoint settle (g : graph) (plan : list tstate) (fuel : nat) (w : lworld) : lworld :=
  match fuel with
  | O => w
  | S f => settle g plan f (round g plan (seq 0 (length (l_state w))) w)
  end.

(* QueueTarget(root) for every root, then everything that can happen happens *)
Definition settled (g : graph) (roots : list nat) (plan : list tstate) : lworld :=
  settle g plan (3 * length g + 3) (lrun g (lworld0 (length g)) (map LQueue roots)).

Definition obs_matches (o : outcome) (obs : option (list nat)) : bool :=
  match o, obs with
  | Clean, None => true
  | Found cyc, Some cyc' => list_eqb Nat.eqb cyc cyc'
  | _, _ => false
  end.

(* ---- correspondence cases ---- *)
(* g: Dependencies() of every target; order: AllTargets(); observed: the returned errCycle.Cycle *)
Inductive case :=
| CCheck (g : graph) (order : list nat) (observed : option (list nat))
(* es: what was done to one graph and ONE detector, in order, starting from NewGraph(); observed: one
   observation per ECheck of es *)
| CSession (es : list event) (observed : list observation)
(* n targets; ranks: the place of every target's label in label order; ops: the declarations and
   resolutions, in order; observed: Dependencies() and BuildDependencies() of every target, the result of Check *)
| CKinded (n : nat) (ranks : list nat) (ops : list (nat * kop)) (order : list nat)
          (obs_all obs_build : graph) (observed : option (list nat))
(* g: Dependencies() of every target after the real queueing code went quiet; roots: the targets given to
   QueueTarget; plan: how each build step ends; observed: State() of every target, the result of Check *)
| CLife (g : graph) (roots : list nat) (plan : list tstate) (order : list nat)
        (obs_states : list tstate) (observed : option (list nat)).

Definition graph_eqb : graph -> graph -> bool := list_eqb (list_eqb Nat.eqb).

Definition check (c : case) : bool :=
  match c with
  | CCheck g order obs => obs_matches (detect g order) obs
  | CSession es obs => all_match (run_session detect world0 es) obs
  | CKinded n ranks ops order obs_all obs_build obs =>
      let w := kw_run n ops in
      graph_eqb (wait_graph ranks w) obs_all && graph_eqb (build_graph ranks w) obs_build
      && obs_matches (detect (wait_graph ranks w) order) obs
  | CLife g roots plan order obs_states obs =>
      list_eqb tstate_eqb (l_state (settled g roots plan)) obs_states
      && obs_matches (detect g order) obs
  end.
