(* C06 - cycle detection.  Executable model of cycleDetector.Check (src/core/cycle_detector.go)
   with c.stopped = false throughout.  No proofs here.

   A target is its index; the resolved dependency graph is an adjacency list: entry v is what
   target.Dependencies() returns for target v (in that order, duplicates kept).  An index outside
   the list has no dependencies. *)
From PlzV Require Import Base.Harness.

Definition graph := list (list nat).
Definition deps (g : graph) (v : nat) : list nat := nth v g [].

(* the two Go maps used as sets *)
Definition mem (v : nat) (l : list nat) : bool := existsb (Nat.eqb v) l.
Fixpoint del (v : nat) (l : list nat) : list nat :=
  match l with
  | [] => []
  | x :: r => if Nat.eqb v x then del v r else x :: del v r
  end.

Record state := St { partial : list nat; complete : list nat }.

(* what visit returns, plus the maps as it leaves them.  (nil, false) is NoCyc; a non-nil cycle is
   Cyc cycle done - after it nothing reads the maps again. *)
Inductive res :=
| OutOfFuel
| NoCyc (st : state)
| Cyc (cycle : list nat) (done : bool).

(* for _, dep := range target.Dependencies() {
     if cycle, done := visit(dep); cycle != nil {
       if done || target == cycle[len(cycle)-1] { return cycle, true }
       return append([]*BuildTarget{target}, cycle...), false } }
   delete(partial, target); complete[target] = struct{}{}; return nil, false *)
Fixpoint visit_deps (vis : state -> nat -> res) (target : nat) (ds : list nat) (st : state) : res :=
  match ds with
  | [] => NoCyc (St (del target (partial st)) (target :: complete st))
  | dep :: ds' =>
      match vis st dep with
      | OutOfFuel => OutOfFuel
      | NoCyc st' => visit_deps vis target ds' st'
      | Cyc cycle done =>
          if done || Nat.eqb target (last cycle 0) then Cyc cycle true
          else Cyc (target :: cycle) false
      end
  end.

(* if complete[target] { return nil, false } else if partial[target] { return [target], false }
   partial[target] = struct{}{}; ... *)
Fixpoint visit (fuel : nat) (g : graph) (st : state) (target : nat) : res :=
  match fuel with
  | O => OutOfFuel
  | S f =>
      if mem target (complete st) then NoCyc st
      else if mem target (partial st) then Cyc [target] false
      else visit_deps (visit f g) target (deps g target) (St (target :: partial st) (complete st))
  end.

Inductive outcome :=
| Fuel                       (* the model ran out of fuel: excluded by the theorems *)
| Clean                      (* Check returned nil *)
| Found (cycle : list nat).  (* Check returned &errCycle{Cycle: cycle} *)

(* for _, target := range c.graph.AllTargets() {
     if _, present := complete[target]; !present {
       if cycle, _ := visit(target); cycle != nil { return &errCycle{Cycle: cycle} } } }
   return nil *)
Fixpoint check_loop (fuel : nat) (g : graph) (order : list nat) (st : state) : outcome :=
  match order with
  | [] => Clean
  | target :: rest =>
      if mem target (complete st) then check_loop fuel g rest st
      else match visit fuel g st target with
           | OutOfFuel => Fuel
           | NoCyc st' => check_loop fuel g rest st'
           | Cyc cycle _ => Found cycle
           end
  end.

(* the recursion depth is at most the number of targets, plus one frame that only looks at the maps *)
Definition fuel_for (g : graph) : nat := S (length g).

Definition detect (g : graph) (order : list nat) : outcome :=
  check_loop (fuel_for g) g order (St [] []).

(* ---- correspondence cases ---- *)
(* g: Dependencies() of every target; order: AllTargets(); observed: the returned errCycle.Cycle *)
Inductive case :=
| CCheck (g : graph) (order : list nat) (observed : option (list nat)).

Definition check (c : case) : bool :=
  match c with
  | CCheck g order obs =>
      match detect g order, obs with
      | Clean, None => true
      | Found cyc, Some cyc' => list_eqb Nat.eqb cyc cyc'
      | _, _ => false
      end
  end.
