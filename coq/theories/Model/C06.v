(* C06 - cycle detection.  Executable model of cycleDetector.Check (src/core/cycle_detector.go)
   with c.stopped = false throughout.  No proofs here.

   A target is its index; the resolved dependency graph is an adjacency list: entry v is what
   target.Dependencies() returns for target v (in that order, duplicates kept).  An index outside
   the list has no dependencies. *)
From PlzV Require Import Base.Harness.

Definition graph := list (list nat).
Definition deps (g : graph) (v : nat) : list nat := nth v g [].

(* the two Go maps used as sets *)
Definition mem (v : nat) (l : list nat) : bool := existsb (Nat.eqb v) l.
Fixpoint del (v : nat) (l : list nat) : list nat :=
  match l with
  | [] => []
  | x :: r => if Nat.eqb v x then del v r else x :: del v r
  end.

Record state := St { partial : list nat; complete : list nat }.

(* what visit returns, plus the maps as it leaves them.  (nil, false) is NoCyc; a non-nil cycle is
   Cyc cycle done - after it nothing reads the maps again. *)
Inductive res :=
| OutOfFuel
| NoCyc (st : state)
| Cyc (cycle : list nat) (done : bool).

(* for _, dep := range target.Dependencies() {
     if cycle, done := visit(dep); cycle != nil {
       if done || target == cycle[len(cycle)-1] { return cycle, true }
       return append([]*BuildTarget{target}, cycle...), false } }
   delete(partial, target); complete[target] = struct{}{}; return nil, false *)
Fixpoint visit_deps (vis : state -> nat -> res) (target : nat) (ds : list nat) (st : state) : res :=
  match ds with
  | [] => NoCyc (St (del target (partial st)) (target :: complete st))
  | dep :: ds' =>
      match vis st dep with
      | OutOfFuel => OutOfFuel
      | NoCyc st' => visit_deps vis target ds' st'
      | Cyc cycle done =>
          if done || Nat.eqb target (last cycle 0) then Cyc cycle true
          else Cyc (target :: cycle) false
      end
  end.

(* if complete[target] { return nil, false } else if partial[target] { return [target], false }
   partial[target] = struct{}{}; ... *)
Fixpoint visit (fuel : nat) (g : graph) (st : state) (target : nat) : res :=
  match fuel with
  | O => OutOfFuel
  | S f =>
      if mem target (complete st) then NoCyc st
      else if mem target (partial st) then Cyc [target] false
      else visit_deps (visit f g) target (deps g target) (St (target :: partial st) (complete st))
  end.

Inductive outcome :=
| Fuel                       (* the model ran out of fuel: excluded by the theorems *)
| Clean                      (* Check returned nil *)
| Found (cycle : list nat).  (* Check returned &errCycle{Cycle: cycle} *)

(* for _, target := range c.graph.AllTargets() {
     if _, present := complete[target]; !present {
       if cycle, _ := visit(target); cycle != nil { return &errCycle{Cycle: cycle} } } }
   return nil *)
Fixpoint check_loop (fuel : nat) (g : graph) (order : list nat) (st : state) : outcome :=
  match order with
  | [] => Clean
  | target :: rest =>
      if mem target (complete st) then check_loop fuel g rest st
      else match visit fuel g st target with
           | OutOfFuel => Fuel
           | NoCyc st' => check_loop fuel g rest st'
           | Cyc cycle _ => Found cycle
           end
  end.

(* the recursion depth is at most the number of targets, plus one frame that only looks at the maps *)
Definition fuel_for (g : graph) : nat := S (length g).

Definition detect (g : graph) (order : list nat) : outcome :=
  check_loop (fuel_for g) g order (St [] []).

(* ---- one detector kept between runs, on a graph that is still being resolved ---- *)
(* BuildState keeps ONE cycleDetector (state.progress.cycleDetector) and runs Check every time the
   build goes idle, while targets are still being added and dependencies resolved.  A world is
   everything such a run can depend on:
     resolved : entry v = Dependencies() of target v (targets are numbered in the order of AddTarget)
     declared : the pairs (target, declared dependency label) - DeclaredDependencies(); a declared
                label may be resolved to a target, not yet resolved, or not (yet) a target at all
     stopped  : the only field besides the graph pointer that type cycleDetector has.
   partial and complete are locals of Check: nothing of them survives a run. *)
Record world := W { resolved : graph; declared : list (nat * nat); stopped : bool }.

Inductive event :=
| EAddTarget                     (* graph.AddTarget(t): the new target is number |resolved| *)
| EDeclare (a b : nat)           (* a.AddDependency(label b): declared, not resolved *)
| EResolve (a b pos : nat)       (* a.resolveDependency(label b, target b): b is appended to the deps of the
                                    declared label b; Dependencies() is sorted by label, pos is where b lands *)
| EStop                          (* cycleDetector.Stop() *)
| ECheck (order : list nat).     (* cycleDetector.Check() with AllTargets() = order *)

Fixpoint insert_at (pos x : nat) (l : list nat) : list nat :=
  match pos, l with
  | O, _ => x :: l
  | S _, [] => [x]
  | S p, y :: r => y :: insert_at p x r
  end.

Fixpoint upd_row (a : nat) (f : list nat -> list nat) (g : graph) : graph :=
  match g, a with
  | [], _ => []
  | row :: r, O => f row :: r
  | row :: r, S a' => row :: upd_row a' f r
  end.

Definition same_decl (a b : nat) (p : nat * nat) : bool := Nat.eqb (fst p) a && Nat.eqb (snd p) b.

(* dependencyInfo(label) == nil -> append a depInfo, else reuse it *)
Definition add_decl (a b : nat) (d : list (nat * nat)) : list (nat * nat) :=
  if existsb (same_decl a b) d then d else d ++ [(a, b)].

(* len(target.DeclaredDependencies()) *)
Definition decl_count (d : list (nat * nat)) (a : nat) : nat :=
  length (filter (fun p => Nat.eqb (fst p) a) d).

Definition apply_event (w : world) (e : event) : world :=
  match e with
  | EAddTarget => W (resolved w ++ [[]]) (declared w) (stopped w)
  | EDeclare a b => W (resolved w) (add_decl a b (declared w)) (stopped w)
  | EResolve a b pos => W (upd_row a (insert_at pos b) (resolved w)) (add_decl a b (declared w)) (stopped w)
  | EStop => W (resolved w) (declared w) true
  | ECheck _ => w                (* a run of Check leaves nothing behind *)
  end.

(* if c.stopped { return nil }; otherwise the pass over the currently resolved edges, and only them *)
Definition check_world (chk : graph -> list nat -> outcome) (w : world) (order : list nat) : outcome :=
  if stopped w then Clean else chk (resolved w) order.

(* one entry per Check of the session: the world it ran in, its AllTargets() order, what it returned *)
Record ran := Ran { r_world : world; r_order : list nat; r_out : outcome }.

Fixpoint run_session (chk : graph -> list nat -> outcome) (w : world) (es : list event) : list ran :=
  match es with
  | [] => []
  | ECheck order :: r => Ran w order (check_world chk w order) :: run_session chk w r
  | e :: r => run_session chk (apply_event w e) r
  end.

(* NewGraph(), &cycleDetector{graph: graph} *)
Definition world0 : world := W [] [] false.

(* what the harness observes at one Check: Dependencies() of every target, len(DeclaredDependencies())
   of every target, the returned errCycle.Cycle *)
Definition observation := (graph * list nat * option (list nat))%type.

Definition ran_matches (r : ran) (o : observation) : bool :=
  match o with
  | (snap, decls, obs) =>
      list_eqb (list_eqb Nat.eqb) (resolved (r_world r)) snap
      && list_eqb Nat.eqb (map (decl_count (declared (r_world r))) (seq 0 (length (resolved (r_world r))))) decls
      && match r_out r, obs with
         | Clean, None => true
         | Found cyc, Some cyc' => list_eqb Nat.eqb cyc cyc'
         | _, _ => false
         end
  end.

Fixpoint all_match (rs : list ran) (os : list observation) : bool :=
  match rs, os with
  | [], [] => true
  | r :: rs', o :: os' => ran_matches r o && all_match rs' os'
  | _, _ => false
  end.

(* ---- correspondence cases ---- *)
(* g: Dependencies() of every target; order: AllTargets(); observed: the returned errCycle.Cycle *)
Inductive case :=
| CCheck (g : graph) (order : list nat) (observed : option (list nat))
(* es: what was done to one graph and ONE detector, in order, starting from NewGraph(); observed: one
   observation per ECheck of es *)
| CSession (es : list event) (observed : list observation).

Definition check (c : case) : bool :=
  match c with
  | CCheck g order obs =>
      match detect g order, obs with
      | Clean, None => true
      | Found cyc, Some cyc' => list_eqb Nat.eqb cyc cyc'
      | _, _ => false
      end
  | CSession es obs => all_match (run_session detect world0 es) obs
  end.
